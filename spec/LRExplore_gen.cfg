INIT Init
NEXT Next
INVARIANTS Bounded EmitTerminal
CHECK_DEADLOCK FALSE
