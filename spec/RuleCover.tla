----------------------------- MODULE RuleCover -----------------------------
(* Production coverage of a corpus of inputs (C01): every text of the corpus, as the token string the lexer makes of it, is parsed by
   LR.tla - the automaton extracted from the working tree's parser.y - and the set of productions it reduces by is collected.
   The union over the corpus, against the grammar's production list, tells which productions (hence which builder callbacks, in
   which contexts) no replayed input ever reaches; checks/c01.py demands that the "zoo" of inputs it runs through every back end
   under the sanitizers covers all productions except a listed few, so a crash that needs a rarely used construct (a nested
   struct type, a switch statement, a gantt entry with binders ...) has an input that reaches it.
   Documents: IOEnv.RC_DOCS, one JSON object per line {id, start, toks}.                                              *)
EXTENDS Integers, Sequences, FiniteSets, TLC, Json, IOUtils, SequencesExt
L == INSTANCE LR
Docs == ndJsonDeserialize(IOEnv.RC_DOCS)
Result(d) == LET p == L!ParseRules(d.start, d.toks) IN
             [id |-> d.id, mode |-> p.c.mode, nerr |-> p.c.nerr, left |-> Len(p.c.inp), used |-> SetToSeq(p.used), cbs |-> [i \in 1..Len(p.c.out) |-> p.c.out[i].cb]]
ASSUME \A k \in 1..Len(Docs) : PrintT(<<"EMIT", ToJson(Result(Docs[k]))>>)
VARIABLE dummy
Init == dummy = 0
Next == UNCHANGED dummy
=============================================================================
