INIT Init
NEXT Next
INVARIANTS Bounded AliasInvariant ParenInvariant
CHECK_DEADLOCK FALSE
