CONSTANTS MaxLinks = 4
INIT Init
NEXT Next
INVARIANTS Sound Complete Emit
CHECK_DEADLOCK FALSE
