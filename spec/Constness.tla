----------------------------- MODULE Constness -----------------------------
(* Property C12: no accepted model writes to a constant.

   Types are terms, composed the way the builder composes them (observed with the canonical dump):
     <<"int">>  <<"const",T>>  <<"ref",T>>  <<"label",T>>  <<"range",T>>  <<"array",T>>  <<"rec",T1,T2>>
   Lvalues are terms over declared sources:
     <<"id",s>>  <<"idx",L>>  <<"fld",L,i>>  <<"cond",L1,L2>>  <<"comma",L0,L>>
   Impl* transcribes type_t::is_mutable / is_constant (type.cpp) and TypeChecker::isModifiableLValue,
   isParameterCompatible's reference rule (typechecker.cpp). ConstTarget is the semantics: the object written is
   (part of) an object declared const or a binder. Property: ConstTarget(L) => ~ImplModifiable(L); a lvalue built only
   from mutable sources is modifiable.                                                                     *)
EXTENDS Integers, Sequences, FiniteSets, TLC, Json, SequencesExt

INT == <<"range", <<"int">> >>            \* plain "int" carries the default range
REC == <<"label", <<"rec", INT, <<"array", INT>> >> >>     \* typedef struct { int f; int h[2]; } S

Sources ==
  { [n |-> "cg",  ty |-> <<"const", <<"int">> >>,         const |-> TRUE,  where |-> "global"],
    [n |-> "ca",  ty |-> <<"array", <<"const", <<"int">> >> >>, const |-> TRUE, where |-> "global"],
    [n |-> "cs",  ty |-> <<"const", REC>>,               const |-> TRUE,  where |-> "global"],
    [n |-> "csa", ty |-> <<"array", <<"const", REC>> >>,  const |-> TRUE,  where |-> "global"],
    [n |-> "tc",  ty |-> <<"label", <<"const", <<"int">> >> >>, const |-> TRUE, where |-> "global"],
    [n |-> "cl",  ty |-> <<"const", <<"int">> >>,         const |-> TRUE,  where |-> "flocal"],
    [n |-> "cp",  ty |-> <<"const", <<"int">> >>,         const |-> TRUE,  where |-> "fparam"],
    [n |-> "cr",  ty |-> <<"ref", <<"const", <<"int">> >> >>, const |-> TRUE, where |-> "fparam"],
    [n |-> "crs", ty |-> <<"ref", <<"const", REC>> >>,    const |-> TRUE,  where |-> "fparam"],
    [n |-> "tp",  ty |-> <<"const", <<"int">> >>,         const |-> TRUE,  where |-> "tparam"],
    [n |-> "tcr", ty |-> <<"ref", <<"const", <<"int">> >> >>, const |-> TRUE, where |-> "tparam"],
    [n |-> "ks",  ty |-> <<"const", <<"range", <<"int">> >> >>, const |-> TRUE, where |-> "select"],   \* select binder
    [n |-> "ki",  ty |-> <<"const", <<"range", <<"int">> >> >>, const |-> TRUE, where |-> "iter"],     \* for (ki : int[0,1])
    \* a non-const struct with an array-of-const member and a mutable member (const fields as such are not allowed)
    [n |-> "mix", ty |-> <<"label", <<"rec", <<"array", <<"const", <<"int">> >> >>, INT>> >>, const |-> FALSE, where |-> "global"],
    [n |-> "m",   ty |-> INT,                            const |-> FALSE, where |-> "global"],
    [n |-> "cis", ty |-> <<"const", <<"rec", INT, <<"array", INT>> >> >>, const |-> TRUE, where |-> "global"],    \* const struct { .. } cis: the prefix on an INLINE record type
    [n |-> "mis", ty |-> <<"rec", INT, <<"array", INT>> >>,  const |-> FALSE, where |-> "global"],
    [n |-> "cd",  ty |-> <<"const", <<"dbl">> >>,         const |-> TRUE,  where |-> "global"],      \* const double / const bool and their mutable twins
    [n |-> "cbo", ty |-> <<"const", <<"bool">> >>,        const |-> TRUE,  where |-> "global"],
    [n |-> "md",  ty |-> <<"dbl">>,                      const |-> FALSE, where |-> "global"],
    [n |-> "mb",  ty |-> <<"bool">>,                     const |-> FALSE, where |-> "global"],
    [n |-> "ma",  ty |-> <<"array", INT>>,               const |-> FALSE, where |-> "global"],
    [n |-> "ms",  ty |-> REC,                            const |-> FALSE, where |-> "global"],
    [n |-> "msa", ty |-> <<"array", REC>>,               const |-> FALSE, where |-> "global"],
    [n |-> "tm",  ty |-> <<"label", INT>>,               const |-> FALSE, where |-> "global"],
    [n |-> "l",   ty |-> INT,                            const |-> FALSE, where |-> "flocal"],
    [n |-> "p",   ty |-> INT,                            const |-> FALSE, where |-> "fparam"],
    [n |-> "r",   ty |-> <<"ref", INT>>,                 const |-> FALSE, where |-> "fparam"],
    [n |-> "rs",  ty |-> <<"ref", REC>>,                 const |-> FALSE, where |-> "fparam"],
    [n |-> "tv",  ty |-> INT,                            const |-> FALSE, where |-> "tparam"],
    [n |-> "tr",  ty |-> <<"ref", INT>>,                 const |-> FALSE, where |-> "tparam"],
    \* 3.x syntax: process T(int om; const oc1, oc2) - a `const` group declares several constant parameters, every one of them constant
    [n |-> "oc1", ty |-> <<"const", <<"int">> >>,         const |-> TRUE,  where |-> "oldtparam"],
    [n |-> "oc2", ty |-> <<"const", <<"int">> >>,         const |-> TRUE,  where |-> "oldtparam"],
    [n |-> "oc3", ty |-> <<"const", <<"int">> >>,         const |-> TRUE,  where |-> "oldtparam"],
    [n |-> "om",  ty |-> INT,                            const |-> FALSE, where |-> "oldtparam"] }

Leaf == {"int", "dbl", "bool"}            \* base types: the prefix rules do not depend on them
(* type.cpp *)
RECURSIVE ImplMutable(_)
ImplMutable(t) == CASE t[1] = "const" -> FALSE
                    [] t[1] = "rec" -> ImplMutable(t[2]) /\ ImplMutable(t[3])
                    [] t[1] \in Leaf -> TRUE
                    [] OTHER -> ImplMutable(t[2])
RECURSIVE ImplConstant(_)
ImplConstant(t) == CASE t[1] = "const" -> TRUE
                     [] t[1] = "rec" -> ImplConstant(t[2]) /\ ImplConstant(t[3])
                     [] t[1] \in Leaf -> FALSE
                     [] OTHER -> ImplConstant(t[2])
RECURSIVE Strip(_)
Strip(t) == IF t[1] \in {"const", "ref", "label", "range"} THEN Strip(t[2]) ELSE t
IsArr(t) == Strip(t)[1] = "array"
IsRec(t) == Strip(t)[1] = "rec"
(* get_sub(): prefixes are re-applied to the element type, ref/label are dropped *)
RECURSIVE ElemTy(_)
ElemTy(t) == CASE t[1] \in {"ref", "label"} -> ElemTy(t[2])
               [] t[1] = "const" -> <<"const", ElemTy(t[2])>>
               [] t[1] = "array" -> t[2]
RECURSIVE FieldTy(_, _)
FieldTy(t, i) == CASE t[1] \in {"ref", "label"} -> FieldTy(t[2], i)
                   [] t[1] = "const" -> <<"const", FieldTy(t[2], i)>>
                   [] t[1] = "rec" -> t[i + 1]

(* lvalues *)
SrcOf(n) == CHOOSE s \in Sources : s.n = n
RECURSIVE TyOf(_)
TyOf(L) == CASE L[1] = "id" -> SrcOf(L[2]).ty
             [] L[1] = "idx" -> ElemTy(TyOf(L[2]))
             [] L[1] = "fld" -> FieldTy(TyOf(L[2]), L[3])
             [] L[1] = "cond" -> TyOf(L[2])
             [] L[1] = "comma" -> TyOf(L[3])
(* TypeChecker::isModifiableLValue *)
RECURSIVE ImplModifiable(_)
ImplModifiable(L) == CASE L[1] = "id" -> ImplMutable(SrcOf(L[2]).ty)
                       [] L[1] = "idx" -> ImplModifiable(L[2])
                       [] L[1] = "fld" -> ImplModifiable(L[2])
                       [] L[1] = "cond" -> ImplModifiable(L[2]) /\ ImplModifiable(L[3])
                       [] L[1] = "comma" -> ImplModifiable(L[3])
(* semantics: which declared objects can the write reach, and is any of them const *)
RECURSIVE Roots(_)
Roots(L) == CASE L[1] = "id" -> {L[2]}
              [] L[1] \in {"idx", "fld"} -> Roots(L[2])
              [] L[1] = "cond" -> Roots(L[2]) \cup Roots(L[3])
              [] L[1] = "comma" -> Roots(L[3])
(* constness accumulated along the access path, read off the declared type term (prefix chain only) *)
RECURSIVE ConstTy(_)
ConstTy(t) == t[1] = "const" \/ (t[1] \in {"ref", "label", "range"} /\ ConstTy(t[2]))
RECURSIVE PathConst(_)
PathConst(L) == CASE L[1] = "id" -> ConstTy(SrcOf(L[2]).ty)
                  [] L[1] \in {"idx", "fld"} -> PathConst(L[2]) \/ ConstTy(TyOf(L))
                  [] L[1] = "cond" -> PathConst(L[2]) \/ PathConst(L[3])
                  [] L[1] = "comma" -> PathConst(L[3])
ConstTarget(L) == PathConst(L)
RECURSIVE AnyConst(_)
AnyConst(t) == t[1] = "const" \/ (t[1] = "rec" /\ (AnyConst(t[2]) \/ AnyConst(t[3]))) \/ (t[1] \notin Leaf \cup {"const", "rec"} /\ AnyConst(t[2]))

(* shapes: int-typed lvalues reachable from a source by indexing / field selection *)
RECURSIVE PathsOf(_, _)
PathsOf(L, t) == IF IsArr(t) THEN PathsOf(<<"idx", L>>, ElemTy(t))
                 ELSE IF IsRec(t) THEN PathsOf(<<"fld", L, 1>>, FieldTy(t, 1)) \cup PathsOf(<<"fld", L, 2>>, FieldTy(t, 2))
                 ELSE {L}
Basic == UNION {PathsOf(<<"id", s.n>>, s.ty) : s \in Sources}
Whole == {<<"id", s.n>> : s \in Sources}       \* whole objects (for reference arguments of the object's own type)

WriteForms == {"assign", "addassign", "subassign", "mulassign", "divassign", "modassign", "andassign", "orassign",
               "xorassign", "shlassign", "shrassign", "preinc", "postinc", "predec", "postdec", "funref"}
SameScope(a, b) == LET wa == SrcOf(a).where  wb == SrcOf(b).where
                   IN wa = wb \/ wa = "global" \/ wb = "global" \/ {wa, wb} = {"flocal", "fparam"} \/ {wa, wb} = {"fparam", "iter"}
                      \/ {wa, wb} = {"flocal", "iter"} \/ {wa, wb} = {"tparam", "select"}
Mixed == {<<"cond", a, b>> : a \in Basic, b \in {<<"id", "m">>, <<"id", "l">>, <<"id", "tv">>}}
         \cup {<<"cond", b, a>> : a \in Basic, b \in {<<"id", "m">>, <<"id", "l">>, <<"id", "tv">>}}
         \cup {<<"comma", b, a>> : a \in Basic, b \in {<<"id", "m">>}}
ScopeOK(L) == \A a \in Roots(L), b \in Roots(L) : SameScope(a, b)

(* doubles and bools take part with plain assignment only (++, %=, a reference to int are not for them), and not in mixed lvalues *)
NonInt == {"cd", "cbo", "md", "mb"}
RawCases == {[lv |-> L, wf |-> wf, const |-> ConstTarget(L), modifiable |-> ImplModifiable(L), roots |-> Roots(L),
           allmut |-> \A n \in Roots(L) : ~AnyConst(SrcOf(n).ty)] :
            L \in {x \in Basic \cup Mixed : ScopeOK(x)}, wf \in WriteForms}
         \* reference arguments of template instantiations: a full instantiation Q = TR(L), and partial instantiations that keep a
         \* parameter of their own, with L in the last / first argument position: Q(int &y) = TR2(y, L), Q(int &y) = TR2(L, y)
         \cup {[lv |-> L, wf |-> wf, const |-> ConstTarget(L), modifiable |-> ImplModifiable(L), roots |-> Roots(L),
                allmut |-> \A n \in Roots(L) : ~AnyConst(SrcOf(n).ty)] :
            L \in {x \in Basic : SrcOf(CHOOSE n \in Roots(x) : TRUE).where = "global" /\ Roots(x) \cap NonInt = {}}, wf \in {"tmplref", "tmplref_partial_last", "tmplref_partial_first"}}

Cases == {c \in RawCases : c.roots \cap NonInt = {} \/ (c.wf = "assign" /\ c.lv[1] = "id")}
Sound == \A c \in Cases : c.const => ~c.modifiable
TwinOK == \A c \in Cases : (\A n \in c.roots : ~AnyConst(SrcOf(n).ty)) => c.modifiable
Export(file) == ndJsonSerialize(file, SetToSeq(Cases))

VARIABLE dummy
Init == dummy = 0
Next == UNCHANGED dummy
=============================================================================
