\* stack machine over abstract values: formulas of every depth with Strahler number <= 4
CONSTANTS MaxStack = 4  Depth = 1  FullLeaves = TRUE
INIT Init
NEXT Next
INVARIANTS SoundGuard SoundInv CompleteConj
CHECK_DEADLOCK FALSE
