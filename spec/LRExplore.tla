----------------------------- MODULE LRExplore -----------------------------
(* All token strings up to MaxLen over an alphabet, fed to the LR machine of LR.tla from one grammar entry point,
   with full error recovery. Terminal configurations are emitted (tokens fed, callbacks produced, accept/abort) for
   replay into the real parser. *)
EXTENDS LR

Params == JsonDeserialize(IOEnv.LR_PARAMS)     \* {"start": token, "alphabet": [{t,n,s}...], "maxlen": n}
Alphabet == {Params.alphabet[i] : i \in 1..Len(Params.alphabet)}
(* optional "prefix": tokens every explored string begins with (they do not count towards maxlen) - for forms that sit deep in a production, e.g. `control: A[] ( ... )` *)
Prefix == IF "prefix" \in DOMAIN Params THEN Params.prefix ELSE <<>>
MaxLen == Params.maxlen + Len(Prefix)

VARIABLES cfg, hist
vars == <<cfg, hist>>

Init == cfg = InitCfg(Params.start, <<>>) /\ hist = <<>>

ReadTok == /\ NeedsLookahead(cfg)
           /\ \/ /\ Len(hist) < MaxLen
                 /\ \E t \in (IF Len(hist) < Len(Prefix) THEN {Prefix[Len(hist) + 1]} ELSE Alphabet) : cfg' = [cfg EXCEPT !.la = t] /\ hist' = Append(hist, t)
              \/ /\ Len(hist) >= Len(Prefix)
                 /\ (IF hist = <<>> THEN TRUE ELSE hist[Len(hist)].t # "$end")
                 /\ cfg' = [cfg EXCEPT !.la = EndTok] /\ hist' = Append(hist, EndTok)
Step == /\ cfg.mode = "run" /\ ~NeedsLookahead(cfg)
        /\ cfg' = LRStep(cfg) /\ UNCHANGED hist
Next == ReadTok \/ Step
Spec == Init /\ [][Next]_vars

Terminal == cfg.mode # "run"
Bounded == cfg.steps < 400            \* no behaviour of the automaton runs away on a bounded input
EmitTerminal == Terminal => PrintT(<<"EMIT", ToJson([toks |-> hist, out |-> cfg.out, mode |-> cfg.mode, nerr |-> cfg.nerr])>>)
(* exhaustive runs identify configurations up to the history/observation variables *)
ViewNoHist == <<cfg.stk, cfg.vals, cfg.la, cfg.errst, cfg.types, cfg.mode, Len(hist), (IF hist = <<>> THEN FALSE ELSE hist[Len(hist)].t = "$end")>>
=============================================================================
