CONSTANTS
  MaxOps = 0
  Closed = TRUE
  MaxSyms = 2
SPECIFICATION Spec
INVARIANTS LatestWins Innermost
CHECK_DEADLOCK FALSE
