CONSTANTS
  MaxItems = 5
INIT Init
NEXT Next
INVARIANTS PositionsRight IndexMonotone EmitLayout
CHECK_DEADLOCK FALSE
