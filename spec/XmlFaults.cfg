INIT Init
NEXT Next
