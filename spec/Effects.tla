------------------------------ MODULE Effects ------------------------------
(* Property C11: expressions that must be side-effect free are rejected if they can write state.

   The analysed object is a FAMILY of functions declared in order: a base function that performs one
   write (target x shape x write form x statement form), then wrappers, each calling the previous
   function from some statement form with some argument mode. The state machine declares them one at a
   time - exactly the order in which TypeChecker::visitFunction computes function_t::changes - and keeps
     sem[k]   what executing function k can really write: a subset of {"G","P"}
              (G: a variable not local to any function of the family; P: the object bound to its own
              reference parameter) -- least fixpoint semantics, written from the property statement;
     chg[k]   the implementation's summary: transcription of CollectChangesVisitor + collect_possible_writes
              (expression.cpp) + the erasure of locals and parameters (typechecker.cpp visitFunction).
   A context expression calls the newest function (passing the global for a reference parameter).
     MayWrite  == sem says evaluating the context can modify a variable not local to the callee chain
     Rejects   == changes_any_variable() on the context expression is true
   Invariant Sound: MayWrite => Rejects, after every declaration step.                              *)
EXTENDS Integers, Sequences, FiniteSets, TLC, Json, SequencesExt

CONSTANTS MaxDepth,        \* number of wrappers above the base function
          AllForms         \* TRUE: every statement form at every level; FALSE: wrappers use a reduced set

Targets == {"global", "local", "valparam", "refparam"}
Shapes == {"scalar", "elem", "field", "condl", "condr", "dscalar", "bscalar"}    \* dscalar / bscalar: the written object is a double / a bool   \* cond*: lvalue (c ? l : T), (c ? T : l) mixing in an own local
   \* (a parenthesised comma expression is not an expression of the language - commas exist in update lists and for-clauses only - so it cannot be an lvalue)
WriteForms == {"assign", "addassign", "preinc", "postinc", "predec", "postdec"}
StmtForms == {"plain", "if", "else", "then_else", "elseif", "for_body", "for_init", "for_step", "for_cond", "while_body", "while_cond",
              "do_body", "do_cond", "iter_body", "block", "local_init", "return"}
WrapForms == IF AllForms THEN StmtForms ELSE {"plain", "do_body", "local_init"}
ArgModes == {"g", "l", "r"}      \* what a wrapper passes for the callee's reference parameter: the global, an own local, its own reference parameter

(* Which statement forms does the implementation's ExpressionVisitor descend into? (statement.cpp) *)
Visits(sf) == TRUE

VARIABLES fam,      \* the family declared so far: sequence of step records
          sem, chg, \* per declared function, as above
          serr, ierr \* a declaration of the family is itself a violation: the initialiser of a function-local variable is a side-effect-free
                     \* context too (serr: by the statement; ierr: the type checker reports `$Initialiser_must_be_side-effect_free` there)
vars == <<fam, sem, chg, serr, ierr>>

Init == fam = <<>> /\ sem = <<>> /\ chg = <<>> /\ serr = FALSE /\ ierr = FALSE

(* base function: one write *)
DeclBase ==
    /\ fam = <<>>
    /\ \E t \in Targets, sh \in Shapes, wf \in WriteForms, sf \in StmtForms :
          /\ (sh \in {"dscalar", "bscalar"} => wf = "assign")              \* `gd = 1`, `gb = true`; ++ and += are not for every type
          /\ (sh = "dscalar" => sf # "return")                             \* an int function cannot return the double
          /\ fam' = <<[kind |-> "base", target |-> t, shape |-> sh, wf |-> wf, sf |-> sf]>>
          /\ sem' = << CASE t = "global" -> {"G"} [] t = "refparam" -> {"P"} [] OTHER -> {} >>
             \* implementation: the written symbol is collected if the statement form is visited, then locals and
             \* parameters (incl. the reference parameter) are erased
          /\ chg' = << IF Visits(sf) /\ t = "global" THEN {"g"} ELSE {} >>
          /\ serr' = (sf = "local_init")          \* `int z = <write>;` : an initialiser that contains an assignment, whatever it writes
          /\ ierr' = (sf = "local_init")          \* changes_any_variable() of the initialiser: any written symbol, locals included

(* wrapper: calls the previous function *)
DeclWrapper ==
    /\ fam # <<>> /\ Len(fam) <= MaxDepth
    /\ LET n == Len(fam)
           ref == fam[1].target = "refparam"
       IN \E sf \in WrapForms, m \in (IF ref THEN ArgModes ELSE {"-"}) :
          /\ fam' = Append(fam, [kind |-> "wrap", sf |-> sf, arg |-> m])
          /\ sem' = Append(sem, (IF "G" \in sem[n] THEN {"G"} ELSE {}) \cup
                                (IF "P" \in sem[n] THEN (CASE m = "g" -> {"G"} [] m = "l" -> {} [] m = "r" -> {"P"}) ELSE {}))
             \* implementation: callee's changes are inherited; an argument to a non-const reference parameter is
             \* collected whether or not the callee writes it; own locals/parameters are erased afterwards
          /\ chg' = Append(chg, IF ~Visits(sf) THEN {}
                                ELSE chg[n] \cup (IF ref /\ m = "g" THEN {"g"} ELSE {}))
          /\ serr' = (serr \/ (sf = "local_init" /\ sem[n] # {}))          \* `int z = f(..);` : the callee writes something that is not local to it
          /\ ierr' = (ierr \/ (sf = "local_init" /\ (chg[n] # {} \/ ref)))  \* callee summary non-empty, or an argument bound to a non-const reference

Next == DeclBase \/ DeclWrapper
Spec == Init /\ [][Next]_vars

(* the context expression: calls the newest function, passing the global for a reference parameter *)
Top == Len(fam)
MayWrite == fam # <<>> /\ (sem[Top] # {} \/ serr)         \* G, or P bound to the global by the context's call; or a declaration of the family already violates
Rejects == fam # <<>> /\ (chg[Top] # {} \/ fam[1].target = "refparam" \/ ierr)   \* the call itself passes g to a non-const reference
Sound == MayWrite => Rejects
(* the analysis may over-approximate only through reference parameters (documented conservatism) *)
Precise == (Rejects /\ ~MayWrite) => fam[1].target = "refparam"

(* ---- direct writes in side-effect-free contexts (no function involved) *)
Contexts == {"guard", "invariant", "invariant_urgent", "invariant_committed", "sync", "prob", "select", "init_global", "init_local", "init_global_double", "init_local_double", "init_global_array", "arrsize", "range", "instarg", "instarg_ref",
             "forall_body", "exists_body", "sum_body", "assert", "query_EF", "query_AG"}
LvalueForms == {"assign", "addassign", "preinc", "predec"}       \* the write forms whose value is itself an lvalue
(* instarg_ref: the argument of a template instantiation bound to a NON-CONST REFERENCE parameter; only an lvalue fits there, so
   only the lvalue write forms can be placed in it (the others are rejected as arguments, whatever they write) *)
FitsContext(ctx, wf) == ctx = "instarg_ref" => wf \in LvalueForms
(* typechecker.cpp calls changes_any_variable() at every one of these sites; for instantiation arguments it does so for every
   parameter kind before looking at reference compatibility *)
ChecksSideEffects(ctx) == TRUE
DirectCases == {d \in [ctx : Contexts, wf : WriteForms, shape : {"scalar", "elem", "field"}] : FitsContext(d.ctx, d.wf)}
DirectSound == \A d \in DirectCases : ChecksSideEffects(d.ctx)
ASSUME DirectSound
ASSUME PrintT(<<"EMIT", ToJson([direct |-> SetToSeq(DirectCases)])>>)

Emit == fam # <<>> => PrintT(<<"EMIT", ToJson([fam |-> fam, maywrite |-> MayWrite, rejects |-> Rejects,
                                                 chg |-> [i \in 1..Len(chg) |-> chg[i] # {}]])>>)
=============================================================================
