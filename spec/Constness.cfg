INIT Init
NEXT Next
