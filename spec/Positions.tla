----------------------------- MODULE Positions -----------------------------
(* C06, lexer side: the position bookkeeping of lexer.l + PositionTracker + position_index_t for one text block.

   A block is a sequence of layout items chosen in Init..Next (all sequences up to MaxItems are explored):
     tok(n)   a token of n characters            sp      one blank
     nl(k)    k consecutive "\n" (one lexeme)     crlf(k) k consecutive "\r\n" (one lexeme)
     cmt(k)   "/*a" k newlines "*/" (k > 1: empty lines inside the comment; in <comment> every "\n" is its own lexeme)
     lcmt     "// x" (the newline that ends it is a separate nl)
     cont     "\" newline (line continuation)
   Implementation state (the code's arithmetic): pos, line, lines = <<[p, line]>> records added by setPath / newline().
   Ghost state (the definition): trueLine, trueCol of the next character, counted directly from the characters.
   PositionsRight: for every token scanned, the (line, column) that error_t computes for its start - the record found by
   position_index_t::find, column = start - record.p - equals (trueLine, trueCol); and the end column = trueCol + n.
   The explored layouts are exported; the check writes each as real text with an undeclared identifier in place of one
   token and compares libutap's diagnostic range with these numbers.                                                 *)
EXTENDS Integers, Sequences, FiniteSets, TLC, Json

CONSTANTS MaxItems
Items == {[k |-> "tok", n |-> 2], [k |-> "tok", n |-> 4], [k |-> "sp", n |-> 1], [k |-> "nl", n |-> 1], [k |-> "nl", n |-> 2],
          [k |-> "crlf", n |-> 1], [k |-> "crlf", n |-> 2], [k |-> "cmt", n |-> 1], [k |-> "cmt", n |-> 2], [k |-> "cmt", n |-> 3], [k |-> "lcmt", n |-> 0], [k |-> "cont", n |-> 0]}

VARIABLES items, pos, line, lines, trueLine, trueCol, toks
vars == <<items, pos, line, lines, trueLine, trueCol, toks>>

Find(ls, p) == LET hits == {q \in 1..Len(ls) : ls[q].p <= p} IN ls[CHOOSE q \in hits : \A r \in hits : r <= q]

(* setPath: ++position; add(position, 0, 1) *)
Init == /\ items = <<>> /\ pos = 1 /\ line = 1 /\ lines = <<[p |-> 1, line |-> 1]>> /\ trueLine = 1 /\ trueCol = 0 /\ toks = <<>>

Newline(k, chars) ==       \* YY_USER_ACTION advances pos by the lexeme, then tracker.newline(k) records the NEW position
    /\ pos' = pos + chars /\ line' = line + k /\ lines' = Append(lines, [p |-> pos + chars, line |-> line + k])
    /\ trueLine' = trueLine + k /\ trueCol' = 0
Advance(chars) == /\ pos' = pos + chars /\ trueCol' = trueCol + chars /\ UNCHANGED <<line, lines, trueLine>>

Scan(it) ==
    /\ items' = Append(items, it)
    /\ CASE it.k = "tok" -> /\ Advance(it.n)
                            /\ LET rec == Find(lines, pos) IN
                               toks' = Append(toks, [item |-> Len(items) + 1, n |-> it.n, line |-> rec.line, col |-> pos - rec.p, ecol |-> pos + it.n - Find(lines, pos + it.n).p,
                                                     tline |-> trueLine, tcol |-> trueCol])
         [] it.k = "sp" -> Advance(1) /\ UNCHANGED toks
         [] it.k = "nl" -> Newline(it.n, it.n) /\ UNCHANGED toks
         [] it.k = "crlf" -> Newline(it.n, 2 * it.n) /\ UNCHANGED toks                     \* tracker.newline(ch, yyleng / 2)
         [] it.k = "cmt" -> /\ pos' = pos + 2 + 1 + it.n + 2       \* "/*", "a", n times "\n" (each newline(1) in <comment>), then "*/" on the last line
                            /\ line' = line + it.n
                            /\ lines' = lines \o [q \in 1..it.n |-> [p |-> pos + 2 + 1 + q, line |-> line + q]]
                            /\ trueLine' = trueLine + it.n /\ trueCol' = 2 /\ UNCHANGED toks
         [] it.k = "lcmt" -> Advance(4) /\ UNCHANGED toks             \* "// x" up to, not including, the newline
         [] it.k = "cont" -> Newline(1, 2) /\ UNCHANGED toks          \* "\" newline: one lexeme, newline(1)
(* a line comment runs to the end of the line: only a line end can follow it *)
Next == Len(items) < MaxItems /\ \E it \in Items : (items # <<>> /\ items[Len(items)].k = "lcmt" => it.k \in {"nl", "crlf"}) /\ Scan(it)
Spec == Init /\ [][Next]_vars

PositionsRight == \A q \in 1..Len(toks) : toks[q].line = toks[q].tline /\ toks[q].col = toks[q].tcol /\ toks[q].ecol = toks[q].tcol + toks[q].n
IndexMonotone == \A q \in 1..(Len(lines) - 1) : lines[q].p <= lines[q + 1].p /\ lines[q].line <= lines[q + 1].line
EmitLayout == (Len(items) = MaxItems /\ toks # <<>>) => PrintT(<<"EMIT", ToJson([items |-> items, toks |-> toks])>>)
=============================================================================
