------------------------------ MODULE LRDepth ------------------------------
(* LR.tla x BuilderDepth.tla: every token string up to MaxLen at one grammar entry point, parsed by the extracted bison
   automaton with full error recovery; the callbacks it emits are run through the builder's stack discipline.
   Residue0: when yyparse returns (accept or abort) the builder's expression / type / frame stacks are back at their
   entry depth (+ the operand the entry point deliberately leaves: invariant and rate leave one fragment for
   proc_location). NoUnderflow: no callback needs more operands than the stack holds. Violating configurations are the
   mechanism by which one text block leaks into the next (C16) or reads out of bounds (C01); they are emitted as
   candidates and replayed into the real library, which decides.                                                    *)
EXTENDS LRExplore, BuilderDepth

Leaves == IF Params.start \in {"T_NEW_INVARIANT", "T_EXPONENTIAL_RATE", "T_EXPRESSION"} THEN 1 ELSE 0
Residue(d) == IF cfg.mode = "accept" THEN d.f # Leaves \/ d.t # 0 \/ d.fr # 0
              ELSE d.t # 0 \/ d.fr # 0 \/ d.f # 0
EmitResidue == Terminal => LET d == Depths(cfg.out) IN
                 (Residue(d) \/ d.under \/ d.unknown # "") =>
                     PrintT(<<"EMIT", ToJson([toks |-> hist, mode |-> cfg.mode, f |-> d.f, t |-> d.t, fr |-> d.fr, under |-> d.under, unknown |-> d.unknown,
                                              cbs |-> [i \in 1..Len(cfg.out) |-> cfg.out[i].cb]])>>)
EmitTerminalAll == Terminal => LET d == Depths(cfg.out) IN
                     PrintT(<<"EMIT", ToJson([toks |-> hist, mode |-> cfg.mode, f |-> d.f - (IF cfg.mode = "accept" THEN Leaves ELSE 0), t |-> d.t, fr |-> d.fr,
                                              under |-> d.under, unknown |-> d.unknown])>>)
=============================================================================
