-------------------------------- MODULE Lex --------------------------------
(* The scanner, with flex's semantics, over the tables extracted from the working tree's lexer.l (extract/lexer_rules.py:
   per start condition ONE epsilon-free NFA whose accepting states carry the index of their rule; per rule what its action
   does) and keywords.cpp (extract/lexemes.py).

   A text is a sequence of one-character strings. In start condition c at position i the scanner takes the LONGEST prefix
   of the rest that some rule of c matches, and among the rules matching that prefix the EARLIEST (Munch); it runs the
   rule's action - return a token, skip, change the start condition, count line breaks, classify a word as keyword / type
   name / identifier under the syntax switch, read a number - and goes on behind the prefix; at the end of the text the
   <<EOF>> rule of the condition it is in runs. With `%option nodefault` a position where no rule matches is fatal ("jam").

   Scan(text, syntax, typenames) is the token string the parser is given: records [t, s, n, a, b] - token name as in the
   bison report, lexeme for identifiers / type names / strings / floats, value for naturals, and [a, b) the offsets of
   the lexeme (what YY_USER_ACTION puts into yylloc relative to the start of the text) - plus the diagnostics of the
   scanner itself, the number of line breaks counted, the expectations seen in comments and the start condition the
   scanner is left in (process-global: the next call starts in it).                                                  *)
EXTENDS Integers, Sequences, FiniteSets, TLC, Json, IOUtils

LexTab == JsonDeserialize(IOEnv.LEX_RULES)
KwTab == JsonDeserialize(IOEnv.LEXEMES).kw

(* the mask each entry point sets (parser.y: parse_XTA selects NEW_GUIDING / OLD_GUIDING, parseProperty PROPERTY); masks as sets of bits *)
SyntaxMask == [new |-> "NEW_GUIDING", old |-> "OLD_GUIDING", property |-> "PROPERTY"]
Bits(mask) == {LexTab.masks[mask][k] : k \in DOMAIN LexTab.masks[mask]}
Admits(syntax, kwmask) == /\ Bits(SyntaxMask[syntax]) \cap Bits(kwmask) # {}
                          /\ (LexTab.enable_prob \/ "PROB" \notin Bits(kwmask))      \* without ENABLE_PROB the PROB keywords are plain identifiers

Rng(s) == {s[k] : k \in DOMAIN s}
RECURSIVE Join(_)
Join(cs) == IF cs = <<>> THEN "" ELSE cs[1] \o Join(Tail(cs))
MinOf(S) == CHOOSE x \in S : \A y \in S : x <= y

Hit(ch, e) == IF e.neg THEN ch \notin Rng(e.set) ELSE ch \in Rng(e.set)
Move(c, S, ch) == LET st == LexTab.conds[c].states
                      edges == UNION {Rng(st[s].out) : s \in S}
                  IN {e.to : e \in {x \in edges : Hit(ch, x)}}
RECURSIVE Munch(_, _, _, _, _, _)
Munch(c, text, i, j, S, best) ==
    IF j > Len(text) \/ S = {} THEN best
    ELSE LET S2 == Move(c, S, text[j])
             accs == {LexTab.conds[c].states[s].acc : s \in S2} \ {0}
         IN Munch(c, text, i, j + 1, S2, IF accs = {} THEN best ELSE [len |-> j - i + 1, rule |-> MinOf(accs)])
Longest(c, text, i) == Munch(c, text, i, i, {LexTab.conds[c].start}, [len |-> 0, rule |-> 0])

(* numbers: {num} - leading zeros skipped, 2147483648 is the one literal valid only under a unary minus, larger ones overflow *)
Digit(c) == CASE c = "0" -> 0 [] c = "1" -> 1 [] c = "2" -> 2 [] c = "3" -> 3 [] c = "4" -> 4 [] c = "5" -> 5 [] c = "6" -> 6 [] c = "7" -> 7 [] c = "8" -> 8 [] c = "9" -> 9
RECURSIVE Strip0(_)
Strip0(ds) == IF ds # <<>> /\ ds[1] = "0" THEN Strip0(Tail(ds)) ELSE ds
RECURSIVE Val(_, _)
Val(ds, acc) == IF ds = <<>> THEN acc ELSE Val(Tail(ds), acc * 10 + Digit(ds[1]))
IntMax == <<"2", "1", "4", "7", "4", "8", "3", "6", "4", "7">>
RECURSIVE LexLess(_, _)
LexLess(a, b) == IF a = <<>> THEN FALSE ELSE IF Digit(a[1]) # Digit(b[1]) THEN Digit(a[1]) < Digit(b[1]) ELSE LexLess(Tail(a), Tail(b))   \* equal lengths
NatTok(lx) == LET s == Strip0(lx) IN
              IF s = <<>> THEN [t |-> "T_NAT", n |-> 0, err |-> ""]
              ELSE IF Join(s) = "2147483648" THEN [t |-> "T_POS_NEG_MAX", n |-> 0, err |-> ""]
              ELSE IF Len(s) > 10 \/ (Len(s) = 10 /\ ~(s = IntMax \/ LexLess(s, IntMax))) THEN [t |-> "T_ERROR", n |-> 0, err |-> "$Overflow"]
              ELSE [t |-> "T_NAT", n |-> Val(s, 0), err |-> ""]

WordTok(w, syntax, typenames) ==
    IF w \in DOMAIN KwTab /\ Admits(syntax, KwTab[w].syntax)
    THEN (IF KwTab[w].tok = "T_CONST" /\ syntax = "old" THEN "T_OLDCONST" ELSE KwTab[w].tok)
    ELSE IF w \in typenames THEN "T_TYPENAME" ELSE "T_ID"

Tk(t, s, n, a, b) == [t |-> t, s |-> s, n |-> n, a |-> a, b |-> b]
S0 == [cond |-> "INITIAL", i |-> 1, toks |-> <<>>, errs |-> <<>>, lines |-> 0, expect |-> <<>>, mode |-> "run"]
RuleOf(k) == LexTab.rules[k]

(* one scanner step from state st *)
ScanStep(st, text, syntax, typenames) ==
    IF st.i > Len(text)
    THEN LET e == LexTab.eof[st.cond] IN
         IF e.k = "eoferror" THEN [st EXCEPT !.cond = e.to, !.errs = Append(@, e.msg), !.mode = "end"]
         ELSE [st EXCEPT !.mode = "end"]
    ELSE LET m == Longest(st.cond, text, st.i) IN
         IF m.len = 0 THEN [st EXCEPT !.mode = "jam"]
         ELSE LET act == RuleOf(m.rule).act
                  lx == SubSeq(text, st.i, st.i + m.len - 1)
                  a == st.i - 1
                  b == st.i + m.len - 1
                  nx == [st EXCEPT !.i = st.i + m.len]
              IN CASE act.k = "tok" -> [nx EXCEPT !.toks = Append(@, Tk(act.tok, "", 0, a, b))]
                   [] act.k = "letter" ->          \* a path-quantifier letter: in a model it is an identifier, hence a type name when it names a type
                        IF Join(lx) \in typenames /\ ~(act.unless_property /\ syntax = "property")
                        THEN [nx EXCEPT !.toks = Append(@, Tk("T_TYPENAME", Join(lx), 0, a, b))]
                        ELSE [nx EXCEPT !.toks = Append(@, Tk(act.tok, "", 0, a, b))]
                   [] act.k = "skip" -> nx
                   [] act.k = "begin" -> [nx EXCEPT !.cond = act.to]
                   [] act.k = "newline" ->
                        LET cnt == IF act.per = 0 THEN 1 ELSE m.len \div act.per
                            n2 == [nx EXCEPT !.lines = @ + cnt]
                        IN IF syntax = "property" /\ act.tok # "" THEN [n2 EXCEPT !.toks = Append(@, Tk(act.tok, "", 0, a, b))] ELSE n2
                   [] act.k = "word" -> [nx EXCEPT !.toks = Append(@, LET w == Join(lx) t == WordTok(w, syntax, typenames) IN
                                                                       Tk(t, IF t \in {"T_ID", "T_TYPENAME"} THEN w ELSE "", 0, a, b))]
                   [] act.k = "nat" -> LET r == NatTok(lx) IN
                        [nx EXCEPT !.toks = Append(@, Tk(r.t, "", r.n, a, b)), !.errs = IF r.err = "" THEN @ ELSE Append(@, r.err)]
                   [] act.k = "float" -> [nx EXCEPT !.toks = Append(@, Tk("T_FLOATING", Join(lx), 0, a, b))]
                   [] act.k = "chararr" -> [nx EXCEPT !.toks = Append(@, Tk("T_CHARARR", Join(lx), 0, a, b))]
                   [] act.k = "expect" -> [nx EXCEPT !.expect = Append(@, Join(SubSeq(lx, 8, Len(lx))))]
                   [] act.k = "error" -> [nx EXCEPT !.toks = Append(@, Tk(act.tok, "", 0, a, b)), !.errs = Append(@, act.msg)]
                   [] act.k = "oldop" -> IF syntax = "old" THEN [nx EXCEPT !.toks = Append(@, Tk(act.tok, "", 0, a, b))]
                                         ELSE [nx EXCEPT !.toks = Append(@, Tk(act["else"], "", 0, a, b)), !.errs = Append(@, "$Unknown_symbol")]
RECURSIVE ScanFrom(_, _, _, _)
ScanFrom(st, text, syntax, typenames) ==
    IF st.mode # "run" THEN st ELSE ScanFrom(ScanStep(st, text, syntax, typenames), text, syntax, typenames)
Scan(text, syntax, typenames) == ScanFrom(S0, text, syntax, typenames)

(* what the parser sees: token names with lexemes and values, no offsets *)
Shape(toks) == [k \in DOMAIN toks |-> [t |-> toks[k].t, s |-> toks[k].s, n |-> toks[k].n]]
=============================================================================
