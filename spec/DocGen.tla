------------------------------- MODULE DocGen -------------------------------
(* The universe of abstract UPPAAL models used by C04, C05, C08, C16, C20 (and as carrier for C06/C09/C19), written as the
   state machine of an author who writes a model element by element in document order:

     global declarations ; templates (parameters ; local declarations ; locations ; branchpoints ; init ; edges with their
     labels) ; instantiations (full, partial with own parameters, chains through earlier instances, zero-argument
     re-instantiations) ; the system line (with ',' and '<' separators).

   Every reachable state with phase = "done" is a model M.  Expected(M) is the document the property statements of
   C04/C20 prescribe for M (the "mirror"): what has to be in the Document after parse_XML(render(M)) - element by element,
   in source order, nothing added, dropped, duplicated or re-attached - written independently of how the reader and the
   builder get there (Builder.tla / XmlReader.tla are the implementation-shaped side).

   Texts come from small pools of well-typed fragments in the printer's canonical spelling, all pairwise different, so
   that "which label landed where" is observable.  Pool entries that need a select binder carry `req`.               *)
EXTENDS Integers, Sequences, FiniteSets, TLC, Json, SequencesExt

CONSTANTS MaxTempl, MaxLoc, MaxBp, MaxEdge, MaxInst, MaxProc, Budget, PoolCap

Cap(n) == IF n < PoolCap THEN n ELSE PoolCap

(* ---------------------------------------------------------------- pools *)
(* the fixed global preamble (rendered first in <declaration>):  int i; int j = 1; clock x; chan c; broadcast chan b;
   const int N = 2; int a[3]; typedef int[0,2] id_t; bool pos(int v) { return v > 0; }                              *)
BaseVars == <<"i", "j", "x", "c", "b", "N", "a">>
SysVars == <<"sysv">>                  \* the system block starts with `typedef int[0,1] sys_t; int sysv;` : declarations there are global too
BaseFuns == <<"pos">>
BaseTypes == <<"id_t">>

(* further global declarations: txt, the variables / functions / types it declares (in order), and the document-level features it sets *)
GX(txt, vs, funs, types, feat) == [txt |-> txt, vs |-> vs, funs |-> funs, types |-> types, feat |-> feat]
F(k, v) == [k |-> k, v |-> v]
GExtra == << GX("int g1;", <<"g1">>, <<>>, <<>>, <<>>),
             GX("clock g2;", <<"g2">>, <<>>, <<>>, <<>>),
             GX("int g3 = N, g4;", <<"g3", "g4">>, <<>>, <<>>, <<>>),
             GX("meta int g5;", <<"g5">>, <<>>, <<>>, <<>>),
             GX("typedef struct { int u; int w; } rec_t;\nrec_t r0 = {1, 2};", <<"r0">>, <<>>, <<"rec_t">>, <<>>),
             GX("int sq(int v) { int t = v; t = t * v; return t; }", <<>>, <<"sq">>, <<>>, <<>>),
             GX("before_update { i = 0 }", <<>>, <<>>, <<>>, <<F("before_update", "i = 0")>>),
             GX("after_update { j = 1 }", <<>>, <<>>, <<>>, <<F("after_update", "j = 1")>>),
             GX("chan priority c < default;", <<>>, <<>>, <<>>, <<F("chan_priority", "c<default")>>),
             GX("const int K2[2] = {1, 2};", <<"K2">>, <<>>, <<>>, <<>>),
             GX("void lp() { for (k : int[0,1]) { i = k; } while (i > 0) { i--; } }", <<>>, <<"lp">>, <<>>, <<>>),
             GX("void rt() { if (i > 0) return; i = 1; }", <<>>, <<"rt">>, <<>>, <<>>),
             GX("int st(int v) { int t = 0; for (t = 0; t < v; t++) { ; } do { t--; } while (t > 0); if (t == 0) { t = 1; } else t = 2; assert(t > 0); { int u = t; t = u; } return t; }", <<>>, <<"st">>, <<>>, <<>>) >>
(* declarations that follow the process list in the system block *)
SysX == << [txt |-> "progress { i; }", feat |-> <<F("progress", "i")>>],
           [txt |-> "gantt { G(k : int[0,1]) : i == k -> 1; }", feat |-> <<F("gantt", "G")>>] >>

ParamPool == << [txt |-> "int p", name |-> "p", cls |-> "int", free |-> FALSE],
                [txt |-> "const id_t w", name |-> "w", cls |-> "int", free |-> TRUE],
                [txt |-> "int &r", name |-> "r", cls |-> "refint", free |-> FALSE],
                [txt |-> "clock &y", name |-> "y", cls |-> "refclock", free |-> FALSE],
                [txt |-> "int[0,1] e", name |-> "e", cls |-> "int", free |-> TRUE],
                [txt |-> "chan &d", name |-> "d", cls |-> "refchan", free |-> FALSE],
                [txt |-> "const int q", name |-> "q", cls |-> "int", free |-> FALSE] >>
OwnPool == << [txt |-> "const int[0,1] v", name |-> "v", cls |-> "int", free |-> TRUE, const |-> TRUE],
              [txt |-> "int[0,2] u", name |-> "u", cls |-> "int", free |-> TRUE, const |-> FALSE] >>
ArgPool(cls) == CASE cls = "int" -> <<"1", "N", "N + 1">>
                  [] cls = "refint" -> <<"i", "j", "a[1]">>
                  [] cls = "refclock" -> <<"x">>
                  [] cls = "refchan" -> <<"c">>

LDeclPool == << [txt |-> "int l1;", vs |-> <<"l1">>],
                [txt |-> "clock z;", vs |-> <<"z">>],
                [txt |-> "int i;", vs |-> <<"i">>],            \* shadows the global i
                [txt |-> "const int K = 3;", vs |-> <<"K">>] >>

InvPool == <<"x <= 5", "x <= N && i < 3", "x < 4">>
RatePool == <<"2", "N", "3">>
SelPool == << [txt |-> "k : int[0,2]", names |-> <<"k">>],
              [txt |-> "i : int[0,1]", names |-> <<"i">>],         \* shadows the global i
              [txt |-> "k : int[0,1], n : id_t", names |-> <<"k", "n">>],
              [txt |-> "j : id_t", names |-> <<"j">>] >>
GuardPool == << [txt |-> "i < 2", req |-> ""], [txt |-> "x >= 1", req |-> ""], [txt |-> "i == j && x < 3", req |-> ""],
                [txt |-> "k > 0", req |-> "k"], [txt |-> "a[i] == 0", req |-> ""], [txt |-> "pos(j)", req |-> ""],
                [txt |-> "x >= 1 && i < 21 && j != 1", req |-> ""], [txt |-> "(i > 0 ? j : 2) == 1", req |-> ""],
                [txt |-> "forall(q:id_t) a[q] >= 0", req |-> ""], [txt |-> "a[i + 1] > 0 && !pos(i)", req |-> ""],
                [txt |-> "i < 2 || j > 3 && x > 1", req |-> ""] >>
SyncPool == <<"c!", "c?", "b!", "b?">>
AsgPool == << [txt |-> "i = 1", req |-> "", wr |-> {"i"}], [txt |-> "j = i + 1, x = 0", req |-> "", wr |-> {"j"}], [txt |-> "i++", req |-> "", wr |-> {"i"}],
              [txt |-> "a[0] = k", req |-> "k", wr |-> {}], [txt |-> "x = 0", req |-> "", wr |-> {}],
              [txt |-> "i = j > 1 ? 1 : 0", req |-> "", wr |-> {"i"}], [txt |-> "a[i] = a[j] + 1", req |-> "", wr |-> {}],
              [txt |-> "i += 2, j -= 1", req |-> "", wr |-> {"i", "j"}] >>
ProbPool == <<"2", "N", "3">>

LocNames == {"Idle", "Busy", "Done"}          \* reused from template to template, as in real models
Flags == {"", "urgent", "committed"}
Ctrls == {"", "true", "false"}

(* ---------------------------------------------------------------- the model under construction *)
VARIABLES m, phase, budget
vars == <<m, phase, budget>>

EmptyModel == [gdecl |-> <<>>, templs |-> <<>>, insts |-> <<>>, procs |-> <<>>, seps |-> <<>>, sysx |-> <<>>, localids |-> FALSE]
NT == Len(m.templs)
CurT == m.templs[NT]
TemplName(n) == "T" \o ToString(n)
(* ids are unique in the file, or - as libutap's own XML writer numbers them - restart at id0 in every template *)
NextId == LET Cnt(t) == Len(t.locs) + Len(t.bps) IN
          IF NT = 0 THEN 0 ELSE IF m.localids THEN Cnt(CurT) ELSE FoldLeft(LAMBDA acc, t : acc + Cnt(t), 0, m.templs)
IdOf(n) == "id" \o ToString(n)

Init == m \in {EmptyModel, [EmptyModel EXCEPT !.localids = TRUE]} /\ phase = "g" /\ budget = Budget

Spend == budget > 0 /\ budget' = budget - 1

LastIdx(s) == IF s = <<>> THEN 0 ELSE s[Len(s)]

GDecl == /\ phase = "g" /\ Spend
         /\ \E k \in (LastIdx(m.gdecl) + 1)..Cap(Len(GExtra)) :
               m' = [m EXCEPT !.gdecl = Append(@, k)]
         /\ UNCHANGED phase

(* injective parameter lists of length <= 2 *)
ParamLists == {<<>>} \cup {<<a>> : a \in 1..Cap(Len(ParamPool))}
                     \cup {pr \in {<<a, b>> : a \in 1..Cap(Len(ParamPool)), b \in 1..Cap(Len(ParamPool))} : pr[1] # pr[2]}

TemplClosed == phase = "g" \/ (phase = "edges")
OpenTemplate == /\ TemplClosed /\ NT < MaxTempl /\ Spend
                /\ \E ps \in ParamLists :
                      m' = [m EXCEPT !.templs = Append(@, [name |-> TemplName(NT + 1), params |-> ps, ldecl |-> <<>>, locs |-> <<>>,
                                                            bps |-> <<>>, init |-> "", edges |-> <<>>])]
                /\ phase' = "ldecl"

LDecl == /\ phase = "ldecl" /\ Spend
         /\ \E k \in (LastIdx(CurT.ldecl) + 1)..Cap(Len(LDeclPool)) :
               m' = [m EXCEPT !.templs[NT].ldecl = Append(@, k)]
         /\ UNCHANGED phase

AddLoc == /\ phase \in {"ldecl", "locs"} /\ Len(CurT.locs) < MaxLoc
          /\ IF Len(CurT.locs) = 0 THEN UNCHANGED budget ELSE Spend          \* the first location is free: every template needs one
          /\ \E nm \in ({""} \cup LocNames) \ {CurT.locs[q].name : q \in {r \in 1..Len(CurT.locs) : CurT.locs[r].name # ""}},
                inv \in 0..Cap(Len(InvPool)), rate \in 0..Cap(Len(RatePool)), fl \in Flags :
                m' = [m EXCEPT !.templs[NT].locs = Append(@, [id |-> IdOf(NextId), name |-> nm,
                                                              inv |-> inv, rate |-> rate, flag |-> fl])]
          /\ phase' = "locs"

AddBp == /\ phase \in {"locs", "bps"} /\ Len(CurT.bps) < MaxBp /\ Spend
         /\ m' = [m EXCEPT !.templs[NT].bps = Append(@, [id |-> IdOf(NextId)])]
         /\ phase' = "bps"

SetInit == /\ phase \in {"locs", "bps"}
           /\ \E l \in 1..Len(CurT.locs) : m' = [m EXCEPT !.templs[NT].init = CurT.locs[l].id]
           /\ phase' = "edges" /\ UNCHANGED budget

LocIds(t) == {t.locs[l].id : l \in 1..Len(t.locs)}
BpIds(t) == {t.bps[l].id : l \in 1..Len(t.bps)}

AddEdge == /\ phase = "edges" /\ Len(CurT.edges) < MaxEdge /\ Spend
           /\ \E s \in LocIds(CurT) \cup BpIds(CurT), d \in LocIds(CurT) \cup BpIds(CurT), ct \in Ctrls :
                 /\ ~(s \in BpIds(CurT) /\ d \in BpIds(CurT))
                 /\ m' = [m EXCEPT !.templs[NT].edges = Append(@, [src |-> s, dst |-> d, ctrl |-> ct, sel |-> 0, guard |-> 0, sync |-> 0, asg |-> 0, prob |-> 0])]
           /\ UNCHANGED phase

NE == Len(CurT.edges)
CurE == CurT.edges[NE]
Provides(e, name) == name = "" \/ (e.sel # 0 /\ \E q \in 1..Len(SelPool[e.sel].names) : SelPool[e.sel].names[q] = name)
(* labels are written in the order select, guard, synchronisation, assignment, probability (a binder precedes its uses) *)
Label == /\ phase = "edges" /\ NE > 0 /\ Spend
         /\ \/ /\ CurE.sel = 0 /\ CurE.guard = 0 /\ CurE.sync = 0 /\ CurE.asg = 0 /\ CurE.prob = 0
               /\ \E k \in 1..Cap(Len(SelPool)) : m' = [m EXCEPT !.templs[NT].edges[NE].sel = k]
            \/ /\ CurE.guard = 0 /\ CurE.sync = 0 /\ CurE.asg = 0 /\ CurE.prob = 0
               /\ \E k \in 1..Cap(Len(GuardPool)) : Provides(CurE, GuardPool[k].req) /\ m' = [m EXCEPT !.templs[NT].edges[NE].guard = k]
            \/ /\ CurE.sync = 0 /\ CurE.asg = 0 /\ CurE.prob = 0 /\ CurE.src \notin BpIds(CurT)
               /\ \E k \in 1..Cap(Len(SyncPool)) : m' = [m EXCEPT !.templs[NT].edges[NE].sync = k]
            \/ /\ CurE.asg = 0 /\ CurE.prob = 0
               /\ \E k \in 1..Cap(Len(AsgPool)) : Provides(CurE, AsgPool[k].req) /\ (\A w \in AsgPool[k].wr : ~Provides(CurE, w)) /\ m' = [m EXCEPT !.templs[NT].edges[NE].asg = k]
            \/ /\ CurE.prob = 0                                  \* weights usually sit on the branches leaving a branchpoint, but any edge may carry one
               /\ \E k \in 1..Cap(Len(ProbPool)) : m' = [m EXCEPT !.templs[NT].edges[NE].prob = k]
         /\ UNCHANGED phase

StartSystem == /\ phase = "edges" /\ m' = m /\ phase' = "sys" /\ UNCHANGED budget

(* ---- instantiations *)
TemplByName(n) == CHOOSE t \in 1..NT : m.templs[t].name = n
IsTempl(n) == \E t \in 1..NT : m.templs[t].name = n
InstByName(n) == CHOOSE q \in 1..Len(m.insts) : m.insts[q].name = n
PP(t) == [q \in 1..Len(t.params) |-> ParamPool[t.params[q]]]
(* the parameter list (pool records) and number of unbound parameters of a template or instance, as the language defines it:
   an instance's parameters are its own, followed by all parameters of what it instantiates *)
RECURSIVE ParamsOf(_, _)
ParamsOf(mm, n) ==
    IF \E t \in 1..Len(mm.templs) : mm.templs[t].name = n
    THEN LET t == mm.templs[CHOOSE t \in 1..Len(mm.templs) : mm.templs[t].name = n] IN [q \in 1..Len(t.params) |-> ParamPool[t.params[q]]]
    ELSE LET ins == mm.insts[CHOOSE q \in 1..Len(mm.insts) : mm.insts[q].name = n] IN
         [q \in 1..Len(ins.own) |-> OwnPool[ins.own[q]]] \o ParamsOf(mm, ins.base)
UnboundOf(mm, n) ==
    IF \E t \in 1..Len(mm.templs) : mm.templs[t].name = n
    THEN Len(mm.templs[CHOOSE t \in 1..Len(mm.templs) : mm.templs[t].name = n].params)
    ELSE Len(mm.insts[CHOOSE q \in 1..Len(mm.insts) : mm.insts[q].name = n].own)
RECURSIVE TemplOf(_, _)
TemplOf(mm, n) == IF \E t \in 1..Len(mm.templs) : mm.templs[t].name = n THEN n
                  ELSE TemplOf(mm, mm.insts[CHOOSE q \in 1..Len(mm.insts) : mm.insts[q].name = n].base)
(* parameter name -> argument text, in parameter order, for the bound parameters *)
RECURSIVE MappingOf(_, _)
MappingOf(mm, n) ==
    IF \E t \in 1..Len(mm.templs) : mm.templs[t].name = n THEN <<>>
    ELSE LET ins == mm.insts[CHOOSE q \in 1..Len(mm.insts) : mm.insts[q].name = n]
             bp == ParamsOf(mm, ins.base)
         IN [q \in 1..Len(ins.args) |-> [param |-> bp[q].name, arg |-> ins.args[q]]] \o MappingOf(mm, ins.base)

Names == {m.templs[t].name : t \in 1..NT} \cup {m.insts[q].name : q \in 1..Len(m.insts)}
OwnLists == {<<>>} \cup {<<a>> : a \in 1..Len(OwnPool)} \cup {<<1, 2>>, <<2, 1>>}
(* all argument lists for the first n parameters ps, drawn from the pool of the parameter's class or (value int only) an own parameter *)
ArgChoices(p, own) == {ArgPool(p.cls)[q] : q \in 1..Cap(Len(ArgPool(p.cls)))} \cup
                      (IF p.cls = "int" THEN {OwnPool[own[q]].name : q \in {r \in 1..Len(own) : OwnPool[own[r]].const}} ELSE {})   \* value arguments must be compile-time computable
ArgLists(ps, n, own) == IF n = 0 THEN {<<>>}
                        ELSE IF n = 1 THEN {<<a>> : a \in ArgChoices(ps[1], own)}
                        ELSE IF n = 2 THEN {<<a, b>> : a \in ArgChoices(ps[1], own), b \in ArgChoices(ps[2], own)}
                        ELSE {<<a, b, c>> : a \in ArgChoices(ps[1], own), b \in ArgChoices(ps[2], own), c \in ArgChoices(ps[3], own)}
AddInst == /\ phase = "sys" /\ Len(m.insts) < MaxInst /\ Spend
           /\ \E base \in Names, own \in OwnLists :
                 LET ps == ParamsOf(m, base)
                     n == UnboundOf(m, base) IN
                 /\ n <= 3
                 /\ \A q \in 1..Len(own), r \in 1..Len(ps) : OwnPool[own[q]].name # ps[r].name      \* parameter names of an instance are distinct
                 /\ \E args \in ArgLists(ps, n, own) :
                       m' = [m EXCEPT !.insts = Append(@, [name |-> "P" \o ToString(Len(m.insts) + 1), own |-> own, base |-> base, args |-> args])]
           /\ UNCHANGED phase

(* may appear in the system line: every unbound parameter is a bounded integer / scalar *)
Listable(n) == LET ps == ParamsOf(m, n) IN \A q \in 1..UnboundOf(m, n) : ps[q].free
AddProc == /\ phase \in {"sys", "procs"} /\ Len(m.procs) < MaxProc
           /\ \E n \in Names : /\ Listable(n) /\ \A q \in 1..Len(m.procs) : m.procs[q] # n
                               /\ \E sep \in {",", "<"} :
                                    m' = [m EXCEPT !.procs = Append(@, n), !.seps = IF m.procs = <<>> THEN <<>> ELSE Append(@, sep)]
           /\ phase' = "procs" /\ UNCHANGED budget
AddSysX == /\ phase = "procs" /\ Spend
           /\ \E k \in (LastIdx(m.sysx) + 1)..Cap(Len(SysX)) : m' = [m EXCEPT !.sysx = Append(@, k)]
           /\ UNCHANGED phase
Finish == /\ phase = "procs" /\ m' = m /\ phase' = "done" /\ UNCHANGED budget

Next == GDecl \/ OpenTemplate \/ LDecl \/ AddLoc \/ AddBp \/ SetInit \/ AddEdge \/ Label \/ StartSystem \/ AddInst \/ AddProc \/ AddSysX \/ Finish
Spec == Init /\ [][Next]_vars

(* ---------------------------------------------------------------- the mirror: what the document must contain *)
Txt(pool, k, dflt) == IF k = 0 THEN dflt ELSE pool[k]
TxtR(pool, k, dflt) == IF k = 0 THEN dflt ELSE pool[k].txt
NameOfId(t, id) == IF id \in BpIds(t) THEN "_" \o id
                   ELSE LET l == t.locs[CHOOSE q \in 1..Len(t.locs) : t.locs[q].id = id] IN IF l.name = "" THEN "_" \o id ELSE l.name
Flatten(ss) == FoldLeft(LAMBDA acc, s : acc \o s, <<>>, ss)
ExpTempl(t) ==
    [name |-> t.name,
     params |-> [q \in 1..Len(t.params) |-> ParamPool[t.params[q]].name],
     unbound |-> Len(t.params),
     locals |-> Flatten([q \in 1..Len(t.ldecl) |-> LDeclPool[t.ldecl[q]].vs]),
     locs |-> [q \in 1..Len(t.locs) |-> [name |-> NameOfId(t, t.locs[q].id), nr |-> q - 1, inv |-> Txt(InvPool, t.locs[q].inv, ""),
                                         rate |-> Txt(RatePool, t.locs[q].rate, ""), urgent |-> t.locs[q].flag = "urgent",
                                         committed |-> t.locs[q].flag = "committed"]],
     bps |-> [q \in 1..Len(t.bps) |-> "_" \o t.bps[q].id],
     init |-> IF t.init = "" THEN "" ELSE NameOfId(t, t.init),
     edges |-> [q \in 1..Len(t.edges) |->
                  LET e == t.edges[q] IN
                  [nr |-> q - 1, src |-> NameOfId(t, e.src), dst |-> NameOfId(t, e.dst), control |-> e.ctrl # "false",
                   select |-> IF e.sel = 0 THEN <<>> ELSE SelPool[e.sel].names,
                   guard |-> TxtR(GuardPool, e.guard, "1"), sync |-> Txt(SyncPool, e.sync, ""),
                   assign |-> TxtR(AsgPool, e.asg, "1"), prob |-> Txt(ProbPool, e.prob, "1")]]]
ExpInst(mm, n) == [name |-> n, templ |-> TemplOf(mm, n),
                   params |-> LET ps == ParamsOf(mm, n) IN [q \in 1..Len(ps) |-> ps[q].name],
                   unbound |-> UnboundOf(mm, n), mapping |-> MappingOf(mm, n)]
Expected(mm) ==
    [gvars |-> BaseVars \o Flatten([q \in 1..Len(mm.gdecl) |-> GExtra[mm.gdecl[q]].vs]) \o SysVars,
     templates |-> [t \in 1..Len(mm.templs) |-> ExpTempl(mm.templs[t])],
     instances |-> [q \in 1..Len(mm.insts) |-> ExpInst(mm, mm.insts[q].name)],
     processes |-> [q \in 1..Len(mm.procs) |-> ExpInst(mm, mm.procs[q])],
     priorities |-> (\E q \in 1..Len(mm.seps) : mm.seps[q] = "<") \/ (\E q \in 1..Len(mm.gdecl) : \E r \in 1..Len(GExtra[mm.gdecl[q]].feat) : GExtra[mm.gdecl[q]].feat[r].k = "chan_priority"),
     gfuns |-> BaseFuns \o Flatten([q \in 1..Len(mm.gdecl) |-> GExtra[mm.gdecl[q]].funs]),
     gtypes |-> BaseTypes \o Flatten([q \in 1..Len(mm.gdecl) |-> GExtra[mm.gdecl[q]].types]) \o <<"sys_t">>,
     features |-> Flatten([q \in 1..Len(mm.gdecl) |-> GExtra[mm.gdecl[q]].feat]) \o Flatten([q \in 1..Len(mm.sysx) |-> SysX[mm.sysx[q]].feat])]

(* pool texts, resolved for the renderer *)
Resolved(mm) ==
    [gdecl |-> [q \in 1..Len(mm.gdecl) |-> GExtra[mm.gdecl[q]].txt],
     templs |-> [t \in 1..Len(mm.templs) |->
        LET tt == mm.templs[t] IN
        [name |-> tt.name, params |-> [q \in 1..Len(tt.params) |-> ParamPool[tt.params[q]].txt],
         ldecl |-> [q \in 1..Len(tt.ldecl) |-> LDeclPool[tt.ldecl[q]].txt],
         locs |-> [q \in 1..Len(tt.locs) |-> [id |-> tt.locs[q].id, name |-> tt.locs[q].name, inv |-> Txt(InvPool, tt.locs[q].inv, ""),
                                              rate |-> Txt(RatePool, tt.locs[q].rate, ""), flag |-> tt.locs[q].flag]],
         bps |-> [q \in 1..Len(tt.bps) |-> tt.bps[q].id], init |-> tt.init,
         edges |-> [q \in 1..Len(tt.edges) |-> LET e == tt.edges[q] IN
                      [src |-> e.src, dst |-> e.dst, ctrl |-> e.ctrl, sel |-> TxtR(SelPool, e.sel, ""), guard |-> TxtR(GuardPool, e.guard, ""),
                       sync |-> Txt(SyncPool, e.sync, ""), asg |-> TxtR(AsgPool, e.asg, ""), prob |-> Txt(ProbPool, e.prob, "")]]]],
     insts |-> [q \in 1..Len(mm.insts) |-> [name |-> mm.insts[q].name, own |-> [r \in 1..Len(mm.insts[q].own) |-> OwnPool[mm.insts[q].own[r]].txt],
                                           base |-> mm.insts[q].base, args |-> mm.insts[q].args]],
     procs |-> mm.procs, seps |-> mm.seps, sysx |-> [q \in 1..Len(mm.sysx) |-> SysX[mm.sysx[q]].txt], localids |-> mm.localids]

(* ---------------------------------------------------------------- sanity of the generator itself (checked on every state) *)
AllIds(mm) == IF mm.localids THEN <<>> ELSE Flatten([t \in 1..Len(mm.templs) |-> [q \in 1..Len(mm.templs[t].locs) |-> mm.templs[t].locs[q].id] \o
                                                  [q \in 1..Len(mm.templs[t].bps) |-> mm.templs[t].bps[q].id]])
IdsUnique == LET ids == AllIds(m) IN \A a, b \in 1..Len(ids) : ids[a] = ids[b] => a = b
RefsResolve == \A t \in 1..NT : LET tt == m.templs[t] IN
                  /\ tt.init = "" \/ tt.init \in LocIds(tt)
                  /\ \A q \in 1..Len(tt.edges) : tt.edges[q].src \in LocIds(tt) \cup BpIds(tt) /\ tt.edges[q].dst \in LocIds(tt) \cup BpIds(tt)
ArityOK == \A q \in 1..Len(m.insts) : Len(m.insts[q].args) = UnboundOf([m EXCEPT !.insts = SubSeq(@, 1, q - 1)], m.insts[q].base)
WellFormed == IdsUnique /\ RefsResolve /\ ArityOK

EmitDone == phase = "done" => PrintT(<<"EMIT", ToJson([m |-> Resolved(m), exp |-> Expected(m)])>>)
=============================================================================
