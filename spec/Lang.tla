-------------------------------- MODULE Lang --------------------------------
(* The UPPAAL expression language as the operator table defines it (oracle for C02, C03, C09):
   abstract expression trees, the precedence / associativity table, rendering with minimal and with full
   parentheses (as token sequences), keyword-alias rendering, and RPN(t): the callback sequence a ParserBuilder
   must receive for t. Nothing here is derived from parser.y.

   Trees (nested tuples):
     <<"id", name>>  <<"nat", n>>  <<"true">>  <<"false">>  <<"dbl", text>>
     <<"bin", tok, a, b>>      tok: the operator token (T_PLUS, T_KW_AND, T_KW_IMPLY, ...)
     <<"pre", tok, a>>         T_MINUS T_PLUS T_EXCLAM T_KW_NOT T_INCREMENT T_DECREMENT
     <<"post", tok, a>>        T_INCREMENT T_DECREMENT RATE
     <<"idx", a, i>>  <<"dot", a, name>>  <<"call", f, args>>  <<"bf1", tok, a>>  <<"bf2", tok, a, b>>
     <<"ite", c, a, b>>  <<"asg", tok, l, r>>  <<"quant", tok, name, body>>   (binder type int[0,1])          *)
EXTENDS Integers, Sequences, FiniteSets, TLC, LRBase

P(t) == Tok(t, 0, "")

(* binary operators: token -> [level, kind]. Levels as in the UPPAAL operator table (higher binds tighter). *)
BinTable ==
  [ T_POWOP |-> [l |-> 14, k |-> "POW"],
    T_MULT |-> [l |-> 13, k |-> "MULT"], T_DIV |-> [l |-> 13, k |-> "DIV"], T_MOD |-> [l |-> 13, k |-> "MOD"],
    T_PLUS |-> [l |-> 12, k |-> "PLUS"], T_MINUS |-> [l |-> 12, k |-> "MINUS"],
    T_LSHIFT |-> [l |-> 11, k |-> "BIT_LSHIFT"], T_RSHIFT |-> [l |-> 11, k |-> "BIT_RSHIFT"],
    T_MIN |-> [l |-> 10, k |-> "MIN"], T_MAX |-> [l |-> 10, k |-> "MAX"],
    T_LT |-> [l |-> 9, k |-> "LT"], T_LEQ |-> [l |-> 9, k |-> "LE"], T_GEQ |-> [l |-> 9, k |-> "GE"], T_GT |-> [l |-> 9, k |-> "GT"],
    T_EQ |-> [l |-> 8, k |-> "EQ"], T_NEQ |-> [l |-> 8, k |-> "NEQ"],
    AMP |-> [l |-> 7, k |-> "BIT_AND"],
    T_XOR |-> [l |-> 6, k |-> "BIT_XOR"],
    T_OR |-> [l |-> 5, k |-> "BIT_OR"],
    T_BOOL_AND |-> [l |-> 4, k |-> "AND"], T_KW_AND |-> [l |-> 4, k |-> "AND"],
    T_BOOL_OR |-> [l |-> 3, k |-> "OR"], T_KW_OR |-> [l |-> 3, k |-> "OR"], T_KW_XOR |-> [l |-> 3, k |-> "XOR"],
    T_KW_IMPLY |-> [l |-> 3, k |-> "IMPLY"] ]
BinToks == DOMAIN BinTable
TokName(t) == IF t = "AMP" THEN "'&'" ELSE t          \* the bison name of the & token is a character literal

PreToks == {"T_MINUS", "T_PLUS", "T_EXCLAM", "T_KW_NOT", "T_INCREMENT", "T_DECREMENT"}
PostToks == {"T_INCREMENT", "T_DECREMENT", "RATE"}
AsgTable == [ T_ASSIGNMENT |-> "ASSIGN", T_ASSPLUS |-> "ASS_PLUS", T_ASSMINUS |-> "ASS_MINUS", T_ASSMULT |-> "ASS_MULT",
              T_ASSDIV |-> "ASS_DIV", T_ASSMOD |-> "ASS_MOD", T_ASSOR |-> "ASS_OR", T_ASSAND |-> "ASS_AND",
              T_ASSXOR |-> "ASS_XOR", T_ASSLSHIFT |-> "ASS_LSHIFT", T_ASSRSHIFT |-> "ASS_RSHIFT" ]
AsgToks == DOMAIN AsgTable
QuantToks == {"T_FORALL", "T_EXISTS", "T_SUM"}
Bf1Table == [ T_ABS |-> "ABS_F", T_FABS |-> "FABS_F", T_SQRT |-> "SQRT_F", T_ISNAN |-> "IS_NAN_F" ]
Bf2Table == [ T_FMAX |-> "FMAX_F", T_POW |-> "POW_F", T_ATAN2 |-> "ATAN2_F" ]

LPOST == 16
LPRE == 15
LITE == 2
LASG == 1
LQUANT == 0
LATOM == 17

Level(t) == CASE t[1] \in {"id", "nat", "true", "false", "dbl"} -> LATOM
              [] t[1] = "bin" -> BinTable[t[2]].l
              [] t[1] = "pre" -> LPRE
              [] t[1] \in {"post", "idx", "dot", "call", "bf1", "bf2"} -> LPOST
              [] t[1] = "ite" -> LITE
              [] t[1] = "asg" -> LASG
              [] t[1] = "quant" -> LQUANT

(* ---------------------------------------------------------------- rendering *)
Paren(ts) == <<P("'('")>> \o ts \o <<P("')'")>>
BinderType == <<P("T_INT"), P("'['"), Tok("T_NAT", 0, ""), P("','"), Tok("T_NAT", 1, ""), P("']'")>>

RECURSIVE Ren(_, _)
(* full = TRUE: every operand in parentheses; FALSE: only the parentheses the table requires *)
Sub(c, need, full) == IF full \/ need THEN Paren(Ren(c, full)) ELSE Ren(c, full)
RECURSIVE RenArgs(_, _, _)
RenArgs(args, i, full) == IF i > Len(args) THEN <<>>
                          ELSE (IF i > 1 THEN <<P("','")>> ELSE <<>>) \o Ren(args[i], full) \o RenArgs(args, i + 1, full)
Ren(t, full) ==
    CASE t[1] = "id" -> <<Tok("T_ID", 0, t[2])>>
      [] t[1] = "nat" -> <<Tok("T_NAT", t[2], "")>>
      [] t[1] = "true" -> <<P("T_TRUE")>>
      [] t[1] = "false" -> <<P("T_FALSE")>>
      [] t[1] = "dbl" -> <<Tok("T_FLOATING", 0, t[2])>>
      [] t[1] = "bin" -> LET L == BinTable[t[2]].l IN      \* all binary operators are left associative
            Sub(t[3], Level(t[3]) < L, full) \o <<P(TokName(t[2]))>> \o Sub(t[4], Level(t[4]) <= L, full)
      [] t[1] = "pre" -> <<P(t[2])>> \o Sub(t[3], Level(t[3]) < LPRE, full)
      [] t[1] = "post" -> Sub(t[3], Level(t[3]) < LPOST, full) \o <<P(IF t[2] = "RATE" THEN "'\\''" ELSE t[2])>>
      [] t[1] = "idx" -> Sub(t[2], Level(t[2]) < LPOST, full) \o <<P("'['")>> \o Ren(t[3], full) \o <<P("']'")>>
      [] t[1] = "dot" -> Sub(t[2], Level(t[2]) < LPOST, full) \o <<P("'.'"), Tok("T_ID", 0, t[3])>>
      [] t[1] = "call" -> Sub(t[2], Level(t[2]) < LPOST, FALSE) \o <<P("'('")>> \o RenArgs(t[3], 1, full) \o <<P("')'")>>
      [] t[1] = "bf1" -> <<P(t[2]), P("'('")>> \o Ren(t[3], full) \o <<P("')'")>>
      [] t[1] = "bf2" -> <<P(t[2]), P("'('")>> \o Ren(t[3], full) \o <<P("','")>> \o Ren(t[4], full) \o <<P("')'")>>
      [] t[1] = "ite" -> Sub(t[2], Level(t[2]) <= LITE, full) \o <<P("'?'")>> \o Sub(t[3], Level(t[3]) <= LITE, full)
                         \o <<P("':'")>> \o Sub(t[4], Level(t[4]) < LITE, full)                     \* right associative
      [] t[1] = "asg" -> Sub(t[3], Level(t[3]) <= LASG, full) \o <<P(t[2])>> \o Sub(t[4], Level(t[4]) < LASG, full)
      [] t[1] = "quant" -> <<P(t[2]), P("'('"), Tok("T_ID", 0, t[3]), P("':'")>> \o BinderType \o <<P("')'")>> \o Ren(t[4], FALSE)
RenderMin(t) == Ren(t, FALSE)
RenderFull(t) == Ren(t, TRUE)

(* ---------------------------------------------------------------- the callbacks the builder must receive *)
Ev(cb, args) == [cb |-> cb, a |-> args]
RECURSIVE RPN(_)
RECURSIVE RPNArgs(_, _)
RPNArgs(args, i) == IF i > Len(args) THEN <<>> ELSE RPN(args[i]) \o RPNArgs(args, i + 1)
RPN(t) ==
    CASE t[1] = "id" -> <<Ev("expr_identifier", <<V(0, t[2])>>)>>
      [] t[1] = "nat" -> <<Ev("expr_nat", <<V(t[2], "")>>)>>
      [] t[1] = "true" -> <<Ev("expr_true", <<>>)>>
      [] t[1] = "false" -> <<Ev("expr_false", <<>>)>>
      [] t[1] = "dbl" -> <<Ev("expr_double", <<V(0, t[2])>>)>>
      [] t[1] = "bin" ->
            IF t[2] = "T_KW_IMPLY"                    \* a imply b  ==  !a || b
            THEN RPN(t[3]) \o <<Ev("expr_unary", <<V(0, "NOT")>>)>> \o RPN(t[4]) \o <<Ev("expr_binary", <<V(0, "OR")>>)>>
            ELSE RPN(t[3]) \o RPN(t[4]) \o <<Ev("expr_binary", <<V(0, BinTable[t[2]].k)>>)>>
      [] t[1] = "pre" ->
            RPN(t[3]) \o << CASE t[2] = "T_MINUS" -> Ev("expr_unary", <<V(0, "MINUS")>>)
                              [] t[2] = "T_PLUS" -> Ev("expr_unary", <<V(0, "PLUS")>>)
                              [] t[2] \in {"T_EXCLAM", "T_KW_NOT"} -> Ev("expr_unary", <<V(0, "NOT")>>)
                              [] t[2] = "T_INCREMENT" -> Ev("expr_pre_increment", <<>>)
                              [] t[2] = "T_DECREMENT" -> Ev("expr_pre_decrement", <<>>) >>
      [] t[1] = "post" ->
            RPN(t[3]) \o << CASE t[2] = "T_INCREMENT" -> Ev("expr_post_increment", <<>>)
                              [] t[2] = "T_DECREMENT" -> Ev("expr_post_decrement", <<>>)
                              [] t[2] = "RATE" -> Ev("expr_unary", <<V(0, "RATE")>>) >>
      [] t[1] = "idx" -> RPN(t[2]) \o RPN(t[3]) \o <<Ev("expr_array", <<>>)>>
      [] t[1] = "dot" -> RPN(t[2]) \o <<Ev("expr_dot", <<V(0, t[3])>>)>>
      [] t[1] = "call" -> RPN(t[2]) \o <<Ev("expr_call_begin", <<>>)>> \o RPNArgs(t[3], 1) \o <<Ev("expr_call_end", <<V(Len(t[3]), "")>>)>>
      [] t[1] = "bf1" -> RPN(t[3]) \o <<Ev("expr_builtin_function1", <<V(0, Bf1Table[t[2]])>>)>>
      [] t[1] = "bf2" -> RPN(t[3]) \o RPN(t[4]) \o <<Ev("expr_builtin_function2", <<V(0, Bf2Table[t[2]])>>)>>
      [] t[1] = "ite" -> RPN(t[2]) \o RPN(t[3]) \o RPN(t[4]) \o <<Ev("expr_inline_if", <<>>)>>
      [] t[1] = "asg" -> RPN(t[3]) \o RPN(t[4]) \o <<Ev("expr_assignment", <<V(0, AsgTable[t[2]])>>)>>
      [] t[1] = "quant" ->
            LET nm == CASE t[2] = "T_FORALL" -> "expr_forall" [] t[2] = "T_EXISTS" -> "expr_exists" [] t[2] = "T_SUM" -> "expr_sum" IN
            <<Ev("expr_nat", <<V(0, "")>>), Ev("expr_nat", <<V(1, "")>>), Ev("type_bounded_int", <<V(0, "PREFIX_NONE")>>),
              Ev(nm \o "_begin", <<V(0, t[3])>>)>> \o RPN(t[4]) \o <<Ev(nm \o "_end", <<V(0, t[3])>>)>>

(* ---------------------------------------------------------------- universes *)
A1 == <<"id", "a">>
A2 == <<"id", "b">>
A3 == <<"id", "c">>
(* every constructor applied to atoms; hole i marks where a sub-tree is plugged in *)
Cons1(x) ==        \* constructors with x as (one of) the operands, other operands distinct atoms; set of [t, pos]
    {<<"bin", o, x, A2>> : o \in BinToks} \cup {<<"bin", o, A1, x>> : o \in BinToks}
    \cup {<<"pre", o, x>> : o \in PreToks} \cup {<<"post", o, x>> : o \in PostToks}
    \cup {<<"idx", x, A2>>, <<"idx", A1, x>>, <<"dot", x, "fld">>, <<"call", x, <<>> >>, <<"call", <<"id", "f">>, <<x>> >>,
          <<"call", <<"id", "f">>, <<A1, x>> >>, <<"call", <<"id", "f">>, <<x, A2>> >>}
    \cup {<<"bf1", o, x>> : o \in DOMAIN Bf1Table} \cup {<<"bf2", o, x, A2>> : o \in DOMAIN Bf2Table} \cup {<<"bf2", o, A1, x>> : o \in DOMAIN Bf2Table}
    \cup {<<"ite", x, A2, A3>>, <<"ite", A1, x, A3>>, <<"ite", A1, A2, x>>}
    \cup {<<"asg", o, x, A2>> : o \in AsgToks} \cup {<<"asg", o, A1, x>> : o \in AsgToks}
    \cup {<<"quant", q, "k", x>> : q \in QuantToks}
Atoms == {<<"id", "a">>, <<"id", "b">>, <<"nat", 7>>, <<"true">>, <<"false">>, <<"dbl", "1.5">>}
X1 == <<"id", "x">>
X2 == <<"id", "y">>
X3 == <<"id", "z">>
Depth1 == Cons1(X1) \cup Atoms
(* inner constructors use other names so that operand order stays observable *)
Inner == {<<"bin", o, X1, X2>> : o \in BinToks} \cup {<<"pre", o, X1>> : o \in PreToks} \cup {<<"post", o, X1>> : o \in PostToks}
         \cup {<<"idx", X1, X2>>, <<"dot", X1, "g">>, <<"call", <<"id", "h">>, <<X1, X2>> >>, <<"call", <<"id", "h">>, <<>> >>,
               <<"bf1", "T_ABS", X1>>, <<"bf2", "T_FMAX", X1, X2>>, <<"ite", X1, X2, X3>>}
         \cup {<<"asg", o, X1, X2>> : o \in AsgToks} \cup {<<"quant", q, "j", X1>> : q \in QuantToks}
Depth2 == UNION {Cons1(i) : i \in Inner}
(* one representative per (level, associativity) for depth 3 *)
RepBin == {"T_POWOP", "T_MULT", "T_MINUS", "T_LSHIFT", "T_MIN", "T_LT", "T_EQ", "AMP", "T_XOR", "T_OR", "T_KW_AND", "T_KW_IMPLY"}
RepInner == {<<"bin", o, X1, X2>> : o \in RepBin} \cup {<<"pre", "T_MINUS", X1>>, <<"post", "T_INCREMENT", X1>>, <<"idx", X1, X2>>,
             <<"ite", X1, X2, X3>>, <<"asg", "T_ASSIGNMENT", X1, X2>>, <<"quant", "T_FORALL", "j", X1>>}
RepCons(x) == {<<"bin", o, x, A2>> : o \in RepBin} \cup {<<"bin", o, A1, x>> : o \in RepBin}
              \cup {<<"pre", "T_MINUS", x>>, <<"pre", "T_EXCLAM", x>>, <<"post", "T_INCREMENT", x>>, <<"idx", x, A2>>, <<"idx", A1, x>>,
                    <<"ite", x, A2, A3>>, <<"ite", A1, x, A3>>, <<"ite", A1, A2, x>>, <<"asg", "T_ASSIGNMENT", x, A2>>,
                    <<"asg", "T_ASSIGNMENT", A1, x>>, <<"quant", "T_EXISTS", "k", x>>}
Mid == UNION {{<<"bin", o, i, <<"id", "p">> >> : o \in RepBin} \cup {<<"bin", o, <<"id", "p">>, i>> : o \in RepBin}
              \cup {<<"pre", "T_MINUS", i>>, <<"idx", <<"id", "p">>, i>>, <<"ite", <<"id", "p">>, i, <<"id", "q">> >>} : i \in RepInner}
Depth3 == UNION {RepCons(m) : m \in Mid}

(* ---------------------------------------------------------------- a typed universe (C03): the same constructors, with
   operand atoms of the types the operators need, so that most trees are accepted by the type checker in the scaffold
     int i, j, k;  bool b1;  int arr[3];  int mat[2][2];  struct { int f; int g[2]; } s, sa[2];  int fn(int, int);  *)
I1 == <<"id", "i">>
I2 == <<"id", "j">>
I3 == <<"id", "k">>
LValues == {I1, <<"idx", <<"id", "arr">>, I2>>, <<"dot", <<"id", "s">>, "f">>, <<"idx", <<"idx", <<"id", "mat">>, I1>>, I2>>,
            <<"idx", <<"dot", <<"id", "s">>, "g">>, I1>>, <<"dot", <<"idx", <<"id", "sa">>, I1>>, "f">>}
ConsT(x) ==
    {<<"bin", o, x, I2>> : o \in BinToks} \cup {<<"bin", o, I1, x>> : o \in BinToks}
    \cup {<<"pre", o, x>> : o \in PreToks} \cup {<<"post", o, x>> : o \in PostToks \ {"RATE"}}
    \cup {<<"idx", <<"id", "arr">>, x>>, <<"idx", <<"idx", <<"id", "mat">>, x>>, I2>>, <<"idx", <<"idx", <<"id", "mat">>, I1>>, x>>,
          <<"call", <<"id", "fn">>, <<x, I2>> >>, <<"call", <<"id", "fn">>, <<I1, x>> >>}
    \cup {<<"bf1", "T_ABS", x>>, <<"bf2", "T_FMAX", x, I2>>, <<"bf2", "T_FMAX", I1, x>>}
    \cup {<<"ite", x, I2, I3>>, <<"ite", I1, x, I3>>, <<"ite", I1, I2, x>>}
    \cup {<<"asg", o, lv, x>> : o \in AsgToks, lv \in {I1, <<"idx", <<"id", "arr">>, I2>>}} \cup {<<"asg", o, x, I2>> : o \in AsgToks}
    \cup {<<"quant", q, "q", x>> : q \in QuantToks}
DblAtoms == {<<"dbl", "1.5">>, <<"dbl", "0.1">>, <<"dbl", "3.0">>, <<"dbl", "0.30000000000000004">>, <<"dbl", "1e-09">>, <<"dbl", "1.7976931348623157e308">>,
             <<"dbl", "4.9e-324">>, <<"dbl", "123456789.123456789">>, <<"dbl", "5e22">>}
TAtoms == LValues \cup DblAtoms \cup {<<"nat", 7>>, <<"nat", 0>>, <<"true">>, <<"false">>, <<"id", "b1">>, <<"id", "d">>}
           \cup {<<"bin", "T_PLUS", <<"id", "d">>, x>> : x \in DblAtoms} \cup {<<"pre", "T_MINUS", x>> : x \in DblAtoms}
TInner == UNION {ConsT(a) : a \in {I1, <<"idx", <<"id", "arr">>, I3>>, <<"dot", <<"id", "s">>, "f">>}}
TDepth1 == TAtoms \cup TInner
TDepth2 == UNION {ConsT(m) : m \in {y \in TInner : y[1] # "asg" \/ y[2] \in {"T_ASSIGNMENT", "T_ASSPLUS"}}}
=============================================================================
