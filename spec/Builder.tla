------------------------------ MODULE Builder ------------------------------
(* The document-structure part of the ParserBuilder protocol as DocumentBuilder (DocumentBuilder.cpp) and Document /
   template_t (document.cpp) implement it: one operator per structural callback, including the error paths as the code
   has them:
     - add_location / add_branchpoint append the object and register its symbol BEFORE throwing on a duplicate name;
     - proc_begin reports a duplicate template name and creates the template anyway;
     - proc_edge_begin pushes a frame and directs the labels to a discarded edge (curE = <<-1,-1>>) when an endpoint does
       not resolve; proc_edge_end clears curE (before fix 1a1022e currentEdge was never cleared and the labels of a failed
       edge landed on the previous edge);
     - instantiation_end drops the instance on an arity mismatch but still pops the argument fragments;
     - process() throws for unknown names / non-templates, and registers a second symbol of the same name.
   A frame maps a name to its LATEST symbol (frame_t::mapping); resolution walks the parent chain of the top frame.

   State b:  gf (global frame: Seq of symbols), templs, insts, procs, frames (tags), curT, curE, params (pending
   parameter frame), nfrag, nerr, nid (parameter identities).  Apply(b, ev) is one callback; DocInv is property C08. *)
EXTENDS Integers, Sequences, FiniteSets, TLC, SequencesExt

NoSym == [name |-> "", kind |-> "none", t |-> 0, ref |-> 0]
Sym(n, k, t, r) == [name |-> n, kind |-> k, t |-> t, ref |-> r]

Init0 == [gf |-> <<>>, templs |-> <<>>, insts |-> <<>>, procs |-> <<>>, frames |-> <<"g">>, curT |-> 0, curE |-> <<0, 0>>,
          params |-> <<>>, own |-> <<>>, nfrag |-> 0, nerr |-> 0, nid |-> 0]

(* frame_t::get_index_of: the latest symbol of that name *)
Latest(frame, name) == LET hits == {q \in 1..Len(frame) : frame[q].name = name} IN
                       IF hits = {} THEN NoSym ELSE frame[CHOOSE q \in hits : \A r \in hits : r <= q]
HasName(frame, name) == \E q \in 1..Len(frame) : frame[q].name = name
(* ExpressionBuilder::resolve = frames.top().resolve: inside a template (or any frame created below it) the template frame,
   then the global frame *)
Resolve(b, name) == IF b.curT # 0 /\ HasName(b.templs[b.curT].frame, name) THEN Latest(b.templs[b.curT].frame, name)
                    ELSE Latest(b.gf, name)
Err(b) == [b EXCEPT !.nerr = @ + 1]

(* decl_parameter *)
DeclParameter(b, name) == [b EXCEPT !.params = Append(@, [name |-> name, id |-> b.nid + 1]), !.nid = @ + 1]

(* decl_func_begin / decl_func_end (StatementBuilder): the function's symbol enters the current declaration block (the template's frame
   inside a template, the global frame otherwise) even when the name is a duplicate, which is reported; the pending parameter frame
   becomes the function's own scope *)
DeclFuncBegin(b, name) ==
    LET inT == b.curT # 0
        fr == IF inT THEN b.templs[b.curT].frame ELSE b.gf
        b1 == IF HasName(fr, name) THEN Err(b) ELSE b
        s == Sym(name, "fun", b.curT, 0)
        b2 == IF inT THEN [b1 EXCEPT !.templs[b.curT].frame = Append(@, s)] ELSE [b1 EXCEPT !.gf = Append(@, s)]
    IN [b2 EXCEPT !.params = <<>>, !.frames = Append(@, "f")]
DeclFuncEnd(b) == [b EXCEPT !.frames = SubSeq(@, 1, Len(@) - 1)]

(* proc_begin -> Document::add_template *)
ProcBegin(b, name) ==
    LET b1 == IF HasName(b.gf, name) THEN Err(b) ELSE b          \* frames.top() is the global frame here
        k == Len(b1.templs) + 1
        t == [name |-> name, params |-> b1.params, unbound |-> Len(b1.params), mapping |-> {}, arity |-> Len(b1.params), templ |-> k,
              frame |-> [q \in 1..Len(b1.params) |-> Sym(b1.params[q].name, "param", k, q)],
              locs |-> <<>>, bps |-> <<>>, init |-> NoSym, edges |-> <<>>]
    IN [b1 EXCEPT !.templs = Append(@, t), !.gf = Append(@, Sym(name, "templ", 0, k)), !.curT = k, !.frames = Append(@, "t"), !.params = <<>>]

ProcEnd(b) == [b EXCEPT !.curT = 0, !.frames = SubSeq(@, 1, Len(@) - 1)]

(* proc_location -> template_t::add_location: the location exists and is numbered even when its name is a duplicate *)
ProcLocation(b, name) ==
    LET t == b.templs[b.curT]
        dup == HasName(t.frame, name)
        k == Len(t.locs) + 1
        b1 == [b EXCEPT !.templs[b.curT].locs = Append(@, [name |-> name, nr |-> k - 1]),
                        !.templs[b.curT].frame = Append(@, Sym(name, "loc", b.curT, k))]
    IN IF dup THEN Err(b1) ELSE b1
ProcBranchpoint(b, name) ==
    LET t == b.templs[b.curT]
        dup == HasName(t.frame, name)
        k == Len(t.bps) + 1
        b1 == [b EXCEPT !.templs[b.curT].bps = Append(@, [name |-> name, nr |-> k - 1]),
                        !.templs[b.curT].frame = Append(@, Sym(name, "bp", b.curT, k))]
    IN IF dup THEN Err(b1) ELSE b1
ProcLocationInit(b, name) ==
    LET s == Resolve(b, name) IN
    IF s.kind # "loc" THEN Err(b) ELSE [b EXCEPT !.templs[b.curT].init = s]

ProcEdgeBegin(b, from, to) ==
    LET f == Resolve(b, from)
        d == Resolve(b, to) IN
    IF f.kind \notin {"loc", "bp"} \/ d.kind \notin {"loc", "bp"}
    THEN [Err(b) EXCEPT !.frames = Append(@, "dummy"), !.curE = <<-1, -1>>]      \* labels go to the discarded edge
    ELSE LET k == Len(b.templs[b.curT].edges) + 1 IN
         [b EXCEPT !.templs[b.curT].edges = Append(@, [nr |-> k - 1, src |-> f, dst |-> d]), !.curE = <<b.curT, k>>, !.frames = Append(@, "edge")]
ProcEdgeEnd(b) == [b EXCEPT !.frames = SubSeq(@, 1, Len(@) - 1), !.curE = <<0, 0>>]

(* instantiation_begin(name, #params, template) / instantiation_end(name, #params, template, #arguments) *)
IsInstSym(s) == s.kind \in {"templ", "inst"}
InstOf(b, s) == IF s.kind = "templ" THEN b.templs[s.ref] ELSE b.insts[s.ref]
InstantiationBegin(b, name, templ) ==
    LET b1 == IF HasName(b.gf, name) THEN Err(b) ELSE b
        b2 == IF ~IsInstSym(Resolve(b1, templ)) THEN Err(b1) ELSE b1
    IN [b2 EXCEPT !.frames = Append(@, "inst"), !.params = <<>>, !.own = b2.params]
InstantiationEnd(b, name, templ, nargs) ==
    LET own == b.own
        b0 == [b EXCEPT !.frames = SubSeq(@, 1, Len(@) - 1), !.nfrag = @ - nargs]
        s == Resolve(b0, templ) IN
    IF ~IsInstSym(s) THEN b0
    ELSE LET old == InstOf(b0, s) IN
         IF nargs # old.arity THEN Err(b0)
         ELSE LET k == Len(b0.insts) + 1
                  i == [name |-> name, params |-> own \o old.params, unbound |-> Len(own), arity |-> Len(own), templ |-> old.templ,
                        mapping |-> old.mapping \cup {old.params[q].id : q \in 1..nargs}]
              IN [b0 EXCEPT !.insts = Append(@, i), !.gf = Append(@, Sym(name, "inst", 0, k))]
PushArg(b) == [b EXCEPT !.nfrag = @ + 1]

(* process(name): Document::add_process copies the instance and registers a process symbol of the same name *)
Process(b, name) ==
    LET s == Resolve(b, name) IN
    IF ~IsInstSym(s) THEN Err(b)
    ELSE [b EXCEPT !.procs = Append(@, InstOf(b, s)), !.gf = Append(@, Sym(name, "proc", 0, Len(b.procs) + 1))]

Apply(b, ev) ==
    CASE ev.cb = "decl_parameter" -> DeclParameter(b, ev.a)
      [] ev.cb = "decl_func_begin" -> DeclFuncBegin(b, ev.a)
      [] ev.cb = "decl_func_end" -> DeclFuncEnd(b)
      [] ev.cb = "proc_begin" -> ProcBegin(b, ev.a)
      [] ev.cb = "proc_end" -> ProcEnd(b)
      [] ev.cb = "proc_location" -> ProcLocation(b, ev.a)
      [] ev.cb = "proc_branchpoint" -> ProcBranchpoint(b, ev.a)
      [] ev.cb = "proc_location_init" -> ProcLocationInit(b, ev.a)
      [] ev.cb = "proc_edge_begin" -> ProcEdgeBegin(b, ev.a, ev.b)
      [] ev.cb = "proc_edge_end" -> ProcEdgeEnd(b)
      [] ev.cb = "instantiation_begin" -> InstantiationBegin(b, ev.a, ev.b)
      [] ev.cb = "instantiation_end" -> InstantiationEnd(b, ev.a, ev.b, ev.n)
      [] ev.cb = "expr_nat" -> PushArg(b)
      [] ev.cb = "process" -> Process(b, ev.a)

(* ---------------------------------------------------------------- C08 *)
InstInv(i) == /\ i.unbound <= Len(i.params)
              /\ \A q \in 1..Len(i.params) : (q <= i.unbound) = (i.params[q].id \notin i.mapping)     \* unbound first, exactly the bound ones mapped
              /\ Cardinality(i.mapping) = Len(i.params) - i.unbound
              /\ i.arity = i.unbound
              /\ \A q, r \in 1..Len(i.params) : i.params[q].id = i.params[r].id => q = r
TemplInv(b, k) == LET t == b.templs[k] IN
    /\ InstInv(t)
    /\ \A q \in 1..Len(t.locs) : t.locs[q].nr = q - 1                                   \* dense, in source order
    /\ \A q \in 1..Len(t.bps) : t.bps[q].nr = q - 1
    /\ \A q \in 1..Len(t.edges) : /\ t.edges[q].nr = q - 1
                                  /\ t.edges[q].src.kind \in {"loc", "bp"} /\ t.edges[q].src.t = k /\ t.edges[q].src.ref <= Len(IF t.edges[q].src.kind = "loc" THEN t.locs ELSE t.bps)
                                  /\ t.edges[q].dst.kind \in {"loc", "bp"} /\ t.edges[q].dst.t = k /\ t.edges[q].dst.ref <= Len(IF t.edges[q].dst.kind = "loc" THEN t.locs ELSE t.bps)
    /\ t.init = NoSym \/ (t.init.kind = "loc" /\ t.init.t = k /\ t.init.ref <= Len(t.locs))
DocInv(b) == /\ \A k \in 1..Len(b.templs) : TemplInv(b, k)
             /\ \A k \in 1..Len(b.insts) : InstInv(b.insts[k]) /\ b.insts[k].templ \in 1..Len(b.templs)
             /\ \A k \in 1..Len(b.procs) : InstInv(b.procs[k]) /\ b.procs[k].templ \in 1..Len(b.templs)
AcceptedInit(b) == b.nerr = 0 => \A k \in 1..Len(b.templs) : b.templs[k].init # NoSym
Balanced(b) == Len(b.frames) >= 1 /\ b.nfrag >= 0

(* projection compared with the facts the harness reads from the real Document after every callback *)
ProjInst(i) == [name |-> i.name, np |-> Len(i.params), unbound |-> i.unbound, arity |-> i.arity,
                mapped |-> [q \in 1..Len(i.params) |-> i.params[q].id \in i.mapping]]
Proj(b) == [templs |-> [k \in 1..Len(b.templs) |-> LET t == b.templs[k] IN
                          [name |-> t.name, np |-> Len(t.params), unbound |-> t.unbound,
                           locs |-> [q \in 1..Len(t.locs) |-> [name |-> t.locs[q].name, nr |-> t.locs[q].nr]],
                           bps |-> [q \in 1..Len(t.bps) |-> [name |-> t.bps[q].name, nr |-> t.bps[q].nr]],
                           init |-> IF t.init = NoSym THEN 0 ELSE t.init.ref,
                           edges |-> [q \in 1..Len(t.edges) |-> [nr |-> t.edges[q].nr, src |-> t.edges[q].src.name, dst |-> t.edges[q].dst.name,
                                                                 srct |-> t.edges[q].src.t, dstt |-> t.edges[q].dst.t,
                                                                 srcbp |-> t.edges[q].src.kind = "bp", dstbp |-> t.edges[q].dst.kind = "bp"]]]],
            insts |-> [k \in 1..Len(b.insts) |-> ProjInst(b.insts[k])],
            procs |-> [k \in 1..Len(b.procs) |-> [name2 \in {"name", "np", "unbound", "mapped"} |-> ProjInst(b.procs[k])[name2]]],   \* a process symbol has a process type, no arity
            nerr |-> b.nerr, nframes |-> Len(b.frames), nfrag |-> b.nfrag, curT |-> b.curT # 0, curE |-> b.curE # <<0, 0>>]
=============================================================================
