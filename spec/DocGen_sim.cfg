CONSTANTS
  MaxTempl = 3
  MaxLoc = 3
  MaxBp = 1
  MaxEdge = 4
  MaxInst = 4
  MaxProc = 3
  Budget = 22
  PoolCap = 9
INIT Init
NEXT Next
INVARIANTS WellFormed EmitDone
CHECK_DEADLOCK FALSE
