INIT Init
NEXT Next
