----------------------------- MODULE XmlFaults -----------------------------
(* C01, XML side: the universe of structural faults of a well-formed UPPAAL XML document (missing / empty / garbage
   attributes, missing / duplicated / emptied / unknown / misplaced elements) and the way xmlreader.cpp and the builder
   callbacks it feeds treat an absent attribute.

   Access(site) transcribes what the code does with the (possibly null) attribute value:
     "checked"  - tested for null (or looked up through get_name(), which tests) before use;
     "ctor"     - handed to std::string's constructor: libstdc++ >= 12 throws std::logic_error for null (a std::exception,
                  which the statement allows);
     "assign"   - assigned to an existing std::string: strlen(nullptr), a crash.
   AttrPresent: no site is of class "assign".  The cases are exported and applied to real documents by the check.     *)
EXTENDS Integers, Sequences, FiniteSets, TLC, Json, SequencesExt

Sites == { [elem |-> "label", attr |-> "kind", access |-> "checked"],            \* XMLReader::label / invariant: throws TypeException
           [elem |-> "location", attr |-> "id", access |-> "ctor"],              \* getAttributeStr
           [elem |-> "branchpoint", attr |-> "id", access |-> "ctor"],
           [elem |-> "instance", attr |-> "id", access |-> "ctor"],
           [elem |-> "init", attr |-> "ref", access |-> "checked"],
           [elem |-> "source", attr |-> "ref", access |-> "checked"],            \* reference() -> get_name(nullptr) throws XMLDocError
           [elem |-> "target", attr |-> "ref", access |-> "checked"],
           [elem |-> "anchor", attr |-> "instanceid", access |-> "checked"],
           [elem |-> "transition", attr |-> "controllable", access |-> "checked"],
           [elem |-> "transition", attr |-> "action", access |-> "checked"],
           [elem |-> "option", attr |-> "key", access |-> "ctor"],               \* query_options / model_option: handle_error, then option_t{key, ..}
           [elem |-> "option", attr |-> "value", access |-> "checked"],
           [elem |-> "expect", attr |-> "outcome", access |-> "checked"],
           [elem |-> "expect", attr |-> "type", access |-> "checked"],
           [elem |-> "expect", attr |-> "value", access |-> "checked"],          \* expectation_value (was "assign" before the fix)
           [elem |-> "resource", attr |-> "type", access |-> "ctor"],
           [elem |-> "resource", attr |-> "value", access |-> "ctor"],
           [elem |-> "resource", attr |-> "unit", access |-> "ctor"] }
AttrPresent == \A s \in Sites : s.access # "assign"

Elements == {"nta", "declaration", "template", "name", "parameter", "location", "label", "urgent", "committed", "branchpoint", "init", "transition",
             "source", "target", "nail", "instantiation", "system", "queries", "query", "formula", "comment", "option", "expect", "resource", "result",
             "lsc", "type", "mode", "yloccoord", "instance", "prechart", "lsclocation", "message", "condition", "update", "anchor", "temperature"}
ElemMutations == {"delete", "duplicate", "empty", "blank-text", "unknown-tag", "move-last", "move-first", "nest-in-self"}
AttrMutations == {"drop", "empty", "garbage", "duplicate-value"}

Cases == {[kind |-> "attr", elem |-> s.elem, attr |-> s.attr, mut |-> mu, access |-> s.access] : s \in Sites, mu \in AttrMutations}
         \cup {[kind |-> "elem", elem |-> e, attr |-> "", mut |-> mu, access |-> ""] : e \in Elements, mu \in ElemMutations}
(* outcome class the reader must stay in for a case: return-with-diagnostics or a std::exception; never a crash *)
Allowed(c) == IF c.kind = "attr" /\ c.access = "assign" THEN {"crash"} ELSE {"return", "throw-std"}
ASSUME PrintT(<<"EMIT", ToJson([attrpresent |-> AttrPresent, cases |-> SetToSeq(Cases)])>>)
VARIABLE dummy
Init == dummy = 0
Next == UNCHANGED dummy
=============================================================================
