------------------------------- MODULE Scopes -------------------------------
(* C07: identifiers bind to the innermost preceding declaration in scope.

   One name `n` may be declared at any subset D of the scope levels of a model; every level gives it a distinguishable
   type (int[k,k]) so that the symbol an occurrence is bound to can be read off the parsed document.

   A use site is described by
     chain  - the scopes that enclose it, outermost first (what the language definition says is in scope),
     before - the levels whose declaration of n, if there is one, textually PRECEDES the site.
   LexBind(D, s)  = the last level of s.chain that is in D and in s.before; "unknown" if there is none        (the statement)
   ImplBind(D, s) = what ExpressionBuilder::resolve finds: it walks the parent chain of the frame on top of the builder's
                    frame stack, and a frame holds n only if the declaring callback has already run            (the code)
   Qualified sites (P.n in a query) look at the template's own frame only: parameters and locals of P's template.
   Agree: ImplBind = LexBind on the whole universe. The cases are exported; the check renders one model per D containing
   every site and compares the binding libutap made with LexBind.                                                    *)
EXTENDS Integers, Sequences, FiniteSets, TLC, Json, SequencesExt

Levels == {"global", "tparam", "tlocal", "fparam", "fblock", "nested", "iter", "quant", "select"}
(* the template's parameters and its local declarations share one frame, and so do a function's parameters and the
   declarations of its body block: declaring n in both is a duplicate definition *)
Admissible(D) == ~({"tparam", "tlocal"} \subseteq D) /\ ~({"fparam", "fblock"} \subseteq D)

S(id, chain, before, qual) == [id |-> id, chain |-> chain, before |-> before, qual |-> qual, hidden |-> {}]
(* a site at which the builder's frame stack lacks some of the scopes that lexically enclose it: the parameter list under
   construction lives in a detached frame (`params`) until the function body / template body begins *)
SH(id, chain, before, hidden) == [id |-> id, chain |-> chain, before |-> before, qual |-> FALSE, hidden |-> hidden]
Sites == {
  S(117, <<"global">>, {}, FALSE),                                        \* global initialiser BEFORE the global declaration of n
  S(118, <<"global">>, {"global"}, FALSE),                                \* ... after it
  S(101, <<"global", "tparam", "tlocal">>, {"global", "tparam"}, FALSE),  \* template-local initialiser before the local declaration
  S(102, <<"global", "tparam", "tlocal">>, {"global", "tparam", "tlocal"}, FALSE),
  S(103, <<"global", "tparam", "tlocal", "fparam", "fblock">>, {"global", "tparam", "tlocal", "fparam"}, FALSE),        \* function body, before its own local
  S(104, <<"global", "tparam", "tlocal", "fparam", "fblock">>, {"global", "tparam", "tlocal", "fparam", "fblock"}, FALSE),
  S(105, <<"global", "tparam", "tlocal", "fparam", "fblock", "nested">>, {"global", "tparam", "tlocal", "fparam", "fblock"}, FALSE),   \* nested block, before its local
  S(106, <<"global", "tparam", "tlocal", "fparam", "fblock", "nested">>, {"global", "tparam", "tlocal", "fparam", "fblock", "nested"}, FALSE),
  S(107, <<"global", "tparam", "tlocal", "fparam", "fblock">>, {"global", "tparam", "tlocal", "fparam", "fblock"}, FALSE),             \* after the nested block has been left
  S(108, <<"global", "tparam", "tlocal", "fparam", "fblock", "iter">>, {"global", "tparam", "tlocal", "fparam", "fblock", "iter"}, FALSE), \* body of for (n : ..)
  S(109, <<"global", "tparam", "tlocal", "fparam", "fblock">>, {"global", "tparam", "tlocal", "fparam", "fblock"}, FALSE),             \* after the iteration
  S(110, <<"global", "tparam", "tlocal", "fparam", "fblock", "quant">>, {"global", "tparam", "tlocal", "fparam", "fblock", "quant"}, FALSE), \* forall body inside the function
  S(111, <<"global", "tparam", "tlocal", "select">>, {"global", "tparam", "tlocal", "select"}, FALSE),                 \* guard of an edge with select n
  S(112, <<"global", "tparam", "tlocal", "select">>, {"global", "tparam", "tlocal", "select"}, FALSE),                 \* its update
  S(113, <<"global", "tparam", "tlocal", "select", "quant">>, {"global", "tparam", "tlocal", "select", "quant"}, FALSE),  \* quantifier inside that guard
  S(114, <<"global", "tparam", "tlocal">>, {"global", "tparam", "tlocal"}, FALSE),                                     \* guard of a LATER edge without select
  S(115, <<"global", "tparam", "tlocal">>, {"global", "tparam", "tlocal"}, FALSE),                                     \* invariant
  S(116, <<"global">>, {"global"}, FALSE),                                \* guard in a second template that declares nothing
  S(119, <<"global">>, {"global"}, FALSE),                                \* instantiation argument in the system block
  S(120, <<"global">>, {"global"}, FALSE),                                \* query, unqualified
  S(121, <<"tparam", "tlocal">>, {"tparam", "tlocal"}, TRUE),              \* query, P.n
  (* occurrences inside TYPES (range bounds, array sizes) *)
  SH(130, <<"global", "tparam", "tlocal", "fparam">>, {"global", "tparam", "tlocal", "fparam"}, {"fparam"}),   \* type of a LATER function parameter: void f(T n, int[0,n] p)
  SH(131, <<"global", "tparam">>, {"global", "tparam"}, {"tparam"}),                                            \* type of a LATER template parameter
  S(132, <<"global", "tparam", "tlocal", "fparam", "fblock">>, {"global", "tparam", "tlocal", "fparam", "fblock"}, FALSE),   \* type of a function local
  S(133, <<"global">>, {"global"}, FALSE),                                                                      \* type of a global variable
  S(134, <<"global", "tparam", "tlocal">>, {"global", "tparam", "tlocal"}, FALSE),                              \* array size of a template local
  S(135, <<"global", "tparam", "tlocal", "select">>, {"global", "tparam", "tlocal", "select"}, FALSE),          \* type of a LATER select binder
  S(136, <<"global", "tparam", "tlocal", "fparam", "fblock", "quant">>, {"global", "tparam", "tlocal", "fparam", "fblock", "quant"}, FALSE),   \* binder type of a nested quantifier
  S(137, <<"global", "tparam", "tlocal", "fparam", "fblock", "iter">>, {"global", "tparam", "tlocal", "fparam", "fblock", "iter"}, FALSE) }    \* binder type of a nested iteration

LastOk(seq, ok(_)) == LET hits == {q \in 1..Len(seq) : ok(seq[q])} IN IF hits = {} THEN "unknown" ELSE seq[CHOOSE q \in hits : \A r \in hits : r <= q]
LexBind(D, s) == LastOk(s.chain, LAMBDA l : l \in D /\ l \in s.before)

(* the builder: frames pushed so far at the site, innermost last; a frame contains n iff decl_var / decl_parameter / the binder
   callback for that level ran before the site (callbacks run in textual order) *)
FrameHolds(D, s, l) == l \in D /\ l \in s.before /\ l \notin s.hidden
RECURSIVE Walk(_, _, _)
Walk(D, s, i) == IF i = 0 THEN "unknown" ELSE IF FrameHolds(D, s, s.chain[i]) THEN s.chain[i] ELSE Walk(D, s, i - 1)
ImplBind(D, s) == Walk(D, s, Len(s.chain))

Universe == {D \in SUBSET Levels : Admissible(D)}
Agree == \A D \in Universe, s \in Sites : ImplBind(D, s) = LexBind(D, s)
(* where the frame stack is the lexical chain the two agree; the disagreements are exactly the detached-parameter-frame sites *)
AgreeOnStack == \A D \in Universe, s \in Sites : s.hidden = {} => ImplBind(D, s) = LexBind(D, s)
NDisagree == Cardinality({<<D, s>> \in Universe \X Sites : ImplBind(D, s) # LexBind(D, s)})
Cases == {[d |-> D, sites |-> {[id |-> s.id, bind |-> LexBind(D, s), impl |-> ImplBind(D, s)] : s \in Sites}] : D \in Universe}
ASSUME PrintT(<<"EMIT", ToJson([agree |-> Agree, agreeonstack |-> AgreeOnStack, ndisagree |-> NDisagree, n |-> Cardinality(Universe) * Cardinality(Sites)])>>)
ASSUME \A cse \in Cases : PrintT(<<"EMIT", ToJson([d |-> SetToSeq(cse.d), sites |-> SetToSeq(cse.sites)])>>)
(* ---------------------------------------------------------------- type names
   A type name `tn` may be declared (typedef) at the levels global, tlocal, fblock (function body) and nested (inner block);
   use sites declare a variable of type tn, so the binding is the declared variable's type.                          *)
TLevels == {"global", "tlocal", "fblock", "nested"}
TSites == {
  S(201, <<"global">>, {"global"}, FALSE),                                             \* global variable after the global typedef
  S(202, <<"global", "tlocal">>, {"global"}, FALSE),                                   \* template-local variable BEFORE the local typedef
  S(203, <<"global", "tlocal">>, {"global", "tlocal"}, FALSE),
  S(204, <<"global", "tlocal", "fblock">>, {"global", "tlocal"}, FALSE),               \* function local before the function's own typedef
  S(205, <<"global", "tlocal", "fblock">>, {"global", "tlocal", "fblock"}, FALSE),
  S(206, <<"global", "tlocal", "fblock", "nested">>, {"global", "tlocal", "fblock", "nested"}, FALSE),
  S(207, <<"global", "tlocal">>, {"global", "tlocal"}, FALSE),                         \* template-local variable AFTER the function: its typedefs are out of scope again
  S(208, <<"global", "tlocal", "fblock">>, {"global", "tlocal"}, FALSE),               \* inside a second function that declares no type
  S(209, <<"global">>, {"global"}, FALSE) }                                            \* in another template
TUniverse == SUBSET TLevels
TAgree == \A D \in TUniverse, s \in TSites : ImplBind(D, s) = LexBind(D, s)
TCases == {[d |-> D, sites |-> {[id |-> s.id, bind |-> LexBind(D, s)] : s \in TSites}] : D \in TUniverse}

(* ---------------------------------------------------------------- gantt charts (in the system block)
   gantt { G1(n : ..) : for (n : ..) <140> -> <141>, <142> -> 1;  G2 : <143> -> 1; }
   a line may have select-like parameters (gline), an entry may bind variables of its own with `for` (gentry); the entry's binders
   are in scope in its two expressions only, the line's parameters in every entry of the line.                       *)
GLevels == {"global", "gline", "gentry"}
GSites == {
  S(140, <<"global", "gline", "gentry">>, {"global", "gline", "gentry"}, FALSE),     \* predicate of the entry that has the binder
  S(141, <<"global", "gline", "gentry">>, {"global", "gline", "gentry"}, FALSE),     \* its mapping expression
  S(142, <<"global", "gline">>, {"global", "gline"}, FALSE),                         \* predicate of the NEXT entry of the same line: the first entry's binder is gone
  S(143, <<"global">>, {"global"}, FALSE) }                                          \* an entry of the NEXT line: that line's parameter is gone too
GUniverse == SUBSET GLevels
GAgree == \A D \in GUniverse, s \in GSites : ImplBind(D, s) = LexBind(D, s)
GCases == {[d |-> D, sites |-> {[id |-> s.id, bind |-> LexBind(D, s)] : s \in GSites}] : D \in GUniverse}
ASSUME \A cse \in GCases : PrintT(<<"EMIT", ToJson([gd |-> SetToSeq(cse.d), gagree |-> GAgree, sites |-> SetToSeq(cse.sites)])>>)

(* ---------------------------------------------------------------- process-qualified names: P.x with P's arguments substituted
   Template T(a, b) declares va : int[0,a], vb : int[0,b]. An instance maps parameters to arguments; an argument is a
   constant or a parameter of the instance itself (forwarding through partial instantiation). Value(m, p) follows the
   mapping until a constant is reached (the statement: "with P's arguments substituted").
   OnePass(m, order, p): ExpressionBuilder::expr_dot substitutes every mapping entry ONCE, in a fixed order. `order` is the
   order the repaired code uses: the template's parameters first, then the parameters forwarded into them (reverse of the
   instance's parameter list). OrderSensitive shows why the order matters: in the opposite order a forwarded parameter is
   left unsubstituted - before fix 5690e40 the order was that of a std::map keyed by symbol, i.e. arbitrary. *)
Const(v) == [k |-> "c", v |-> v, p |-> ""]
Par(p) == [k |-> "p", v |-> 0, p |-> p]
Chains == [ D  |-> [order |-> <<"a", "b">>, m |-> [a |-> Const(3), b |-> Const(4)]],
            R  |-> [order |-> <<"a", "b", "c">>, m |-> [a |-> Const(1), b |-> Par("c"), c |-> Const(2)]],
            R2 |-> [order |-> <<"a", "b", "c", "e">>, m |-> [a |-> Const(1), b |-> Par("c"), c |-> Par("e"), e |-> Const(5)]],
            R4 |-> [order |-> <<"a", "b", "g", "h", "k">>, m |-> [a |-> Par("h"), b |-> Par("g"), g |-> Par("k"), h |-> Const(6), k |-> Const(8)]] ]
RECURSIVE Value(_, _)
Value(m, e) == IF e.k = "c" THEN e.v ELSE Value(m, m[e.p])
RECURSIVE Pass(_, _, _, _)
Pass(m, order, i, e) == IF i > Len(order) THEN e
                        ELSE Pass(m, order, i + 1, IF e.k = "p" /\ e.p = order[i] THEN m[order[i]] ELSE e)
OnePass(ch, p) == Pass(ch.m, ch.order, 1, Par(p))
SubstAgree == \A n \in DOMAIN Chains : \A p \in {"a", "b"} : LET r == OnePass(Chains[n], p) IN r.k = "c" /\ r.v = Value(Chains[n].m, Par(p))
Rev(s) == [i \in 1..Len(s) |-> s[Len(s) + 1 - i]]
OrderSensitive == \E n \in DOMAIN Chains : \E p \in {"a", "b"} : Pass(Chains[n].m, Rev(Chains[n].order), 1, Par(p)).k # "c"
SubstCases == {[proc |-> n, va |-> Value(Chains[n].m, Par("a")), vb |-> Value(Chains[n].m, Par("b"))] : n \in DOMAIN Chains}
ASSUME PrintT(<<"EMIT", ToJson([tagree |-> TAgree, substagree |-> SubstAgree, ordersensitive |-> OrderSensitive])>>)
ASSUME \A cse \in TCases : PrintT(<<"EMIT", ToJson([td |-> SetToSeq(cse.d), sites |-> SetToSeq(cse.sites)])>>)
ASSUME \A cse \in SubstCases : PrintT(<<"EMIT", ToJson(cse)>>)
VARIABLE dummy
Init == dummy = 0
Next == UNCHANGED dummy
=============================================================================
