------------------------------- MODULE LRBase -------------------------------
(* semantic values and tokens shared by LR.tla (the automaton) and Lang.tla (the language oracle) *)
V(n, s) == [n |-> n, s |-> s]                \* a semantic value: number part, text part
NoVal == V(0, "")
Tok(t, n, s) == [t |-> t, n |-> n, s |-> s]
NoTok == Tok("", 0, "")
EndTok == Tok("$end", 0, "")
=============================================================================
