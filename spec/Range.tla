------------------------------- MODULE Range -------------------------------
(* range_t<T> of include/utap/range.h as a state machine (property C18).

   State: the SET of members `r` (the semantics the property talks about) next to the pair
   (lo,hi) the header maintains with its own formulas (the implementation-shaped part).
   Every mutating member function is one action; it updates `r` by the set-theoretic definition
   from the property statement and (lo,hi) by the transcription of the header's formula.
   Invariant Agree: Members(lo,hi) = r.  Queries are actions too (they set only the ghost `last`),
   so every transition of the state graph is one concrete call with its expected outcome; the
   state graph is exported (EMIT lines) and executed call by call on the real range_t.

   Operands are non-empty intervals over D = DLo..DHi (the property quantifies over non-empty
   operands); a receiver that became empty only answers queries.                              *)
EXTENDS Integers, FiniteSets, Sequences, TLC, Json

CONSTANTS DHalf, MaxLen, EmitOn

D == (0 - DHalf)..DHalf
EmitDepth == IF EmitOn THEN MaxLen ELSE 0 - 1
Intervals == {<<a, b>> : a \in D, b \in D} \ {<<a, b>> \in D \X D : a > b}

VARIABLES r, lo, hi, n, last
vars == <<r, lo, hi, n, last>>

Min2(a, b) == IF a < b THEN a ELSE b
Max2(a, b) == IF a > b THEN a ELSE b
SetMin(S) == CHOOSE x \in S : \A y \in S : x <= y
SetMax(S) == CHOOSE x \in S : \A y \in S : x >= y
Hull(S) == IF S = {} THEN {} ELSE SetMin(S)..SetMax(S)
Members(a, b) == a..b                       \* empty when a > b, as range_t::empty()
Pts(o) == o[1]..o[2]

---------------------------------------------------------------------------
(* Semantics, from the property statement *)
SemGt(S, e)  == {x \in S : x > e}
SemGeq(S, e) == {x \in S : x >= e}
SemLt(S, e)  == {x \in S : x < e}
SemLeq(S, e) == {x \in S : x <= e}
SemMeet(S, O) == S \cap O
SemJoin(S, O) == Hull(S \cup O)
SemPlus(S, O)  == Hull({x + y : x \in S, y \in O})
SemMinus(S, O) == Hull({x - y : x \in S, y \in O})
SemTimes(S, O) == Hull({x * y : x \in S, y \in O})

(* Implementation-shaped: the header's formulas on (start, finish) *)
ImplGt(a, b, e)  == <<Max2(e + 1, a), b>>            \* start = max(next_value(lower), start)
ImplGeq(a, b, e) == <<Max2(a, e), b>>
ImplLt(a, b, e)  == <<a, Min2(b, e - 1)>>            \* finish = min(finish, prev_value(upper))
ImplLeq(a, b, e) == <<a, Min2(b, e)>>
ImplMeet(a, b, c, d) == <<Max2(a, c), Min2(b, d)>>   \* geq(o.start).leq(o.finish)
ImplJoin(a, b, c, d) == <<Min2(a, c), Max2(b, d)>>   \* lower(o.start).raise(o.finish)
ImplPlus(a, b, c, d)  == <<a + c, b + d>>
ImplMinus(a, b, c, d) == <<a - d, b - c>>
ImplTimes(a, b, c, d) ==
    LET t1 == a * c  t2 == a * d  t3 == b * c  t4 == b * d
    IN <<Min2(Min2(t1, t2), Min2(t3, t4)), Max2(Max2(t1, t2), Max2(t3, t4))>>
ImplTimesE(a, b, e) == IF b * e < a * e THEN <<b * e, a * e>> ELSE <<a * e, b * e>>

(* queries *)
ImplContains(a, b, e) == a <= e /\ e <= b
ImplIntersects(a, b, c, d) == IF a <= c THEN c <= b ELSE a <= d
ImplEmpty(a, b) == a > b
ImplEq(a, b, c, d) == IF ImplEmpty(a, b) \/ ImplEmpty(c, d) THEN ImplEmpty(a, b) = ImplEmpty(c, d)
                      ELSE b = d /\ a = c
ImplLess(a, b, c, d) == b < c            \* operator< : finish < o.start
ImplGreater(a, b, c, d) == d < a         \* o < *this
ImplSize(a, b) == IF ImplEmpty(a, b) THEN 0 ELSE 1 + (b - a)

SemContains(S, e) == e \in S
SemIntersects(S, O) == S \cap O # {}
SemEq(S, O) == S = O
SemLess(S, O) == \A x \in S, y \in O : x < y
SemGreater(S, O) == \A x \in S, y \in O : x > y
SemSize(S) == Cardinality(S)

---------------------------------------------------------------------------
NoLast == [kind |-> "init"]
Init == /\ \E o \in Intervals : r = Pts(o) /\ lo = o[1] /\ hi = o[2]
        /\ n = 0
        /\ last = NoLast

Live == r # {} /\ n < MaxLen /\ last.kind # "query"

Rec(op, arg, p) == [kind |-> "mut", op |-> op, pre |-> <<lo, hi>>, arg |-> arg,
                    post |-> IF p = {} THEN <<>> ELSE <<SetMin(p), SetMax(p)>>]

MutE(op, e, S, I) == /\ r' = S /\ lo' = I[1] /\ hi' = I[2] /\ n' = n + 1
                     /\ last' = Rec(op, <<e>>, S)
MutR(op, o, S, I) == /\ r' = S /\ lo' = I[1] /\ hi' = I[2] /\ n' = n + 1
                     /\ last' = Rec(op, o, S)

Gt  == Live /\ \E e \in D : MutE("gt", e, SemGt(r, e), ImplGt(lo, hi, e))
Geq == Live /\ \E e \in D : MutE("geq", e, SemGeq(r, e), ImplGeq(lo, hi, e))
Lt  == Live /\ \E e \in D : MutE("lt", e, SemLt(r, e), ImplLt(lo, hi, e))
Leq == Live /\ \E e \in D : MutE("leq", e, SemLeq(r, e), ImplLeq(lo, hi, e))
MeetE == Live /\ \E e \in D : MutE("meet", e, SemMeet(r, {e}), ImplMeet(lo, hi, e, e))
JoinE == Live /\ \E e \in D : MutE("join", e, SemJoin(r, {e}), ImplJoin(lo, hi, e, e))
PlusE == Live /\ \E e \in D : MutE("plus", e, SemPlus(r, {e}), ImplPlus(lo, hi, e, e))
MinusE == Live /\ \E e \in D : MutE("minus", e, SemMinus(r, {e}), ImplMinus(lo, hi, e, e))
TimesE == Live /\ \E e \in D : MutE("times", e, SemTimes(r, {e}), ImplTimesE(lo, hi, e))
Meet == Live /\ \E o \in Intervals : MutR("meet", o, SemMeet(r, Pts(o)), ImplMeet(lo, hi, o[1], o[2]))
Join == Live /\ \E o \in Intervals : MutR("join", o, SemJoin(r, Pts(o)), ImplJoin(lo, hi, o[1], o[2]))
Plus == Live /\ \E o \in Intervals : MutR("plus", o, SemPlus(r, Pts(o)), ImplPlus(lo, hi, o[1], o[2]))
Minus == Live /\ \E o \in Intervals : MutR("minus", o, SemMinus(r, Pts(o)), ImplMinus(lo, hi, o[1], o[2]))
Times == Live /\ \E o \in Intervals : MutR("times", o, SemTimes(r, Pts(o)), ImplTimes(lo, hi, o[1], o[2]))

(* queries: leave the range alone, record call + the answer the SEMANTICS gives *)
QRec(op, arg, res) == [kind |-> "query", op |-> op, pre |-> <<lo, hi>>, arg |-> arg, res |-> res]
CanQuery == last.kind # "query" /\ n <= EmitDepth
Query ==
    /\ CanQuery
    /\ UNCHANGED <<r, lo, hi, n>>
    /\ \/ \E e \in D : last' = QRec("contains", <<e>>, SemContains(r, e))
       \/ last' = QRec("size", <<>>, SemSize(r))
       \/ last' = QRec("empty", <<>>, r = {})
       \/ /\ r # {}     \* binary comparisons: both operands non-empty
          /\ \E o \in Intervals :
              \/ last' = QRec("intersects", o, SemIntersects(r, Pts(o)))
              \/ last' = QRec("eq", o, SemEq(r, Pts(o)))
              \/ last' = QRec("less", o, SemLess(r, Pts(o)))
              \/ last' = QRec("greater", o, SemGreater(r, Pts(o)))

Next == Gt \/ Geq \/ Lt \/ Leq \/ MeetE \/ JoinE \/ PlusE \/ MinusE \/ TimesE
        \/ Meet \/ Join \/ Plus \/ Minus \/ Times \/ Query
Spec == Init /\ [][Next]_vars

---------------------------------------------------------------------------
(* C18 at the level of the design *)
Agree == Members(lo, hi) = r

QueriesAgree ==
    /\ \A e \in D : ImplContains(lo, hi, e) = SemContains(r, e)
    /\ ImplSize(lo, hi) = SemSize(r)
    /\ ImplEmpty(lo, hi) = (r = {})
    /\ r # {} => \A o \in Intervals :
          /\ ImplIntersects(lo, hi, o[1], o[2]) = SemIntersects(r, Pts(o))
          /\ ImplEq(lo, hi, o[1], o[2]) = SemEq(r, Pts(o))
          /\ ImplLess(lo, hi, o[1], o[2]) = SemLess(r, Pts(o))
          /\ ImplGreater(lo, hi, o[1], o[2]) = SemGreater(r, Pts(o))

(* export: one line per distinct transition (state graphs at depth <= EmitDepth) *)
Emit == (last.kind # "init" /\ n <= EmitDepth) => PrintT(<<"EMIT", ToJson(last)>>)

ViewMC == <<r, lo, hi, n>>
=============================================================================
