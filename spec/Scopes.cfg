INIT Init
NEXT Next
