INIT Init
NEXT Next
INVARIANTS Emit
CHECK_DEADLOCK FALSE
