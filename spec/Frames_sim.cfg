CONSTANTS
  MaxOps = 7
  Closed = FALSE
  MaxSyms = 4
SPECIFICATION Spec
INVARIANTS LatestWins Innermost EmitDone
CHECK_DEADLOCK FALSE
