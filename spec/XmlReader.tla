----------------------------- MODULE XmlReader -----------------------------
(* Driver of XmlReaderOps.tla (the transcribed reader): evaluates the reader on a batch of abstract documents and exports the runs
   for the conformance check against the real XMLReader (lib/readerconf.py). *)
EXTENDS XmlReaderOps, Json, IOUtils
Docs == ndJsonDeserialize(IOEnv.XML_DOCS)        \* one document per line: {"id": .., "events": [...]}
Run(doc) == LET r == Project(doc) IN [id |-> doc.id, outcome |-> Outcome(r), terminates |-> Terminates(r), allowed |-> OutcomeAllowed(r), out |-> r.out]
AllTerminate == \A q \in 1..Len(Docs) : Terminates(Project(Docs[q]))
ASSUME \A q \in 1..Len(Docs) : PrintT(<<"EMIT", ToJson(Run(Docs[q]))>>)
VARIABLE dummy
Init == dummy = 0
Next == UNCHANGED dummy
=============================================================================
