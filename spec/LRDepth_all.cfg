INIT Init
NEXT Next
INVARIANTS Bounded EmitTerminalAll
VIEW ViewNoHist
CHECK_DEADLOCK FALSE
