--------------------------------- MODULE LR ---------------------------------
(* The bison LALR(1) automaton of the working tree's parser.y, as yyparse() runs it.

   Tables (B1 extraction, extract/lr_tables.py): states with shift/goto/reduce/default/accept entries, rules with
   their semantic-action statements (CALL(..) callbacks, $$ assignments, the `types` counter, rootTransId).
   LRStep is one iteration of the skeleton's loop, including
     - default reductions taken WITHOUT consulting the lookahead when the state's only action is its default,
     - yyerrstatus (3 after an error; errors are reported only when it is 0; decremented by each shift),
     - error recovery: pop states until one shifts `error`; at yyerrstatus = 3 the offending lookahead is discarded
       (abort if it is $end),
   so that mid-rule actions that already ran stay run and actions of abandoned rules never run - the mechanism behind
   C16 / C01. The emitted callback sequence `out` is what the ParserBuilder receives.                              *)
EXTENDS Integers, Sequences, FiniteSets, TLC, Json, IOUtils, LRBase

Tables == JsonDeserialize(IOEnv.LR_TABLES)
StateTab == Tables.states        \* JSON arrays are 1-based sequences: state s is StateTab[s + 1]
RuleTab == Tables.rules          \* rule r is RuleTab[r + 1]
St(s) == StateTab[s + 1]
Ru(r) == RuleTab[r + 1]


Has(rec, f) == f \in DOMAIN rec

IsDigits(s) == s \in {"0", "1", "2", "3", "4", "5", "6", "7", "8", "9", "10", "-1"}
NumOf(s) == CASE s = "0" -> 0 [] s = "1" -> 1 [] s = "2" -> 2 [] s = "3" -> 3 [] s = "4" -> 4 [] s = "5" -> 5
              [] s = "6" -> 6 [] s = "7" -> 7 [] s = "8" -> 8 [] s = "9" -> 9 [] s = "10" -> 10 [] s = "-1" -> 0 - 1

(* configuration *)
InitCfg(startTok, input) ==
    [stk |-> <<0>>, vals |-> <<NoVal>>, la |-> Tok(startTok, 0, ""), errst |-> 0, inp |-> input, out |-> <<>>,
     types |-> 0, root |-> "", mode |-> "run", nerr |-> 0, steps |-> 0]

Top(c) == c.stk[Len(c.stk)]

(* value of an action argument; vals indexed relative to the top of the value stack *)
ArgVal(c, a) ==
    CASE a.k = "val" -> c.vals[Len(c.vals) + a.i]
      [] a.k = "c" -> IF IsDigits(a.v) THEN V(NumOf(a.v), "") ELSE V(0, a.v)
      [] a.k = "root" -> V(0, c.root)
      [] a.k \in {"types", "typesdec"} -> V(c.types, "")

(* run the statements of a semantic action in order; returns [c, yyval] *)
RECURSIVE RunStmts(_, _, _, _)
RunStmts(c, stmts, i, yyval) ==
    IF i > Len(stmts) THEN [c |-> c, yyval |-> yyval]
    ELSE LET st == stmts[i] IN
         CASE st.op = "call" ->
                LET args == [k \in 1..Len(st.args) |-> ArgVal(c, st.args[k])]
                    dec == Cardinality({k \in 1..Len(st.args) : st.args[k].k = "typesdec"})
                    c2 == [c EXCEPT !.out = Append(@, [cb |-> st.cb, a |-> args]), !.types = @ - dec]
                IN RunStmts(c2, stmts, i + 1, yyval)
           [] st.op = "set" -> RunStmts(c, stmts, i + 1, ArgVal(c, st.val))
           [] st.op = "setplus" -> RunStmts(c, stmts, i + 1, V(ArgVal(c, st.a).n + ArgVal(c, st.b).n, ""))
           [] st.op = "types0" -> RunStmts([c EXCEPT !.types = 0], stmts, i + 1, yyval)
           [] st.op = "typesinc" -> RunStmts([c EXCEPT !.types = @ + 1], stmts, i + 1, yyval)
           [] st.op = "setroot" -> RunStmts([c EXCEPT !.root = ArgVal(c, st.val).s], stmts, i + 1, yyval)
           [] OTHER -> RunStmts(c, stmts, i + 1, yyval)         \* "opaque": a statement the extractor found to touch neither the builder nor the semantic values

Reduce(c, r) ==
    LET rule == Ru(r)
        n == rule.len
        yyval0 == IF n > 0 THEN c.vals[Len(c.vals) - n + 1] ELSE NoVal       \* bison: yyval = yyvsp[1-yylen]
        res == RunStmts(c, rule.stmts, 1, yyval0)
        c1 == res.c
        stk1 == SubSeq(c1.stk, 1, Len(c1.stk) - n)
        vals1 == SubSeq(c1.vals, 1, Len(c1.vals) - n)
        s0 == stk1[Len(stk1)]
        target == St(s0).go[rule.lhs]
    IN [c1 EXCEPT !.stk = Append(stk1, target), !.vals = Append(vals1, res.yyval)]

Shift(c, target) ==
    [c EXCEPT !.stk = Append(@, target), !.vals = Append(@, V(c.la.n, c.la.s)), !.la = NoTok,
              !.errst = IF @ > 0 THEN @ - 1 ELSE 0]

(* yyerrlab1: pop until a state shifts `error` *)
RECURSIVE PopToError(_)
PopToError(c) ==
    LET s == St(Top(c)) IN
    IF Has(s.sh, "error")
    THEN [c EXCEPT !.stk = Append(@, s.sh["error"]), !.vals = Append(@, NoVal)]
    ELSE IF Len(c.stk) = 1 THEN [c EXCEPT !.mode = "abort"]
    ELSE PopToError([c EXCEPT !.stk = SubSeq(@, 1, Len(@) - 1), !.vals = SubSeq(@, 1, Len(@) - 1)])

SyntaxError(c) ==
    LET c1 == IF c.errst = 0
              THEN [c EXCEPT !.nerr = @ + 1, !.out = Append(@, [cb |-> "handle_error", a |-> <<V(0, "$syntax_error")>>])]
              ELSE c
    IN IF c1.errst = 3 /\ c1.la.t = "$end" THEN [c1 EXCEPT !.mode = "abort"]
       ELSE LET c2 == IF c1.errst = 3 /\ c1.la # NoTok THEN [c1 EXCEPT !.la = NoTok] ELSE c1     \* discard the lookahead
            IN PopToError([c2 EXCEPT !.errst = 3])

(* one iteration of yyparse's loop. Precondition: if the state consults the lookahead, c.la # NoTok *)
NeedsLookahead(c) == c.mode = "run" /\ St(Top(c)).la /\ c.la = NoTok
LRStep(c0) ==
    LET c == [c0 EXCEPT !.steps = @ + 1]
        s == St(Top(c)) IN
    IF s.acc THEN [c EXCEPT !.mode = "accept"]
    ELSE IF ~s.la THEN (IF s.def >= 0 THEN Reduce(c, s.def) ELSE SyntaxError(c))
    ELSE LET t == c.la.t IN
         IF Has(s.sh, t) THEN Shift(c, s.sh[t])
         ELSE IF Has(s.rd, t) THEN Reduce(c, s.rd[t])
         ELSE IF s.def >= 0 THEN Reduce(c, s.def)
         ELSE SyntaxError(c)

(* feed the next token of a fixed input ($end after the last one) *)
Feed(c) == IF NeedsLookahead(c)
           THEN IF c.inp = <<>> THEN [c EXCEPT !.la = EndTok] ELSE [c EXCEPT !.la = Head(c.inp), !.inp = Tail(c.inp)]
           ELSE c

RECURSIVE RunLR(_, _)
RunLR(c, fuel) == IF c.mode # "run" \/ fuel = 0 THEN c ELSE RunLR(LRStep(Feed(c)), fuel - 1)

Parse(startTok, input) == RunLR(InitCfg(startTok, input), 50 * (Len(input) + 4))

(* which production the next step reduces by (-1: a shift, an error or accept) - the decision LRStep takes, without the step *)
StepRule(c0) ==
    LET c == Feed(c0)
        s == St(Top(c)) IN
    IF c.mode # "run" \/ s.acc THEN -1
    ELSE IF ~s.la THEN (IF s.def >= 0 THEN s.def ELSE -1)
    ELSE LET t == c.la.t IN
         IF Has(s.sh, t) THEN -1 ELSE IF Has(s.rd, t) THEN s.rd[t] ELSE IF s.def >= 0 THEN s.def ELSE -1
RECURSIVE RunLRRules(_, _, _)
RunLRRules(c, used, fuel) == IF c.mode # "run" \/ fuel = 0 THEN [c |-> c, used |-> used]
                             ELSE LET r == StepRule(c) IN RunLRRules(LRStep(Feed(c)), IF r >= 0 THEN used \cup {r} ELSE used, fuel - 1)
(* the parse together with the set of productions it reduced by: production coverage of an input *)
ParseRules(startTok, input) == RunLRRules(InitCfg(startTok, input), {}, 50 * (Len(input) + 4))
=============================================================================
