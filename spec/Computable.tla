----------------------------- MODULE Computable -----------------------------
(* Property C13: sizes, bounds, initialisers and value arguments must be compile-time computable.

   A dependence CHAIN is declared link by link (the order in which the type checker meets the declarations):
     leaf      what the chain finally reads: literal / const / binder / mutable variable / mutable array element
     links     "cinit"  const int cK = <prev>;            (initialiser dependence)
               "fun"    int fK() { return <prev>; }       (function body reads; function_t::depends)
               "flocal" int fK() { int t = <prev>; return t; }      (also array / struct locals: flocalarr, flocalrec)
               "fcall"  int fK() { return idf(<prev>); }  (passes through a by-value call)
               reads at other positions of a function body - every one is a read that the value may depend on:
               "flhsidx"   int fK() { int t[2] = {0, 0}; t[<prev> % 2] = 1; return t[0]; }   subscript of an assignment target
               "fcompound" int fK() { int t = 0; t += <prev>; return t; }                      operand of a compound assignment
               "fcond"     int fK() { if (<prev> > 0) return 1; return 0; }                   condition
               "floop"     int fK() { int t = 0; for (t = 0; t < <prev>; t++) { } return t; } loop bound
               "fwhile"    int fK() { int t = 0; while (t < <prev>) { t++; } return t; }
               "fthenelse" int fK() { int t = 0; if (t == 0) { t = <prev>; } else { t = 1; } return t; }   then-branch of an if that has an else
   and then used in a compile-time CONTEXT.
   State per link: sem  = TRUE iff its value depends only on literals, constants, binders (least fixpoint);
                   dep  = the implementation's view: the set of non-function symbols collect_possible_reads returns for
                          a use of this link ({"m"} mutable, {"c"} a const symbol, {} nothing), and whether the link's own
                          declaration already produced a diagnostic (err).
   Model verdict: Rejected == some declaration or the context reported an error.
   Property: ~sem => Rejected, and sem => ~Rejected (literal/const/binder chains are accepted).

   A second machine covers template parameters: a template whose local array size uses its parameter N (so N is
   `restricted`), instantiated through a chain of (partial) instantiations; the free process parameter must be
   rejected, the fully bound one accepted.                                                                     *)
EXTENDS Integers, Sequences, FiniteSets, TLC, Json

CONSTANTS MaxLinks

Leaves == {"lit", "const", "binder", "mut", "mutelem", "constelem"}
FunLinks == {"fun", "flocal", "flocalarr", "flocalrec", "fcall", "flhsidx", "fcompound", "fcond", "floop", "fwhile", "fthenelse"}
Links == {"cinit", "tinit"} \cup FunLinks     \* tinit: typedef-free; const initialised inside the template declaration
Contexts == {"arrsize_g", "arrsize_t", "arrsize_f", "range_g", "range_t", "scalar_g", "init_g", "init_t", "init_meta",
             "fparam_size_g", "fparam_refsize_g", "fparam_range_g", "fparam_size_t", "fparam_range_t",       \* array sizes and range bounds in the types of function parameters
             "init_g_tdarray", "init_g_double", "init_g_bool", "init_g_array", "init_g_record", "init_t_double", "init_t_bool",      \* the initialiser rule does not depend on the variable's type
             "valarg", "crefarg", "select_dom", "iter_dom", "quant_dom"}

VARIABLES leaf, chain, sem, dep, err
vars == <<leaf, chain, sem, dep, err>>

LeafSem(l) == l \in {"lit", "const", "binder", "constelem"}
(* collect_possible_reads of the leaf expression; binders are registered in compileTimeComputableValues when the
   quantifier is checked, consts by CompileTimeComputableValues::visitVariable *)
LeafDep(l) == CASE l = "lit" -> {} [] l \in {"const", "constelem"} -> {"c"} [] l = "binder" -> {"k"} [] OTHER -> {"m"}
CTC(d) == "m" \notin d                       \* isCompileTimeComputable: every read symbol is a function or registered

Init == /\ leaf \in Leaves /\ chain = <<>> /\ sem = <<>> /\ dep = <<>> /\ err = FALSE

Cur == IF chain = <<>> THEN LeafDep(leaf) ELSE dep[Len(chain)]
CurSem == IF chain = <<>> THEN LeafSem(leaf) ELSE sem[Len(chain)]

AddLink ==
    /\ Len(chain) < MaxLinks
    /\ \E k \in Links :
        /\ ~(leaf = "binder")                  \* a binder cannot be named outside its quantifier: only used with an empty chain
        /\ chain' = Append(chain, k)
        /\ sem' = Append(sem, CurSem)
        /\ CASE k \in {"cinit", "tinit"} ->
                  \* visitVariable: initialiser must be compile-time computable, else a diagnostic HERE; afterwards the
                  \* const symbol itself is always in compileTimeComputableValues
                  /\ err' = (err \/ ~CTC(Cur))
                  /\ dep' = Append(dep, {"c"})
             [] k \in FunLinks ->
                  \* function_t::depends = reads of the body minus locals/parameters; a use of the function reads depends
                  /\ err' = err
                  /\ dep' = Append(dep, Cur)
    /\ UNCHANGED leaf

Next == AddLink
Spec == Init /\ [][Next]_vars

(* using the newest link (or the leaf) in a compile-time context *)
CtxRejects == ~CTC(Cur)
Rejected == err \/ CtxRejects
Sound == ~CurSem => Rejected
Complete == CurSem => ~Rejected

Emit == PrintT(<<"EMIT", ToJson([leaf |-> leaf, chain |-> chain, sem |-> CurSem, rejected |-> Rejected])>>)

---------------------------------------------------------------------------
(* template parameters and (partial) instantiation chains *)
(* a chain TA <- P1 <- P2: each Pi passes its own fresh parameter through (passes = 0..2); the end is what the outermost
   parameter is finally bound to: "free" (listed in the system line unbound), a literal, a const, a mutable global *)
InstEnds == {"free", "lit", "const", "mut"}
(* hops: the number of template-local const initialisers between the parameter and the array size
   (const int h1 = N; const int h2 = h1 + 1; int a[h2];): StatementBuilder::collectDependencies closes the set of symbols an
   array size depends on over initialisers (work list), template_t::restricted holds the parameters among them *)
InstAccepted(passes, end, use, hops) ==
    IF use = "arrsize" THEN end \in {"lit", "const"}      \* a free process parameter is never accepted inside an array size
    ELSE end \in {"free", "lit", "const"}                  \* plain use (a guard): only a non-computable argument is rejected
(* dim: how the parameter enters the array declaration: as its size `int a[h]`, as the upper or the lower bound of an index type
   `int a[int[0,h]]`, `int a[int[h,5]]` *)
(* lead: the number of ordinary parameters declared BEFORE the one that sizes the array (the instantiations bind them to constants):
   the propagation of `restricted` through instantiation_end walks the parameter list *)
(* place: where in the template the array is declared: among its declarations, in the body of one of its functions, in a nested block of one *)
InstCases == {[passes |-> n, end |-> e, use |-> u, hops |-> h, dim |-> d, lead |-> l, place |-> "templ", accepted |-> InstAccepted(n, e, u, h)] :
                n \in 0..2, e \in InstEnds, u \in {"arrsize", "guard"}, h \in 0..3, d \in {"size", "upper", "lower"}, l \in 0..1}
             \cup {[passes |-> n, end |-> e, use |-> "arrsize", hops |-> h, dim |-> d, lead |-> 0, place |-> pl, accepted |-> InstAccepted(n, e, "arrsize", h)] :
                n \in 0..1, e \in InstEnds, h \in 0..1, d \in {"size", "upper"}, pl \in {"func", "block"}}
EmitInst == PrintT(<<"EMIT", ToJson([inst |-> InstCases])>>)
=============================================================================
