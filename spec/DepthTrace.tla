----------------------------- MODULE DepthTrace -----------------------------
(* B3 for BuilderDepth.tla: traces recorded from real parses (harness/record.cpp: every ParserBuilder callback with its
   arguments and, after it returned, the depths of the builder's expression stack, type stack and frame stack) are checked
   against the stack effects the specification assigns to each callback: for every event that did not throw,
       depth_after - depth_before = Eff(callback, arguments)     and     depth_before >= what the callback needs.
   LRDepth.tla (C16, C01) draws its Residue0 / NoUnderflow candidates from this table, so the table itself has to be bound to
   the code. One line of the trace file = one parse: [id, ev: <<[cb, a, f, t, fr, threw]>>].                          *)
EXTENDS BuilderDepth, TLC, Json, IOUtils, FiniteSets

Traces == ndJsonDeserialize(IOEnv.TRACES)
(* the recorder logs the depths on entry of the callback (f0, t0, fr0) and after it returned (f, t, fr): callbacks that call other
   callbacks (type_array_of_size -> expr_nat, expr_binary, type_bounded_int, type_array_of_type) are judged by their own net effect *)
Before(tr, i) == [f |-> tr.ev[i].f0, t |-> tr.ev[i].t0, fr |-> tr.ev[i].fr0]
Conform(tr, i) == LET e == tr.ev[i]
                      b == Before(tr, i)
                      x == Eff(e.cb, e.a) IN
                  e.threw \/ ~Known(e.cb) \/ (e.f - b.f = x.df /\ e.t - b.t = x.dt /\ e.fr - b.fr = x.dfr /\ b.f >= x.nf /\ b.t >= x.nt)
Bad == {<<q, i>> \in UNION {{<<q, i>> : i \in 1..Len(Traces[q].ev)} : q \in 1..Len(Traces)} : ~Conform(Traces[q], i)}
UnknownCbs == {Traces[q].ev[i].cb : <<q, i>> \in {<<q, i>> \in UNION {{<<q, i>> : i \in 1..Len(Traces[q].ev)} : q \in 1..Len(Traces)} : ~Known(Traces[q].ev[i].cb)}}
Events == LET F[q \in 0..Len(Traces)] == IF q = 0 THEN 0 ELSE F[q - 1] + Len(Traces[q].ev) IN F[Len(Traces)]
ASSUME PrintT(<<"EMIT", ToJson([traces |-> Len(Traces), events |-> Events, unknown |-> UnknownCbs,
                                bad |-> {[id |-> Traces[p[1]].id, i |-> p[2], cb |-> Traces[p[1]].ev[p[2]].cb, a |-> Traces[p[1]].ev[p[2]].a,
                                          before |-> Before(Traces[p[1]], p[2]), after |-> [f |-> Traces[p[1]].ev[p[2]].f, t |-> Traces[p[1]].ev[p[2]].t, fr |-> Traces[p[1]].ev[p[2]].fr]] : p \in Bad}])>>)
VARIABLE dummy
Init == dummy = 0
Next == UNCHANGED dummy
=============================================================================
