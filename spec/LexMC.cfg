INIT Init
NEXT Next
INVARIANTS Total Offsets CommentOpaque LineOpaque LayoutFree NamesAreNames EmitScan
CHECK_DEADLOCK FALSE
