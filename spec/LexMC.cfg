INIT Init
NEXT Next
INVARIANTS Total Offsets CommentOpaque LineOpaque LayoutFree EmitScan
CHECK_DEADLOCK FALSE
