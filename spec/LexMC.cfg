INIT Init
NEXT Next
INVARIANTS Total LeavesInitial Offsets CommentOpaque LineOpaque LayoutFree NamesAreNames EmitScan
CHECK_DEADLOCK FALSE
