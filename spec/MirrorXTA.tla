------------------------------ MODULE MirrorXTA ------------------------------
(* C05 / C04 at the level of the design, for the textual format: the .xta file that denotes a model M of the DocGen universe,
   as the token string the lexer makes of it (lib/xtalex.py, from the tables extracted from lexer.l / keywords.cpp), is parsed
   by LR.tla - the bison automaton extracted from the working tree's parser.y, entry point T_NEW - and the callbacks it emits
   are fed to the transcribed builder (Builder.tla). The result must be

     Accepted     yyparse accepts, reports nothing, and the callbacks leave the builder's expression / type / frame stacks
                  where they were (BuilderDepth.tla), and the builder itself reports nothing;
     MirrorsM     the builder ends with Expected(M)'s template graphs (locations in order under their names, branchpoints,
                  initial location, edges with resolved endpoints), instances and processes - the same mirror the XML path
                  is held to in Mirror.tla, so that at the level of the three specifications the input format is not
                  observable (C05).

   The documents come from a file (IOEnv.XTA_DOCS, one JSON object per line: id, toks, exp = Expected(M) as DocGen emitted it);
   one result record per document is emitted; the emitted callback names are also compared with those recorded from the real
   parser on the same text (checks/c05.py), which binds the scanner and the automaton to the code.                        *)
EXTENDS Integers, Sequences, FiniteSets, TLC, Json, IOUtils, SequencesExt
L == INSTANCE LR
B == INSTANCE Builder
D == INSTANCE BuilderDepth
X == INSTANCE Lex          \* the scanner: flex semantics over the rules extracted from lexer.l

Docs == ndJsonDeserialize(IOEnv.XTA_DOCS)

Ev(cb, a, b, n) == [cb |-> cb, a |-> a, b |-> b, n |-> n]
FromGrammar(o) ==
    CASE o.cb = "decl_parameter" -> <<Ev("decl_parameter", o.a[1].s, "", 0)>>
      [] o.cb = "decl_func_begin" -> <<Ev("decl_func_begin", o.a[1].s, "", 0)>>
      [] o.cb = "decl_func_end" -> <<Ev("decl_func_end", "", "", 0)>>
      [] o.cb = "proc_begin" -> <<Ev("proc_begin", o.a[1].s, "", 0)>>
      [] o.cb = "proc_end" -> <<Ev("proc_end", "", "", 0)>>
      [] o.cb = "proc_location" -> <<Ev("proc_location", o.a[1].s, "", 0)>>
      [] o.cb = "proc_branchpoint" -> <<Ev("proc_branchpoint", o.a[1].s, "", 0)>>
      [] o.cb = "proc_location_init" -> <<Ev("proc_location_init", o.a[1].s, "", 0)>>
      [] o.cb = "proc_edge_begin" -> <<Ev("proc_edge_begin", o.a[1].s, o.a[2].s, 0)>>
      [] o.cb = "proc_edge_end" -> <<Ev("proc_edge_end", "", "", 0)>>
      [] o.cb = "instantiation_begin" -> <<Ev("instantiation_begin", o.a[1].s, o.a[3].s, o.a[2].n)>>
      [] o.cb = "instantiation_end" -> <<Ev("instantiation_end", o.a[1].s, o.a[3].s, o.a[4].n)>>
      [] o.cb = "process" -> <<Ev("process", o.a[1].s, "", 0)>>
      [] OTHER -> <<>>
RECURSIVE Feed(_, _, _)
Feed(b, out, i) == IF i > Len(out) THEN b
                   ELSE LET evs == FromGrammar(out[i]) IN Feed(IF evs = <<>> THEN b ELSE B!Apply(b, evs[1]), out, i + 1)

(* what the statement prescribes (exp = DocGen!Expected(M), read back from JSON) / what the builder holds *)
Graph(e) == [t \in 1..Len(e.templates) |->
                [name |-> e.templates[t].name,
                 locs |-> [q \in 1..Len(e.templates[t].locs) |-> <<e.templates[t].locs[q].name, e.templates[t].locs[q].nr>>],
                 bps |-> e.templates[t].bps, init |-> e.templates[t].init,
                 edges |-> [q \in 1..Len(e.templates[t].edges) |-> <<e.templates[t].edges[q].nr, e.templates[t].edges[q].src, e.templates[t].edges[q].dst>>]]]
GraphOfBuilder(b) == [t \in 1..Len(b.templs) |->
                [name |-> b.templs[t].name,
                 locs |-> [q \in 1..Len(b.templs[t].locs) |-> <<b.templs[t].locs[q].name, b.templs[t].locs[q].nr>>],
                 bps |-> [q \in 1..Len(b.templs[t].bps) |-> b.templs[t].bps[q].name],
                 init |-> IF b.templs[t].init = B!NoSym THEN "" ELSE b.templs[t].init.name,
                 edges |-> [q \in 1..Len(b.templs[t].edges) |-> <<b.templs[t].edges[q].nr, b.templs[t].edges[q].src.name, b.templs[t].edges[q].dst.name>>]]]
InstOfBuilder(b, i) == [name |-> i.name, templ |-> b.templs[i.templ].name, params |-> [q \in 1..Len(i.params) |-> i.params[q].name], unbound |-> i.unbound,
                        bound |-> [q \in 1..Len(i.params) |-> i.params[q].id \in i.mapping]]
InstExpected(x) == [name |-> x.name, templ |-> x.templ, params |-> x.params, unbound |-> x.unbound, bound |-> [q \in 1..Len(x.params) |-> q > x.unbound]]
SystemOfBuilder(b) == [instances |-> [k \in 1..Len(b.insts) |-> InstOfBuilder(b, b.insts[k])], processes |-> [k \in 1..Len(b.procs) |-> InstOfBuilder(b, b.procs[k])]]
SystemExpected(e) == [instances |-> [k \in 1..Len(e.instances) |-> InstExpected(e.instances[k])], processes |-> [k \in 1..Len(e.processes) |-> InstExpected(e.processes[k])]]

(* a document that carries its text (a sequence of characters) is scanned here: characters -> Lex!Scan -> LR!Parse -> Builder - the whole textual front end
   at the level of the specifications. The token string lib/xtalex.py made of the same text must be the same (lexagree). *)
Scanned(doc) == LET r == X!Scan(doc.text, "new", {doc.types[k] : k \in DOMAIN doc.types}) IN
                [k \in DOMAIN r.toks |-> [t |-> r.toks[k].t, n |-> r.toks[k].n, s |-> r.toks[k].s]]
Result(doc) ==
    LET hasText == "text" \in DOMAIN doc
        toks == IF hasText THEN Scanned(doc) ELSE doc.toks
        p == L!Parse("T_NEW", toks)
        d == D!Depths(p.out)
        b == Feed(B!Init0, p.out, 1)
        accepted == p.mode = "accept" /\ p.nerr = 0 /\ d.f = 0 /\ d.t = 0 /\ d.fr = 0 /\ ~d.under /\ d.unknown = "" /\ b.nerr = 0 /\ b.frames = <<"g">> /\ b.curT = 0
        graphs == GraphOfBuilder(b) = Graph(doc.exp)
        system == SystemOfBuilder(b) = SystemExpected(doc.exp)
    IN [id |-> doc.id, scanned |-> hasText, lexagree |-> (~hasText \/ toks = doc.toks), accepted |-> accepted, graphs |-> graphs, system |-> system, docinv |-> B!DocInv(b),
        mode |-> p.mode, nerr |-> p.nerr, residue |-> <<d.f, d.t, d.fr>>, under |-> d.under, unknown |-> d.unknown, bnerr |-> b.nerr,
        cbs |-> [i \in 1..Len(p.out) |-> p.out[i].cb]]
ASSUME \A k \in 1..Len(Docs) : PrintT(<<"EMIT", ToJson(Result(Docs[k]))>>)
VARIABLE dummy
Init == dummy = 0
Next == UNCHANGED dummy
=============================================================================
