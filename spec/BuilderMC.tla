----------------------------- MODULE BuilderMC -----------------------------
(* All sequences of structural ParserBuilder callbacks that the XML reader / the grammar can produce, up to MaxLen
   callbacks, over small name pools chosen so that duplicates, unresolved names, kind clashes (a location named like a
   parameter, a process named like a location) and arity mismatches all occur. DocInv (C08) is an invariant; every
   distinct builder state is emitted with one callback history reaching it, for replay into the real DocumentBuilder. *)
EXTENDS Builder, Json

CONSTANTS MaxLen, MaxT, MaxL, MaxE, MaxI, MaxP

VARIABLES b, phase, hist, narg
vars == <<b, phase, hist, narg>>
Ev(cb, a, b2, n) == [cb |-> cb, a |-> a, b |-> b2, n |-> n]
Do(ev) == b' = Apply(b, ev) /\ hist' = Append(hist, ev)

TNames == {"T", "U"}
LNames == {"A", "B", "p"}
BNames == {"A", "C"}
RefNames == {"A", "B", "C", "X"}
INames == {"P", "Q", "T"}
BaseNames == {"T", "U", "P", "Z"}
PNames == {"T", "U", "P", "Q", "A"}

Init == b = Init0 /\ phase = "top" /\ hist = <<>> /\ narg = 0
Room == Len(hist) < MaxLen
CurT == b.templs[b.curT]

Param == /\ phase \in {"top", "sys"} /\ Room /\ Len(b.params) < 1
         /\ Do(Ev("decl_parameter", IF phase = "top" THEN "p" ELSE "q", "", 0)) /\ UNCHANGED <<phase, narg>>
(* a function declared globally (phase top) or among a template's local declarations (before its first location): it consumes the
   pending parameter frame and its name can clash with templates, locations, parameters *)
FNames == {"T", "A", "f"}
NFun == Cardinality({q \in 1..Len(hist) : hist[q].cb = "decl_func_begin"})
Func == /\ phase \in {"top", "locs"} /\ Room /\ NFun < 1 /\ (phase = "locs" => CurT.locs = <<>> /\ CurT.bps = <<>>)
        /\ \E n \in FNames : b' = Apply(Apply(b, Ev("decl_func_begin", n, "", 0)), Ev("decl_func_end", "", "", 0))
                              /\ hist' = hist \o <<Ev("decl_func_begin", n, "", 0), Ev("decl_func_end", "", "", 0)>>
        /\ UNCHANGED <<phase, narg>>
Begin == /\ phase = "top" /\ Room /\ Len(b.templs) < MaxT
         /\ \E n \in TNames : Do(Ev("proc_begin", n, "", 0)) /\ phase' = "locs" /\ UNCHANGED narg
Loc == /\ phase = "locs" /\ Room /\ Len(CurT.locs) < MaxL
       /\ \E n \in LNames : Do(Ev("proc_location", n, "", 0)) /\ UNCHANGED <<phase, narg>>
Bp == /\ phase \in {"locs", "bps"} /\ Room /\ Len(CurT.bps) < 1
      /\ \E n \in BNames : Do(Ev("proc_branchpoint", n, "", 0)) /\ phase' = "bps" /\ UNCHANGED narg
InitLoc == /\ phase \in {"locs", "bps"} /\ Room
           /\ \E n \in RefNames \cup {"T", "p"} : Do(Ev("proc_location_init", n, "", 0)) /\ phase' = "edges" /\ UNCHANGED narg
NoInit == /\ phase \in {"locs", "bps"} /\ phase' = "edges" /\ UNCHANGED <<b, hist, narg>>       \* XML reader: missing <init> (reports an error itself)
EdgeBegin == /\ phase = "edges" /\ Room /\ Len(CurT.edges) < MaxE
             /\ \E f \in RefNames, t \in RefNames : Do(Ev("proc_edge_begin", f, t, 0)) /\ phase' = "inedge" /\ UNCHANGED narg
EdgeEnd == /\ phase = "inedge" /\ Do(Ev("proc_edge_end", "", "", 0)) /\ phase' = "edges" /\ UNCHANGED narg
End == /\ phase = "edges" /\ Do(Ev("proc_end", "", "", 0)) /\ phase' = "top" /\ UNCHANGED narg
Sys == /\ phase = "top" /\ b.params = <<>> /\ phase' = "sys" /\ UNCHANGED <<b, hist, narg>>
InstBegin == /\ phase = "sys" /\ Room /\ Len(b.insts) < MaxI
             /\ \E n \in INames, t \in BaseNames : Do(Ev("instantiation_begin", n, t, 0)) /\ phase' = "args" /\ narg' = 0
Arg == /\ phase = "args" /\ Room /\ narg < 2 /\ Do(Ev("expr_nat", "", "", 0)) /\ narg' = narg + 1 /\ UNCHANGED phase
InstEnd == /\ phase = "args"
           /\ LET e == hist[CHOOSE q \in 1..Len(hist) : hist[q].cb = "instantiation_begin" /\ \A r \in (q + 1)..Len(hist) : hist[r].cb # "instantiation_begin"]
              IN Do(Ev("instantiation_end", e.a, e.b, narg))
           /\ phase' = "sys" /\ narg' = 0
Proc == /\ phase = "sys" /\ Room /\ b.params = <<>> /\ Len(b.procs) < MaxP
        /\ \E n \in PNames : Do(Ev("process", n, "", 0)) /\ UNCHANGED <<phase, narg>>

Next == Param \/ Func \/ Begin \/ Loc \/ Bp \/ InitLoc \/ NoInit \/ EdgeBegin \/ EdgeEnd \/ End \/ Sys \/ InstBegin \/ Arg \/ InstEnd \/ Proc
Spec == Init /\ [][Next]_vars

Inv == DocInv(b) /\ Balanced(b)
(* at the end of a complete parse that reported nothing, every template has an initial location - provided the reader
   reports a missing <init> itself, which is why NoInit is not a builder callback: checked in the replay, not here *)
FramesBack == phase \in {"top", "sys"} => b.frames = <<"g">>
EmitAll == PrintT(<<"EMIT", ToJson([h |-> hist, p |-> Proj(b)])>>)
View == <<b, phase, narg>>
=============================================================================
