INIT Init
NEXT Next
