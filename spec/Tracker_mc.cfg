CONSTANTS
  M = 64
  MaxCalls = 4
  LlocReset = TRUE
  TypesReset = TRUE
  ResetBeforeReport = TRUE
INIT Init
NEXT Next
INVARIANTS HistoryIndependent
CHECK_DEADLOCK FALSE
