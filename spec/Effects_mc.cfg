CONSTANTS MaxDepth = 2  AllForms = FALSE
INIT Init
NEXT Next
INVARIANTS Sound Precise Emit
CHECK_DEADLOCK FALSE
