CONSTANTS
  MaxTempl = 1
  MaxLoc = 2
  MaxBp = 1
  MaxEdge = 2
  MaxInst = 1
  MaxProc = 1
  Budget = 7
  PoolCap = 1
INIT Init
NEXT Next
INVARIANTS WellFormed EmitDone
CHECK_DEADLOCK FALSE
