---- MODULE TypeClassGen ----
EXTENDS TypeClass, IOUtils
ASSUME TreeSound
ASSUME Export(IOEnv.OUTF)
====
