---- MODULE TypeClassGen ----
EXTENDS TypeClass, IOUtils
ASSUME TreeSound
ASSUME Export(IOEnv.OUTF)
ASSUME SpineSound
ASSUME ExportSpines(IOEnv.OUTF \o ".spines")
====
