INIT Init
NEXT Next
