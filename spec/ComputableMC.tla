---- MODULE ComputableMC ----
EXTENDS Computable
ASSUME EmitInst
====
