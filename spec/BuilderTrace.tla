---------------------------- MODULE BuilderTrace ----------------------------
(* B3 for Builder.tla: traces recorded from real parses (harness/record.cpp: every structural ParserBuilder callback the
   XML reader / the grammar actually made, in order, with its arguments) are run through Builder!Apply; the state the
   specification reaches must project onto the facts read from the real Document at the end of the parse, and DocInv
   (C08) must hold in it. One line of the trace file = one parse: [id, h: events, p: projection of the real document]. *)
EXTENDS Builder, Json, IOUtils

Traces == ndJsonDeserialize(IOEnv.TRACES)
ApplyX(b, ev) == IF ev.cb = "params_reset" THEN [b EXCEPT !.params = <<>>] ELSE Apply(b, ev)
RECURSIVE Run(_, _, _)
Run(b, h, i) == IF i > Len(h) THEN b ELSE Run(ApplyX(b, h[i]), h, i + 1)
Final(tr) == Run(Init0, tr.h, 1)
(* diagnostics are also reported by the reader and the grammar themselves, so the error count is not part of the comparison *)
Conforms(tr) == [Proj(Final(tr)) EXCEPT !.nerr = 0] = [tr.p EXCEPT !.nerr = 0]
Rejected == {i \in 1..Len(Traces) : ~Conforms(Traces[i])}
InvBroken == {i \in 1..Len(Traces) : ~DocInv(Final(Traces[i]))}
ASSUME PrintT(<<"EMIT", ToJson([n |-> Len(Traces), rejected |-> [i \in Rejected |-> Traces[i].id], docinv_broken |-> [i \in InvBroken |-> Traces[i].id]])>>)
VARIABLE dummy
Init == dummy = 0
Next == UNCHANGED dummy
=============================================================================
