CONSTANTS MaxStack = 1  Depth = 2  FullLeaves = FALSE
INIT Init
NEXT Next
CHECK_DEADLOCK FALSE
