------------------------------- MODULE Lexer -------------------------------
(* The part of lexer.l that C01 depends on: lexemes are copied into the fixed-size buffer utap_lval.string[MAXLEN]
   (MAXLEN = 4001, libparser.h) that carries them to the grammar, which copies them again with strcpy (rootTransId).
   For a lexeme of n characters of class identifier / string literal:
       Stored(n)  = min(n, MAXLEN - 1)  characters, always NUL-terminated inside the buffer,
       Diag(cls,n) = the "$Identifier_is_too_long" diagnostic exactly when an identifier has n >= MAXLEN characters.
   Bounded: the copy never writes outside the buffer.  The cases (class x length around the limit) are exported; the
   check reads the stored lexeme back through the callback arguments of the real parser.                             *)
EXTENDS Integers, Sequences, FiniteSets, TLC, Json, SequencesExt

MAXLEN == 4001
Min2(a, b) == IF a < b THEN a ELSE b
Stored(n) == Min2(n, MAXLEN - 1)
Written(n) == Stored(n) + 1                    \* strncpy(.., MAXLEN) then string[MAXLEN-1] = 0
Diag(cls, n) == cls = "identifier" /\ n >= MAXLEN
Lengths == {1, 2, 3999, 4000, 4001, 4002, 4100, 8000, 20000}
Classes == {"identifier", "string", "typename"}
Bounded == \A n \in Lengths : Written(n) <= MAXLEN
Cases == {[cls |-> c, len |-> n, stored |-> Stored(n), diag |-> Diag(c, n)] : c \in Classes, n \in Lengths}
ASSUME PrintT(<<"EMIT", ToJson([bounded |-> Bounded, cases |-> SetToSeq(Cases)])>>)
VARIABLE dummy
Init == dummy = 0
Next == UNCHANGED dummy
=============================================================================
