\* exhaustive: all behaviours of <= 3 mutating calls from every non-empty interval over -4..4
CONSTANTS DHalf = 4  MaxLen = 3  EmitOn = FALSE
INIT Init
NEXT Next
VIEW ViewMC
INVARIANTS Agree QueriesAgree
CHECK_DEADLOCK FALSE
