------------------------------ MODULE Tracker ------------------------------
(* C15: the process-global state shared by all parsing entry points, and what a call's observable result depends on.

   Globals (lexer.l, parser.y, libparser.h):
     pos    - PositionTracker::position, a 32-bit counter that is never reset (modelled modulo M; Unknown = M/2 - 1 plays
              INT_MAX, the `unknown position` sentinel of position_t)
     lloc   - bison's static yylloc (utap_lloc): start/end of the last token scanned, or <<Unknown, Unknown>> in a fresh process
     cond   - flex start condition: "INITIAL" or "comment"
     types  - the array-dimension counter of the grammar (file static)
     pend   - syntax_token, the start token handed to the first utap_lex() of a call
     scal   - the counter behind the generated names `#scalarset<N>` of scalar-set types; ScalarPerBuilder: it is a member of the
              builder and starts at 0 in every call (the code) - were it shared by all builders, the label a model's first scalar
              set gets would count the scalar sets of earlier calls
     syms   - names of external functions resolved so far. NoSymbolCache: there is none (the code: every import asks the library
              it names); with a process-wide cache keyed by the function's name a later import of the same name from a library
              that lacks it would be accepted
     kept   - a document that outlives its call (a client keeps the model it loaded and later parses queries against it): the last
              position recorded in ITS index (0: no such document). position_index_t::add throws when a position is smaller than
              the previous one, so the counter must never go back while any document lives. XtaKeepsCounter: the whole-file
              .xta entry points leave the counter alone (the code)
   ResetBeforeReport: the <<EOF>> rule of the comment state leaves the state before it reports (a builder's handle_error may throw)
   A call = (kind, text shape). Calls are atomic here; the interesting interleaving is the ORDER of calls (histories).
   Each call builds its own Document, so the line table `lines` is per call.

   Result(call, g) is the observable record of the call made with globals g, computed with the arithmetic of the code:
   setPath pre-increments pos and adds a line record; every lexeme sets lloc := [pos, pos+len) and advances pos; a
   diagnostic is placed at lloc and printed relative to the line record found for its start (`Unknown position` when the
   start lies before that record); position_index_t::add throws when a position is smaller than the previous one.
   HistoryIndependent: Result(call, g) = Result(call, G0) for every reachable g.                                     *)
EXTENDS Integers, Sequences, FiniteSets, TLC, Json

CONSTANTS M, MaxCalls, LlocReset, TypesReset, ResetBeforeReport, ScalarPerBuilder, NoSymbolCache, XtaKeepsCounter      \* LlocReset: the entry points reset yylloc to the current position (the repaired code); TypesReset: ArrayDecl starts with `types = 0`
Unknown == (M \div 2) - 1

G0 == [pos |-> 0, lloc |-> <<Unknown, Unknown>>, cond |-> "INITIAL", types |-> 0, pend |-> 0, scal |-> 0, syms |-> {}, kept |-> 0]

(* text shapes: sequence of items; "t" = a token of n characters, "nl" = a newline, "err" = the token at which the
   grammar reports a syntax error, "eof" *)
Shapes == [ ok      |-> <<[k |-> "t", n |-> 3], [k |-> "t", n |-> 1], [k |-> "t", n |-> 2]>>,
            err     |-> <<[k |-> "t", n |-> 3], [k |-> "err", n |-> 2]>>,
            nlerr   |-> <<[k |-> "t", n |-> 2], [k |-> "nl", n |-> 1], [k |-> "t", n |-> 1], [k |-> "err", n |-> 1]>>,
            empty   |-> <<>>,
            blank   |-> <<[k |-> "nl", n |-> 1]>>,
            big     |-> <<[k |-> "t", n |-> (M \div 2) - 4], [k |-> "err", n |-> 1]>>,
            dimabort |-> <<[k |-> "t", n |-> 3], [k |-> "dim+", n |-> 1], [k |-> "err", n |-> 1]>>,     \* `int a[int[0,1]][;`: types++ ran, the parse aborts
            array   |-> <<[k |-> "t", n |-> 3], [k |-> "arr", n |-> 1]>>,                              \* `int g[2];` observes the counter
            scalar  |-> <<[k |-> "t", n |-> 3], [k |-> "scl", n |-> 2], [k |-> "t", n |-> 1]>>,                 \* `typedef scalar[2] s_t;` : the generated label is observable in the document
            keep    |-> <<[k |-> "t", n |-> 3], [k |-> "t", n |-> 1], [k |-> "t", n |-> 2]>>,                    \* a model whose document is kept
            late    |-> <<[k |-> "t", n |-> 2], [k |-> "t", n |-> 2]>>,                                        \* a query parsed against the kept document
            xtaok   |-> <<[k |-> "t", n |-> 3], [k |-> "t", n |-> 1]>>,                                        \* a whole .xta text (parse_XTA(str, builder, newxta))
            extgood |-> <<[k |-> "t", n |-> 3], [k |-> "ext+", n |-> 2], [k |-> "t", n |-> 1]>>,                \* `import "libm.so.6" { double j0(double x); };` - the library has the function
            extbad  |-> <<[k |-> "t", n |-> 3], [k |-> "ext-", n |-> 2], [k |-> "t", n |-> 1]>>,                \* the same import from a library that lacks it: a diagnostic
            cmteof  |-> <<[k |-> "t", n |-> 1], [k |-> "cmt", n |-> 2]>>,                              \* unterminated comment: <<EOF>> in <comment> resets the condition
            throw   |-> <<[k |-> "t", n |-> 2], [k |-> "cmt", n |-> 2]>> ]                             \* the same with a builder whose handle_error throws (PrettyPrinter): the call leaves the lexer action by exception
Kinds == DOMAIN Shapes

Mod(x) == x % M
(* run the items of a shape; st = [g, lines (Seq of [p, line]), line, diags (Seq), out, swallowed] *)
Find(lines, p) == LET hits == {q \in 1..Len(lines) : lines[q].p <= p} IN
                  IF hits = {} THEN lines[1] ELSE lines[CHOOSE q \in hits : \A r \in hits : r <= q]
Diag(st, what) == LET s == st.g.lloc[1]
                      rec == Find(st.lines, s) IN
                  [msg |-> what, line |-> rec.line, col |-> IF s < rec.p THEN -1 ELSE s - rec.p]      \* -1: "Unknown position in document"
RECURSIVE RunItems(_, _, _)
RunItems(st, items, i) ==
    IF i > Len(items) \/ st.out # "run" THEN st
    ELSE LET it == items[i]
             g == st.g IN
         IF g.cond = "comment" /\ it.k # "nl"
         THEN RunItems([st EXCEPT !.g.pos = Mod(g.pos + it.n), !.g.lloc = <<g.pos, Mod(g.pos + it.n)>>], items, i + 1)    \* swallowed by the comment
         ELSE CASE it.k \in {"t", "arr", "dim+", "err", "cmt", "scl", "ext+", "ext-"} ->
                   LET p2 == Mod(g.pos + it.n)
                       g1 == [g EXCEPT !.pos = p2, !.lloc = <<g.pos, p2>>,
                                       !.types = IF it.k = "dim+" THEN @ + 1 ELSE @,
                                       !.cond = IF it.k = "cmt" THEN "comment" ELSE @]
                       st1 == [st EXCEPT !.g = g1] IN
                   IF it.k = "err" THEN [st1 EXCEPT !.diags = Append(@, Diag(st1, "syntax")), !.out = "abort"]
                   ELSE IF it.k = "arr" THEN RunItems([st1 EXCEPT !.arrdim = (IF TypesReset THEN 0 ELSE g1.types) + 1,
                                                                  !.g.types = IF TypesReset THEN 0 ELSE @], items, i + 1)      \* { types = 0; } ... type_array_of_size(types + 1)
                   ELSE IF it.k = "ext+" THEN RunItems([st1 EXCEPT !.g.syms = IF NoSymbolCache THEN @ ELSE @ \cup {"f"}], items, i + 1)
                   ELSE IF it.k = "ext-" THEN (IF ~NoSymbolCache /\ "f" \in g1.syms THEN RunItems(st1, items, i + 1)
                                               ELSE RunItems([st1 EXCEPT !.diags = Append(@, Diag(st1, "undefined symbol"))], items, i + 1))
                   ELSE IF it.k = "scl" THEN RunItems([st1 EXCEPT !.labels = Append(@, g1.scal), !.g.scal = @ + 1], items, i + 1)
                   ELSE RunItems(st1, items, i + 1)
              [] it.k = "nl" ->
                   LET p2 == Mod(g.pos + it.n) IN
                   IF p2 < st.lines[Len(st.lines)].p THEN [st EXCEPT !.out = "throw:logic_error"]      \* position_index_t::add
                   ELSE RunItems([st EXCEPT !.g.pos = p2, !.g.lloc = <<g.pos, p2>>, !.line = @ + 1,
                                            !.lines = Append(@, [p |-> p2, line |-> st.line + 1])], items, i + 1)
Call(kind, g) ==
    LET p1 == Mod((IF kind = "xtaok" /\ ~XtaKeepsCounter THEN 0 ELSE g.pos) + 1)      \* setPath: ++position, add(position, 0, 1, path)
        g1 == [g EXCEPT !.pos = p1, !.pend = 0, !.lloc = IF LlocReset THEN <<p1, p1>> ELSE @, !.scal = IF ScalarPerBuilder THEN 0 ELSE @]     \* the call constructs its builder
        st0 == [g |-> g1, lines |-> <<[p |-> p1, line |-> 1]>>, line |-> 1, diags |-> <<>>,
                out |-> IF kind = "late" /\ g.kept # 0 /\ p1 < g.kept THEN "throw:logic_error" ELSE "run",      \* the kept document's index refuses a smaller position
                arrdim |-> 0, labels |-> <<>>]
        st == RunItems(st0, Shapes[kind], 1)
        (* end of input *)
        st2 == IF st.out # "run" THEN st
               ELSE IF st.g.cond = "comment" /\ kind = "throw"
                    THEN [st EXCEPT !.g.cond = IF ResetBeforeReport THEN "INITIAL" ELSE @, !.out = "throw:TypeException"]       \* BEGIN(INITIAL) precedes yyerror() in lexer.l
               ELSE IF st.g.cond = "comment" THEN [st EXCEPT !.g.cond = "INITIAL", !.diags = Append(@, Diag(st, "comment not closed")), !.out = "abort"]
               ELSE IF Shapes[kind] = <<>> \/ kind = "blank" THEN [st EXCEPT !.diags = Append(@, Diag(st, "unexpected end")), !.out = "abort"]
               ELSE [st EXCEPT !.out = "return"]
        lastp == st2.lines[Len(st2.lines)].p
        gend == IF kind \in {"keep", "late"} /\ st2.out # "throw:logic_error" THEN [st2.g EXCEPT !.kept = lastp] ELSE st2.g
    IN [g |-> gend, res |-> [out |-> st2.out, diags |-> st2.diags, arrdim |-> st2.arrdim, labels |-> st2.labels]]
Result(kind, g) == Call(kind, g).res

VARIABLES g, hist, last
vars == <<g, hist, last>>
Init == g = G0 /\ hist = <<>> /\ last = [kind |-> "", before |-> G0]
Next == /\ Len(hist) < MaxCalls
        /\ \E k \in Kinds : /\ g' = Call(k, g).g
                            /\ hist' = Append(hist, k)
                            /\ last' = [kind |-> k, before |-> g]
Spec == Init /\ [][Next]_vars

HistoryIndependent == last.kind # "" => Result(last.kind, last.before) = Result(last.kind, G0)
(* which global made the difference, for the counterexample reader *)
Sensitive(k, gg) == {f \in {"pos", "lloc", "cond", "types", "scal", "syms", "kept"} : Result(k, [G0 EXCEPT ![f] = gg[f]]) # Result(k, G0)}
EmitHist == PrintT(<<"EMIT", ToJson([h |-> hist, indep |-> HistoryIndependent,
                                     why |-> IF last.kind = "" THEN {} ELSE Sensitive(last.kind, last.before)])>>)
View == <<g, Len(hist)>>
=============================================================================
