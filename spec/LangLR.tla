------------------------------- MODULE LangLR -------------------------------
(* C02 at the level of the extracted grammar: for every tree t of the universe, the bison automaton of the working
   tree's parser.y, fed the minimally / fully parenthesised rendering of t, accepts and hands the builder exactly
   RPN(t). A changed %left/%right/%prec line, a reordered rule or a wrong action argument fails here (B1). *)
EXTENDS LR, Lang, SequencesExt

Universe == CASE IOEnv.LANG_UNIVERSE = "2" -> Depth1 \cup Depth2
              [] IOEnv.LANG_UNIVERSE = "3" -> Depth1 \cup Depth2 \cup Depth3
              [] OTHER -> Depth1
USeq == SetToSeq(Universe)
(* the universe is split by bisection so that TLC's workers evaluate the (expensive) checks in parallel *)
VARIABLES lo, hi
Init == lo = 1 /\ hi = Len(USeq)
Next == /\ lo < hi
        /\ LET mid == (lo + hi) \div 2 IN \/ (lo' = lo /\ hi' = mid) \/ (lo' = mid + 1 /\ hi' = hi)
t == USeq[lo]
Leaf == lo = hi

Run(toks) == Parse("T_EXPRESSION", toks)
MinOK == Leaf => LET c == Run(RenderMin(t)) IN c.mode = "accept" /\ c.out = RPN(t)
FullOK == Leaf => LET c == Run(RenderFull(t)) IN c.mode = "accept" /\ c.out = RPN(t)
(* every tree is reported with its verdict (the driver lists all disagreements instead of stopping at the first) *)
Emit == Leaf => LET cm == Run(RenderMin(t))  cf == Run(RenderFull(t))
                    okm == cm.mode = "accept" /\ cm.out = RPN(t)
                    okf == cf.mode = "accept" /\ cf.out = RPN(t)
                IN PrintT(<<"EMIT", ToJson([t |-> t, min |-> RenderMin(t), full |-> RenderFull(t), rpn |-> RPN(t), minok |-> okm, fullok |-> okf,
                                            minout |-> IF okm THEN <<>> ELSE cm.out, minmode |-> cm.mode,
                                            fullout |-> IF okf THEN <<>> ELSE cf.out, fullmode |-> cf.mode])>>)
=============================================================================
