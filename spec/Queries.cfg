INIT Init
NEXT Next
