CONSTANTS MaxStack = 1  Depth = 2  FullLeaves = TRUE
INIT Init
NEXT Next
CHECK_DEADLOCK FALSE
