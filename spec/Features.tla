------------------------------ MODULE Features ------------------------------
(* Property C17: analysis methods are reported as supported only when the model permits them.

   A model of the universe is a clean scaffold plus ONE restricting-feature placement (or none).
   Sem(m)  : the supported-methods triple as the property statement defines it.
   Impl(m) : transcription of FeatureChecker (featurechecker.cpp): which syntactic positions it inspects.
   The property is one-directional ("reported as supported ONLY if"): Reported(method) => SemAllows(method);
   and never-instantiated templates / declaration order must not change the report.                       *)
EXTENDS Integers, Sequences, FiniteSets, TLC, Json, SequencesExt

RelOps == {"lt", "le", "eq", "ge", "gt"}
(* how the feature-bearing template T takes part in the system: not at all / "system T" / T has a free parameter and is
   listed unbound (a process set) / through a partial instance that keeps a free parameter / through a full instance *)
InstModes == {"no", "yes", "unbound", "partial", "full"}
Positions == {"alone", "left", "right", "deepleft", "deepright", "orint", "forall"}
   \* e  /  e && p  /  p && e  /  (e && p) && p  /  p && (p && e)  /  p || e  /  forall (k:..) e

(* placements *)
FpCmp == {[feat |-> "fpcmp", role |-> r, op |-> o, order |-> d, pos |-> p, inst |-> i] :
            r \in {"guard", "invariant", "invariant_urgent", "invariant_committed"}, o \in RelOps, d \in {"cv", "vc"}, p \in Positions, i \in InstModes}
FpAssign == {[feat |-> "fpassign", target |-> t, idx |-> k, len |-> n, inst |-> i] :
            t \in {"clock", "double", "hybrid", "intvar"}, n \in 1..3, k \in 1..3, i \in InstModes}
ClockInit == {[feat |-> "clockinit", where |-> w, val |-> v, inst |-> i] :
            w \in {"global", "local"}, v \in {"fp", "int"}, i \in InstModes}
Rate == {[feat |-> "rate", clock |-> c, val |-> v, order |-> d, pos |-> p, inst |-> i] :
            c \in {"plain", "hybrid"}, v \in {0, 1, 2, 5}, d \in {"cv", "vc"}, p \in {"alone", "left", "right", "deepleft", "deepright"}, i \in InstModes}
Chan == {[feat |-> "chan", kind |-> k, where |-> w, shape |-> s, inst |-> i] :
            k \in {"plain", "urgent", "broadcast", "urgentbroadcast"}, w \in {"global", "local"}, s \in {"scalar", "array"}, i \in InstModes}
Other == {[feat |-> f] : f \in {"none", "dynamic", "chanprio", "procprio"}}
(* how the floating-point value is written: the placements above use a literal; a value is floating point whatever spells it - a double variable, a constant
   or meta one, an element of a constant array, an arithmetic expression over one *)
FpSpellings == {"var", "cvar", "mvar", "carr", "expr"}
Spelled == {[feat |-> "fpcmp", role |-> r, op |-> o, order |-> "cv", pos |-> p, inst |-> "yes", fp |-> s] : r \in {"guard", "invariant"}, o \in {"lt", "le"}, p \in {"alone", "right"}, s \in FpSpellings}
           \cup {[feat |-> "fpassign", target |-> t, idx |-> 1, len |-> 1, inst |-> "yes", fp |-> s] : t \in {"clock", "double", "hybrid"}, s \in FpSpellings}
           \cup {[feat |-> "clockinit", where |-> w, val |-> "fp", inst |-> "yes", fp |-> s] : w \in {"global", "local"}, s \in {"cvar", "carr"}}

(* as invariants the type checker only admits  x < c, x <= c  and the mirrored spellings  c < x, c <= x  (i.e. gt/ge written value-first) *)
Models == {m \in FpCmp : (m.role \in {"invariant_urgent", "invariant_committed"} => m.pos \in {"alone", "right"}) /\ (m.role = "guard" \/ (m.op \in {"lt", "le"} /\ m.order = "cv") \/ (m.op \in {"gt", "ge"} /\ m.order = "vc"))}
          \cup {m \in FpAssign : m.idx <= m.len} \cup ClockInit \cup Rate \cup Chan \cup Other \cup Spelled

Inst(m) == IF "inst" \in DOMAIN m THEN m.inst # "no" ELSE TRUE
InTemplate(m) == m.feat \in {"fpcmp", "fpassign", "rate"} \/ (m.feat \in {"clockinit", "chan"} /\ m.where = "local")
Counts(m) == ~InTemplate(m) \/ Inst(m)        \* never-instantiated templates do not affect the verdict

(* semantics, from the statement *)
SemSymbolic(m) ==
    ~( Counts(m) /\
       \/ m.feat = "fpcmp"
       \/ m.feat = "fpassign" /\ m.target \in {"clock", "double"}      \* "assigns a non-hybrid clock or variable from a floating-point value"
       \/ m.feat = "clockinit" /\ m.val = "fp"
       \/ m.feat = "rate" /\ m.clock = "plain" /\ m.val \notin {0, 1}
       \/ m.feat = "dynamic" )
SemStochastic(m) ==
    ~( \/ m.feat = "chan" /\ Counts(m) /\ m.kind \in {"plain", "urgent"}
       \/ m.feat \in {"chanprio", "procprio"} )
SemConcrete(m) == m.feat \notin {"chanprio", "procprio"}

(* featurechecker.cpp *)
ImplSymbolic(m) ==
    ~( \/ m.feat = "fpcmp" /\ Inst(m)                                           \* comparesWithFloatingPoint: any relational operator, any depth, guards and invariants
       \/ m.feat = "fpassign" /\ Inst(m) /\ m.target \in {"clock", "double"}    \* visitAssignment: ASSIGN/COMMA, uses_fp && !uses_hybrid
       \/ m.feat = "clockinit" /\ m.val = "fp" /\ (m.where = "global" \/ Inst(m))
       \/ m.feat = "rate" /\ Inst(m) /\ m.clock = "plain" /\ m.val \notin {0, 1}   \* isRateDisallowedInSymbolic: EQ under AND (value 5 stands for the fp rate 0.5)
       \/ m.feat = "dynamic" )
ImplStochastic(m) ==
    ~( \/ m.feat = "chan" /\ (m.where = "global" \/ Inst(m)) /\ m.kind \in {"plain", "urgent"}   \* visitFrame: global frame and frames of instantiated templates, through arrays
       \/ m.feat \in {"chanprio", "procprio"} )
ImplConcrete(m) == m.feat \notin {"chanprio", "procprio"}

Sound(m) == /\ ImplSymbolic(m) => SemSymbolic(m)
            /\ ImplStochastic(m) => SemStochastic(m)
            /\ ImplConcrete(m) => SemConcrete(m)
AllSound == \A m \in Models : Sound(m)
Unsound == {m \in Models : ~Sound(m)}

(* ---- two restricting features in one model, in both declaration orders: the verdict is the conjunction, whichever comes first.
   (The checker is a visitor that can only clear flags; a short cut taken because one flag is already down must not skip the
   inspection that would clear another.) *)
SymReps == {[feat |-> "fpcmp", role |-> "guard", op |-> "lt", order |-> "cv", pos |-> "alone", inst |-> "yes"],
            [feat |-> "fpcmp", role |-> "invariant", op |-> "le", order |-> "cv", pos |-> "right", inst |-> "full"],
            [feat |-> "clockinit", where |-> "global", val |-> "fp", inst |-> "yes"],
            [feat |-> "clockinit", where |-> "local", val |-> "fp", inst |-> "yes"],
            [feat |-> "fpassign", target |-> "double", idx |-> 1, len |-> 1, inst |-> "yes"],
            [feat |-> "rate", clock |-> "plain", val |-> 2, order |-> "cv", pos |-> "alone", inst |-> "yes"]}
StoReps == {[feat |-> "chan", kind |-> "plain", where |-> "local", shape |-> "scalar", inst |-> "yes"],
            [feat |-> "chan", kind |-> "urgent", where |-> "local", shape |-> "array", inst |-> "full"],
            [feat |-> "chan", kind |-> "plain", where |-> "global", shape |-> "scalar", inst |-> "yes"]}
ASSUME SymReps \subseteq Models /\ StoReps \subseteq Models
(* the document-level features (a flag of the document, no placement): each with every placed representative - a short cut taken on the flags
   alone must not skip the traversal that finds the placed one *)
DocReps == {[feat |-> "dynamic"], [feat |-> "chanprio"], [feat |-> "procprio"]}
Pairs == {[a |-> x, b |-> y, first |-> o] : x \in SymReps, y \in StoReps, o \in {"a", "b"}}
         \cup {[a |-> x, b |-> y, first |-> o] : x \in SymReps \cup StoReps, y \in DocReps, o \in {"a", "b"}}
PairSem(p) == [sym |-> SemSymbolic(p.a) /\ SemSymbolic(p.b), sto |-> SemStochastic(p.a) /\ SemStochastic(p.b), con |-> SemConcrete(p.a) /\ SemConcrete(p.b)]
PairImpl(p) == [sym |-> ImplSymbolic(p.a) /\ ImplSymbolic(p.b), sto |-> ImplStochastic(p.a) /\ ImplStochastic(p.b), con |-> ImplConcrete(p.a) /\ ImplConcrete(p.b)]
PairsSound == \A p \in Pairs : (PairImpl(p).sym => PairSem(p).sym) /\ (PairImpl(p).sto => PairSem(p).sto) /\ (PairImpl(p).con => PairSem(p).con)
ExportPairs(file) == ndJsonSerialize(file, SetToSeq({[p |-> p, sem |-> PairSem(p), impl |-> PairImpl(p)] : p \in Pairs}))

Export(file) == ndJsonSerialize(file, SetToSeq({[m |-> m, sym |-> SemSymbolic(m), sto |-> SemStochastic(m), con |-> SemConcrete(m),
                                                 isym |-> ImplSymbolic(m), isto |-> ImplStochastic(m), icon |-> ImplConcrete(m)] : m \in Models}))
VARIABLE dummy
Init == dummy = 0
Next == UNCHANGED dummy
=============================================================================
