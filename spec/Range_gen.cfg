\* generation: every transition (mutators and queries) of the state graph to depth 2, as EMIT lines
CONSTANTS DHalf = 3  MaxLen = 2  EmitOn = TRUE
INIT Init
NEXT Next
INVARIANTS Agree QueriesAgree Emit
CHECK_DEADLOCK FALSE
