CONSTANTS
  MaxOps = 5
  MaxSyms = 3
SPECIFICATION Spec
INVARIANTS LatestWins Innermost
PROPERTIES RemoveExact
CHECK_DEADLOCK FALSE
