CONSTANTS MaxDepth = 2  AllForms = TRUE
INIT Init
NEXT Next
INVARIANTS Sound Precise Emit
CHECK_DEADLOCK FALSE
