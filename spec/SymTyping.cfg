INIT Init
NEXT Next
