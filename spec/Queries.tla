------------------------------- MODULE Queries -------------------------------
(* The verification-query forms of the property language (C03): every form x bound kind x run count x path operator x
   comparison, as records; the driver renders them over a fixed scaffold model and round-trips them through the real
   library (parse, print, re-parse). *)
EXTENDS Integers, Sequences, FiniteSets, TLC, Json, SequencesExt, IOUtils

Bounds == {"time", "steps", "clock"}          \* [<=10]  [#<=10]  [x<=10]
Runs == {0, 7}                                 \* no run count / ;7
Paths == {"box", "diamond"}
Sub == {"", "under"}                           \* ... under S

Symbolic == {[form |-> f] : f \in {"AG", "EF", "AF", "EG", "leads", "until", "wuntil", "buchi", "AGnot", "EFand", "AGimply", "AGforall", "deadlock"}}
SupInf == {[form |-> f, pred |-> p, n |-> n] : f \in {"sup", "inf", "bounds"}, p \in BOOLEAN, n \in 1..2}
PrQuant == {[form |-> "pr_quant", b |-> b, runs |-> r, path |-> p] : b \in Bounds, r \in Runs, p \in Paths}
           \cup {[form |-> "pr_until", b |-> b, runs |-> r] : b \in Bounds, r \in Runs}
PrQual == {[form |-> "pr_qual", b |-> b, runs |-> r, path |-> p, cmp |-> c, prob |-> q] :
            b \in Bounds, r \in {0}, p \in Paths, c \in {"ge", "le"}, q \in {"0.5", "0.25", "0.001", "1"}}
PrCmp == {[form |-> "pr_cmp", b |-> b1, b2 |-> b2, path |-> p1, path2 |-> p2] : b1 \in Bounds, b2 \in Bounds, p1 \in Paths, p2 \in Paths}
Exp == {[form |-> "exp", b |-> b, runs |-> r, agg |-> a] : b \in Bounds, r \in Runs, a \in {"min", "max"}}
Sim == {[form |-> f, b |-> b, runs |-> r, n |-> n] : f \in {"sim", "sim_reach", "sim_reach_n"}, b \in Bounds, r \in Runs, n \in 1..2}
Control == {[form |-> f, sub |-> s] : f \in {"control_AG", "control_AF", "control_until", "ef_control", "po_control"}, s \in Sub}
           \cup {[form |-> f] : f \in {"control_t2", "control_t1", "control_t0"}}
Learn == {[form |-> f, b |-> b, feat |-> ft, sub |-> s] : f \in {"minE", "maxE", "minPr", "maxPr"}, b \in Bounds,
            ft \in {"none", "both", "empty"}, s \in Sub}
Strat == {[form |-> f] : f \in {"load", "load_feat", "save", "assign_minE", "assign_control"}}
Mitl == {[form |-> f] : f \in {"mitl_until", "mitl_release", "mitl_next", "mitl_diamond", "mitl_box"}}

All == Symbolic \cup SupInf \cup PrQuant \cup PrQual \cup PrCmp \cup Exp \cup Sim \cup Control \cup Learn \cup Strat \cup Mitl
ASSUME ndJsonSerialize(IOEnv.OUTF, SetToSeq(All))
VARIABLE dummy
Init == dummy = 0
Next == UNCHANGED dummy
=============================================================================
