------------------------------- MODULE Queries -------------------------------
(* The verification-query forms of the property language (C03): every form x bound kind x run count x path operator x
   comparison, as records; the driver renders them over a fixed scaffold model and round-trips them through the real
   library (parse, print, re-parse). *)
EXTENDS Integers, Sequences, FiniteSets, TLC, Json, SequencesExt, IOUtils

Bounds == {"time", "steps", "clock"}          \* [<=10]  [#<=10]  [x<=10]
Runs == {0, 7}                                 \* no run count / ;7
Paths == {"box", "diamond"}
Sub == {"", "under"}                           \* ... under S

Symbolic == {[form |-> f] : f \in {"AG", "EF", "AF", "EG", "leads", "until", "wuntil", "buchi", "AGnot", "EFand", "AGimply", "AGforall", "deadlock"}}
SupInf == {[form |-> f, pred |-> p, n |-> n] : f \in {"sup", "inf", "bounds"}, p \in BOOLEAN, n \in 1..2}
PrQuant == {[form |-> "pr_quant", b |-> b, runs |-> r, path |-> p] : b \in Bounds, r \in Runs, p \in Paths}
           \cup {[form |-> "pr_until", b |-> b, runs |-> r] : b \in Bounds, r \in Runs}
PrQual == {[form |-> "pr_qual", b |-> b, runs |-> r, path |-> p, cmp |-> c, prob |-> q] :
            b \in Bounds, r \in {0}, p \in Paths, c \in {"ge", "le"}, q \in {"0.5", "0.25", "0.001", "1"}}
PrCmp == {[form |-> "pr_cmp", b |-> b1, b2 |-> b2, path |-> p1, path2 |-> p2] : b1 \in Bounds, b2 \in Bounds, p1 \in Paths, p2 \in Paths}
(* a probability comparison has no place for a run count: with one the query is refused (it is not read with the count dropped) *)
PrCmpRuns == {[form |-> "pr_cmp", b |-> "time", b2 |-> "time", path |-> p1, path2 |-> p2, runs |-> r1, runs2 |-> r2] :
                p1 \in Paths, p2 \in Paths, r1 \in Runs, r2 \in Runs} \ {q \in [form : {"pr_cmp"}, b : {"time"}, b2 : {"time"}, path : Paths, path2 : Paths, runs : Runs, runs2 : Runs] : q.runs = 0 /\ q.runs2 = 0}
Exp == {[form |-> "exp", b |-> b, runs |-> r, agg |-> a] : b \in Bounds, r \in Runs, a \in {"min", "max"}}
Sim == {[form |-> f, b |-> b, runs |-> r, n |-> n] : f \in {"sim", "sim_reach", "sim_reach_n"}, b \in Bounds, r \in Runs, n \in 1..2}
Control == {[form |-> f, sub |-> s] : f \in {"control_AG", "control_AF", "control_until", "ef_control", "po_control"}, s \in Sub}
           \cup {[form |-> f] : f \in {"control_t2", "control_t1", "control_t0"}}
           \cup {[form |-> "control_buchi", conj |-> a, sub |-> s] : a \in {"and", "&&"}, s \in Sub}      \* control: A[] (p and A<> q) - the Buechi objective, a production of its own
(* the first state formula of a form (P.L1 in the plain variants) replaced by a formula with another operator at its top: what stands in a slot of a
   query form decides which parentheses its printed text needs *)
SlotOps == {"or", "and", "imply", "not", "ite", "forall", "cmp", "orkw"}
Slotted == {[form |-> f, op |-> o] : f \in {"AG", "leads", "until", "wuntil"}, o \in SlotOps}
           \cup {[form |-> f, sub |-> "", op |-> o] : f \in {"control_AG", "control_until", "ef_control"}, o \in SlotOps}
           \cup {[form |-> "control_buchi", conj |-> a, sub |-> "", op |-> o] : a \in {"and", "&&"}, o \in SlotOps}
           \cup {[form |-> "pr_until", b |-> "time", runs |-> 0, op |-> o] : o \in SlotOps}
OpKind(o) == CASE o \in {"or", "orkw", "imply"} -> "OR" [] o = "and" -> "AND" [] o = "not" -> "NOT" [] o = "ite" -> "INLINE_IF" [] o = "forall" -> "FORALL" [] o = "cmp" -> "GT"
Learn == {[form |-> f, b |-> b, feat |-> ft, sub |-> s] : f \in {"minE", "maxE", "minPr", "maxPr"}, b \in Bounds,
            ft \in {"none", "both", "empty"}, s \in Sub}
Strat == {[form |-> f] : f \in {"load", "load_feat", "save", "assign_minE", "assign_control"}}
Mitl == {[form |-> f] : f \in {"mitl_until", "mitl_release", "mitl_next", "mitl_diamond", "mitl_box"}}

(* the operator kind at the root of the tree a query form denotes (the kind names of UTAP::Constants::kind_t say what they stand for):
   the path quantifier of a symbolic query; for a game query the tree handed to clients is its path formula; the SMC forms *)
RootKind(q) ==
    CASE q.form \in {"AG", "AGnot", "AGimply", "AGforall", "deadlock", "control_AG", "ef_control", "assign_control"} -> "AG"
      [] q.form \in {"EF", "EFand"} -> "EF"
      [] q.form \in {"AF", "control_AF", "control_t0"} -> "AF"
      [] q.form = "EG" -> "EG"
      [] q.form = "leads" -> "LEADS_TO"
      [] q.form \in {"until", "control_until"} -> "A_UNTIL"
      [] q.form = "wuntil" -> "A_WEAK_UNTIL"
      [] q.form \in {"buchi", "control_buchi"} -> "A_BUCHI"
      [] q.form = "sup" -> "SUP_VAR" [] q.form = "inf" -> "INF_VAR" [] q.form = "bounds" -> "BOUNDS_VAR"
      [] q.form = "pr_quant" -> IF q.path = "box" THEN "PROBA_BOX" ELSE "PROBA_DIAMOND"
      [] q.form = "pr_until" -> "PROBA_DIAMOND"            \* `p U q` is the reachability of q with stop predicate p
      [] q.form = "pr_qual" -> IF (q.path = "box") = (q.cmp = "ge") THEN "PROBA_MIN_BOX" ELSE "PROBA_MIN_DIAMOND"
           \* `Pr(phi) <= p` is handed over as its dual `Pr(dual path, not phi) >= 1 - p` (expr_proba_qualitative)
      [] q.form = "pr_cmp" -> "PROBA_CMP"
      [] q.form = "exp" -> "PROBA_EXP"
      [] q.form = "sim" -> "SIMULATE"
      [] q.form \in {"sim_reach", "sim_reach_n"} -> "SIMULATEREACH"
      [] q.form \in {"minE", "minPr", "assign_minE"} -> "MIN_EXP"
      [] q.form \in {"maxE", "maxPr"} -> "MAX_EXP"
      [] q.form = "control_t2" -> "CONTROL_TOPT" [] q.form = "control_t1" -> "CONTROL_TOPT_DEF1"
      [] q.form = "po_control" -> "PO_CONTROL"
      [] q.form \in {"load", "load_feat"} -> "LOAD_STRAT" [] q.form = "save" -> "SAVE_STRAT"
      [] q.form \in {"mitl_until", "mitl_release", "mitl_next", "mitl_diamond", "mitl_box"} -> "MITL_FORMULA"
(* and of its first operand, where the form fixes it *)
ChildKind(q) ==
    CASE "op" \in DOMAIN q -> (IF q.form \in {"AG", "control_AG", "ef_control"} THEN OpKind(q.op) ELSE "")
      [] q.form \in {"AG", "EF", "control_AG", "control_AF", "control_t0", "ef_control", "assign_control"} -> "DOT"
      [] q.form \in {"AGnot", "deadlock", "EG"} -> "NOT"
      [] q.form = "EFand" -> "AND"
      [] q.form = "AGimply" -> "OR"                      \* `a imply b` is built as `!a || b`
      [] q.form = "AGforall" -> "FORALL"
      [] q.form = "AF" -> "EQ"
      [] q.form \in {"mitl_until", "mitl_diamond"} -> "MITL_UNTIL"
      [] q.form \in {"mitl_release", "mitl_box"} -> "MITL_RELEASE"
      [] q.form = "mitl_next" -> "MITL_NEXT"
      [] OTHER -> ""
(* the forms a query builder must accept over the scaffold: all but the symbolic until / weak until / Buechi formulas outside `control:` (the query
   builder knows them only as game objectives) and a probability bound written without a decimal point (the grammar asks for a floating literal) *)
Valid(q) == /\ q.form \notin {"until", "wuntil", "buchi"}
            /\ ~(q.form = "pr_qual" /\ q.prob = "1")
            /\ ~(q.form = "pr_cmp" /\ "runs" \in DOMAIN q)
WithKinds(S) == {[qq |-> q, root |-> RootKind(q), child |-> ChildKind(q), valid |-> Valid(q)] : q \in S}

All == Symbolic \cup Slotted \cup SupInf \cup PrQuant \cup PrQual \cup PrCmp \cup PrCmpRuns \cup Exp \cup Sim \cup Control \cup Learn \cup Strat \cup Mitl
ASSUME ndJsonSerialize(IOEnv.OUTF, SetToSeq(All))
ASSUME ndJsonSerialize(IOEnv.OUTF \o ".kinds", SetToSeq(WithKinds(All)))
VARIABLE dummy
Init == dummy = 0
Next == UNCHANGED dummy
=============================================================================
