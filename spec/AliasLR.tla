------------------------------ MODULE AliasLR ------------------------------
(* C09, grammar side: on the bison automaton extracted from the working tree's parser.y, the keyword spelling and the
   symbolic spelling of an operator are interchangeable, and a redundant pair of parentheses around an operand is
   transparent: for EVERY token string up to MaxLen (valid or not, error recovery included)

     AliasInvariant : Parse(h) and Parse(Swap(h)) emit the same callbacks and end in the same mode, where Swap exchanges
                      and <-> &&, or <-> ||, not <-> ! (same precedence level, same callback, same arguments);
     ParenInvariant : if h is accepted, wrapping any single operand token (identifier / number) in parentheses yields the
                      same callbacks.                                                                              *)
EXTENDS LRExplore

SwapTok(t) == CASE t.t = "T_KW_AND" -> [t EXCEPT !.t = "T_BOOL_AND"] [] t.t = "T_BOOL_AND" -> [t EXCEPT !.t = "T_KW_AND"]
                [] t.t = "T_KW_OR" -> [t EXCEPT !.t = "T_BOOL_OR"] [] t.t = "T_BOOL_OR" -> [t EXCEPT !.t = "T_KW_OR"]
                [] t.t = "T_KW_NOT" -> [t EXCEPT !.t = "T_EXCLAM"] [] t.t = "T_EXCLAM" -> [t EXCEPT !.t = "T_KW_NOT"]
                [] OTHER -> t
Body(h) == IF h # <<>> /\ h[Len(h)].t = "$end" THEN SubSeq(h, 1, Len(h) - 1) ELSE h
Swap(h) == [i \in 1..Len(h) |-> SwapTok(h[i])]
Names(out) == [i \in 1..Len(out) |-> [cb |-> out[i].cb, a |-> out[i].a]]
Same(c1, c2) == c1.mode = c2.mode /\ Names(c1.out) = Names(c2.out)
AliasInvariant == Terminal => LET h == Body(hist) IN Same(Parse(Params.start, h), Parse(Params.start, Swap(h)))

IsOperand(t) == t.t \in {"T_ID", "T_NAT"}
LP == Tok("'('", 0, "")
RP == Tok("')'", 0, "")
Wrap(h, i) == SubSeq(h, 1, i - 1) \o <<LP, h[i], RP>> \o SubSeq(h, i + 1, Len(h))
(* an identifier directly followed by "(" is a call, by "[" an indexed name: wrapping changes the program *)
Wrappable(h, i) == IsOperand(h[i]) /\ (i = Len(h) \/ h[i + 1].t \notin {"'('"})
ParenInvariant == (Terminal /\ cfg.mode = "accept" /\ cfg.nerr = 0) =>
                     LET h == Body(hist) IN \A i \in 1..Len(h) : Wrappable(h, i) => Same(Parse(Params.start, h), Parse(Params.start, Wrap(h, i)))
=============================================================================
