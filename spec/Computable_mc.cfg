CONSTANTS MaxLinks = 3
INIT Init
NEXT Next
INVARIANTS Sound Complete Emit
CHECK_DEADLOCK FALSE
