CONSTANTS
  MaxOps = 4
  Closed = FALSE
  MaxSyms = 3
SPECIFICATION Spec
INVARIANTS LatestWins Innermost EmitDone
PROPERTIES RemoveExact
CHECK_DEADLOCK FALSE
