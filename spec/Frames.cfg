CONSTANTS
  MaxOps = 4
  MaxSyms = 3
SPECIFICATION Spec
INVARIANTS LatestWins Innermost EmitDone
PROPERTIES RemoveExact
CHECK_DEADLOCK FALSE
