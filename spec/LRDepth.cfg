INIT Init
NEXT Next
INVARIANTS Bounded EmitResidue
VIEW ViewNoHist
CHECK_DEADLOCK FALSE
