------------------------------ MODULE XmlWriter ------------------------------
(* C20: the XML writer's template graph mirrors the document it was given.

   ExpXml(M)   - the abstract XML tree the property statement prescribes for the document of model M: per template one
                 location element per location (unique id, name, invariant and rate labels, urgent/committed), exactly one
                 init reference, one transition per edge in order whose source/target identify the endpoints (references
                 are abstracted to <<"loc"|"bp", position>>), the controllable attribute, and the five label kinds carrying
                 the text of the non-trivial selects and expressions.
   Written(M)  - transcription of XMLWriter::taTempl/location/init/transition/labels (xmlwriter.cpp) applied to the
                 mirror document Expected(M): the writer procedure as a function on the abstract document.
   WriterMirrors: Written(M) = ExpXml(M) for every model of the DocGen universe.                                     *)
EXTENDS DocGen

Pos(seq, x) == CHOOSE q \in 1..Len(seq) : seq[q] = x
NonTrivial(s) == IF s = "1" THEN "" ELSE s

(* ---- from the statement *)
EndRef(t, id) == IF id \in BpIds(t) THEN <<"bp", Pos([q \in 1..Len(t.bps) |-> t.bps[q].id], id)>>
                 ELSE <<"loc", Pos([q \in 1..Len(t.locs) |-> t.locs[q].id], id)>>
ExpXmlTempl(t) ==
    [name |-> t.name,
     locs |-> [q \in 1..Len(t.locs) |-> [name |-> NameOfId(t, t.locs[q].id), inv |-> Txt(InvPool, t.locs[q].inv, ""),
                                         rate |-> Txt(RatePool, t.locs[q].rate, ""), flag |-> t.locs[q].flag]],
     nbps |-> Len(t.bps),
     init |-> IF t.init = "" THEN 0 ELSE Pos([q \in 1..Len(t.locs) |-> t.locs[q].id], t.init),
     trans |-> [q \in 1..Len(t.edges) |-> LET e == t.edges[q] IN
                  [src |-> EndRef(t, e.src), dst |-> EndRef(t, e.dst), control |-> e.ctrl # "false",
                   select |-> IF e.sel = 0 THEN <<>> ELSE SelPool[e.sel].names,
                   seltxt |-> TxtR(SelPool, e.sel, ""),
                   guard |-> TxtR(GuardPool, e.guard, ""), sync |-> Txt(SyncPool, e.sync, ""),
                   assign |-> TxtR(AsgPool, e.asg, ""), prob |-> Txt(ProbPool, e.prob, "")]]]
ExpXml(mm) == [t \in 1..Len(mm.templs) |-> ExpXmlTempl(mm.templs[t])]

(* ---- the writer, on the mirror document d = ExpTempl(t) (names instead of ids; the writer names location k "id<k-1>") *)
WLoc(d, name) == IF \E q \in 1..Len(d.locs) : d.locs[q].name = name
                 THEN <<"loc", CHOOSE q \in 1..Len(d.locs) : d.locs[q].name = name>>
                 ELSE <<"bp", CHOOSE q \in 1..Len(d.bps) : d.bps[q] = name>>          \* XMLWriter::source/target with the branchpoint case
WrittenTempl(d) ==
    [name |-> d.name,
     locs |-> [q \in 1..Len(d.locs) |-> [name |-> d.locs[q].name, inv |-> d.locs[q].inv, rate |-> d.locs[q].rate,
                                         flag |-> IF d.locs[q].committed THEN "committed" ELSE IF d.locs[q].urgent THEN "urgent" ELSE ""]],
     nbps |-> Len(d.bps),
     init |-> IF d.init = "" THEN 0 ELSE CHOOSE q \in 1..Len(d.locs) : d.locs[q].name = d.init,
     trans |-> [q \in 1..Len(d.edges) |-> LET e == d.edges[q] IN
                  [src |-> WLoc(d, e.src), dst |-> WLoc(d, e.dst), control |-> e.control,
                   select |-> e.select, seltxt |-> e.seltxt,
                   guard |-> NonTrivial(e.guard), sync |-> e.sync, assign |-> NonTrivial(e.assign), prob |-> NonTrivial(e.prob)]]]
(* the mirror document carries the select text too (type_t printing is outside the model: the binder type text is the pool's) *)
DocOf(t) == LET d == ExpTempl(t) IN
            [d EXCEPT !.edges = [q \in 1..Len(d.edges) |-> [name2 \in DOMAIN d.edges[q] \cup {"seltxt"} |->
                                   IF name2 = "seltxt" THEN TxtR(SelPool, t.edges[q].sel, "") ELSE d.edges[q][name2]]]]
Written(mm) == [t \in 1..Len(mm.templs) |-> WrittenTempl(DocOf(mm.templs[t]))]

WriterMirrors == phase = "done" => Written(m) = ExpXml(m)
EmitDoneW == phase = "done" => PrintT(<<"EMIT", ToJson([m |-> Resolved(m), exp |-> Expected(m), xml |-> ExpXml(m)])>>)
=============================================================================
