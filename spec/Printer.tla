------------------------------- MODULE Printer -------------------------------
(* Transcription of expression_t::print / get_precedence / embrace / embrace_strict (expression.cpp) on canonical
   Lang trees (C03). Canon(t) is the tree the builder actually stores (keyword aliases resolved, `a imply b` as
   `!a || b`, unary plus dropped). StrT(t) is the token sequence of the text str() produces.
   Spec-level property: Parse(StrT(Canon(t))).out = RPN(Canon(t)) on the extracted grammar. *)
EXTENDS Lang

RECURSIVE Canon(_)
RECURSIVE CanonSeq(_, _)
CanonSeq(s, i) == IF i > Len(s) THEN <<>> ELSE <<Canon(s[i])>> \o CanonSeq(s, i + 1)
Canon(t) ==
    CASE t[1] \in {"id", "nat", "true", "false", "dbl"} -> t
      [] t[1] = "bin" ->
            IF t[2] = "T_KW_IMPLY" THEN <<"bin", "T_BOOL_OR", <<"pre", "T_EXCLAM", Canon(t[3])>>, Canon(t[4])>>
            ELSE <<"bin", (CASE t[2] = "T_KW_AND" -> "T_BOOL_AND" [] t[2] = "T_KW_OR" -> "T_BOOL_OR" [] OTHER -> t[2]), Canon(t[3]), Canon(t[4])>>
      [] t[1] = "pre" -> IF t[2] = "T_PLUS" THEN Canon(t[3])
                         ELSE <<"pre", (IF t[2] = "T_KW_NOT" THEN "T_EXCLAM" ELSE t[2]), Canon(t[3])>>
      [] t[1] = "post" -> <<"post", t[2], Canon(t[3])>>
      [] t[1] = "idx" -> <<"idx", Canon(t[2]), Canon(t[3])>>
      [] t[1] = "dot" -> <<"dot", Canon(t[2]), t[3]>>
      [] t[1] = "call" -> <<"call", Canon(t[2]), CanonSeq(t[3], 1)>>
      [] t[1] = "bf1" -> <<"bf1", t[2], Canon(t[3])>>
      [] t[1] = "bf2" -> <<"bf2", t[2], Canon(t[3]), Canon(t[4])>>
      [] t[1] = "ite" -> <<"ite", Canon(t[2]), Canon(t[3]), Canon(t[4])>>
      [] t[1] = "asg" -> <<"asg", t[2], Canon(t[3]), Canon(t[4])>>
      [] t[1] = "quant" -> <<"quant", t[2], t[3], Canon(t[4])>>

(* expression_t::get_precedence *)
BinPrec == [ T_PLUS |-> 70, T_MINUS |-> 70, T_MULT |-> 80, T_DIV |-> 80, T_MOD |-> 80, T_POWOP |-> 85, AMP |-> 37, T_OR |-> 30,
             T_XOR |-> 35, T_LSHIFT |-> 60, T_RSHIFT |-> 60, T_BOOL_AND |-> 25, T_BOOL_OR |-> 22, T_KW_XOR |-> 20, T_EQ |-> 40,
             T_NEQ |-> 40, T_MIN |-> 55, T_MAX |-> 55, T_LT |-> 50, T_LEQ |-> 50, T_GEQ |-> 50, T_GT |-> 50 ]
PPrec(t) == CASE t[1] \in {"id", "nat", "true", "false", "dbl"} -> 120
              [] t[1] = "bin" -> BinPrec[t[2]]
              [] t[1] = "pre" -> 90
              [] t[1] = "post" -> IF t[2] = "RATE" THEN 100 ELSE 110
              [] t[1] = "idx" -> 105
              [] t[1] = "dot" -> 100
              [] t[1] \in {"call", "bf1", "bf2"} -> 110
              [] t[1] = "ite" -> 15
              [] t[1] = "asg" -> 10
              [] t[1] = "quant" -> 8

RECURSIVE StrT(_)
RECURSIVE PrintArgs(_, _)
PrintArgs(args, i) == IF i > Len(args) THEN <<>>
                      ELSE (IF i > 1 THEN <<P("','")>> ELSE <<>>) \o StrT(args[i]) \o PrintArgs(args, i + 1)
Embrace(c, p) == IF p >= PPrec(c) THEN Paren(StrT(c)) ELSE StrT(c)               \* embrace
EmbraceStrict(c, p) == IF p > PPrec(c) THEN Paren(StrT(c)) ELSE StrT(c)          \* embrace_strict
StrT(t) ==
    CASE t[1] = "id" -> <<Tok("T_ID", 0, t[2])>>
      [] t[1] = "nat" -> <<Tok("T_NAT", t[2], "")>>
      [] t[1] = "true" -> <<P("T_TRUE")>>
      [] t[1] = "false" -> <<P("T_FALSE")>>
      [] t[1] = "dbl" -> <<Tok("T_FLOATING", 0, t[2])>>
      [] t[1] = "bin" -> IF t[2] = "T_KW_XOR" THEN Paren(StrT(t[3])) \o <<P("T_KW_XOR")>> \o Paren(StrT(t[4]))
                         ELSE EmbraceStrict(t[3], PPrec(t)) \o <<P(TokName(t[2]))>> \o Embrace(t[4], PPrec(t))
         \* assignments: right associative; a left operand binding no tighter than an inline-if is parenthesised
      [] t[1] = "asg" -> Embrace(t[3], 15) \o <<P(t[2])>> \o EmbraceStrict(t[4], 10)
      [] t[1] = "pre" -> <<P(t[2])>> \o Embrace(t[3], 90)
      [] t[1] = "post" -> IF t[2] = "RATE" THEN StrT(t[3]) \o <<P("'\\''")>> ELSE Embrace(t[3], 110) \o <<P(t[2])>>
      [] t[1] = "idx" -> EmbraceStrict(t[2], 105) \o <<P("'['")>> \o StrT(t[3]) \o <<P("']'")>>
      [] t[1] = "dot" -> Embrace(t[2], 100) \o <<P("'.'"), Tok("T_ID", 0, t[3])>>
      [] t[1] = "call" -> StrT(t[2]) \o <<P("'('")>> \o PrintArgs(t[3], 1) \o <<P("')'")>>
      [] t[1] = "bf1" -> <<P(t[2]), P("'('")>> \o StrT(t[3]) \o <<P("')'")>>
      [] t[1] = "bf2" -> <<P(t[2]), P("'('")>> \o StrT(t[3]) \o <<P("','")>> \o StrT(t[4]) \o <<P("')'")>>
      [] t[1] = "ite" -> Embrace(t[2], 15) \o <<P("'?'")>> \o Embrace(t[3], 15) \o <<P("':'")>> \o Embrace(t[4], 15)
         \* the binder's type is printed in source syntax (type_t::declaration() without the implicit const)
      [] t[1] = "quant" -> <<P(t[2]), P("'('"), Tok("T_ID", 0, t[3]), P("':'")>> \o BinderType \o <<P("')'")>> \o StrT(t[4])
=============================================================================
