---------------------------- MODULE BuilderDepth ----------------------------
(* Stack discipline of ExpressionBuilder / StatementBuilder / DocumentBuilder at the granularity of depths: for every
   ParserBuilder callback the number of expression fragments and type fragments it needs, and what it leaves behind
   (ExpressionBuilder.cpp, StatementBuilder.cpp, DocumentBuilder.cpp). The callbacks do not check what they pop
   (fragments[k] indexes from the top of a std::vector), so a callback that needs more than is there reads out of
   bounds: Underflow. Frames: scopes pushed/popped.                                                                *)
EXTENDS Integers, Sequences, LRBase

E(nf, df, nt, dt, dfr) == [nf |-> nf, df |-> df, nt |-> nt, dt |-> dt, dfr |-> dfr]
Push1 == {"expr_true", "expr_false", "expr_double", "expr_string", "expr_nat", "expr_deadlock", "expr_exit", "expr_identifier", "chan_priority_default", "expr_scenario"}
Unary == {"expr_unary", "expr_post_increment", "expr_pre_increment", "expr_post_decrement", "expr_pre_decrement", "expr_dot", "expr_builtin_function1",
          "expr_MITL_formula", "expr_MITL_next", "expr_MITL_atom", "expr_MITL_diamond", "expr_MITL_box", "expr_numof", "expr_location"}
Binary == {"expr_binary", "expr_assignment", "expr_comma", "expr_array", "expr_builtin_function2", "expr_MITL_until", "expr_MITL_release", "expr_MITL_disj", "expr_MITL_conj"}
Pop1 == {"proc_guard", "proc_sync", "proc_update", "proc_prob", "before_update", "after_update",
         "chan_priority_begin", "chan_priority_add", "expr_statement", "assert_statement", "while_end", "do_while_end"}
ScopeIn == {"proc_begin", "proc_edge_begin", "instantiation_begin", "block_begin", "instance_name_begin", "gantt_decl_begin", "gantt_entry_begin"}
ScopeOut == {"proc_end", "proc_edge_end", "block_end", "decl_func_end"}
TypePush == {"type_int", "type_bool", "type_double", "type_clock", "type_channel", "type_void", "type_string", "type_name"}
QBegin == {"expr_forall_begin", "expr_exists_begin", "expr_sum_begin"}
QEnd == {"expr_forall_end", "expr_exists_end", "expr_sum_end"}
Neutral == {"expr_call_begin", "handle_error", "handle_warning", "done", "process_list_end", "if_begin", "if_condition", "if_then", "query_begin", "query_end",
            "proc_priority_inc", "empty_statement", "proc_location_commit", "proc_location_urgent", "proc_location_init", "proc_branchpoint", "proc_priority", "process",
            "query_formula", "query_comment", "query_options", "model_option", "decl_dynamic_template", "dynamic_load_lib", "decl_field_init", "proc_instance_line",
            "instance_name", "prechart_set", "expectation_begin", "expectation_end", "expectation_value", "expect_resource", "for_begin", "while_begin", "do_while_begin",
            "struct_field_done", "set_position", "add_position"}

Known(cb) == cb \in Push1 \cup Unary \cup Binary \cup Pop1 \cup TypePush \cup QBegin \cup QEnd \cup Neutral \cup ScopeIn \cup ScopeOut \cup
             {"expr_call_end", "expr_inline_if", "expr_builtin_function3", "expr_nary", "expr_ternary", "type_bounded_int", "type_scalar", "type_duplicate",
              "type_pop", "proc_select", "type_array_of_size", "type_array_of_type", "decl_var", "decl_parameter", "decl_typedef", "proc_location",
              "decl_func_begin", "decl_external_func", "decl_init_list", "if_end", "return_statement", "instantiation_end", "proc_message", "proc_condition",
              "proc_LSC_update", "type_struct", "struct_field", "iteration_begin", "iteration_end", "for_end", "instance_name_end", "expr_spawn",
              "gantt_decl_select", "gantt_entry_select", "gantt_decl_end", "gantt_entry_end", "decl_progress"}

(* a: sequence of argument values [n, s] as LR.tla passes them *)
Eff(cb, a) ==
    CASE cb \in Push1 -> E(0, 1, 0, 0, 0)
      [] cb \in Unary -> E(1, 0, 0, 0, 0)
      [] cb \in Binary -> E(2, -1, 0, 0, 0)
      [] cb \in Pop1 -> E(1, -1, 0, 0, 0)
      [] cb \in TypePush -> E(0, 0, 0, 1, 0)
      [] cb \in QBegin -> E(0, 0, 1, -1, 1)
      [] cb \in QEnd -> E(1, 0, 0, 0, -1)
      [] cb \in Neutral -> E(0, 0, 0, 0, 0)
      [] cb \in ScopeIn -> E(0, 0, 0, 0, 1)
      [] cb \in ScopeOut -> E(0, 0, 0, 0, -1)
      [] cb = "decl_func_begin" -> E(0, 0, 1, -1, 1)              \* return type popped, parameter scope pushed
      [] cb = "decl_external_func" -> E(0, 0, 1, -1, 0)
      [] cb = "decl_init_list" -> E(a[1].n, 1 - a[1].n, 0, 0, 0)
      [] cb = "if_end" -> E(1, -1, 0, 0, 0)
      [] cb = "for_end" -> E(3, -3, 0, 0, 0)
      [] cb = "return_statement" -> IF a[1].s = "true" THEN E(1, -1, 0, 0, 0) ELSE E(0, 0, 0, 0, 0)
      [] cb = "instantiation_end" -> E(a[4].n, 0 - a[4].n, 0, 0, -1)
      [] cb = "instance_name_end" -> E(a[2].n, 0 - a[2].n, 0, 0, -1)
      [] cb \in {"proc_message", "proc_condition", "proc_LSC_update"} -> IF Len(a) <= 1 THEN E(1, -1, 0, 0, 0) ELSE E(0, 0, 0, 0, 0)     \* the label overload pops its expression
      [] cb = "type_struct" -> E(0, 0, 0, 1, 0)
      [] cb = "struct_field" -> E(0, 0, 1, -1, 0)
      [] cb = "iteration_begin" -> E(0, 0, 1, -1, 1)
      [] cb = "iteration_end" -> E(0, 0, 0, 0, -1)
      [] cb = "expr_spawn" -> E(a[1].n + 1, 0 - a[1].n, 0, 0, 0)
      [] cb = "expr_call_end" -> E(a[1].n + 1, 0 - a[1].n, 0, 0, 0)
      [] cb = "expr_inline_if" -> E(3, -2, 0, 0, 0)
      [] cb = "expr_builtin_function3" -> E(3, -2, 0, 0, 0)
      [] cb = "expr_nary" -> E(a[2].n, 1 - a[2].n, 0, 0, 0)
      [] cb = "expr_ternary" -> IF a[2].s = "true" THEN E(2, -1, 0, 0, 0) ELSE E(3, -2, 0, 0, 0)
      [] cb = "type_bounded_int" -> E(2, -2, 0, 1, 0)
      [] cb = "type_scalar" -> E(1, -1, 0, 1, 0)
      [] cb = "type_duplicate" -> E(0, 0, 1, 1, 0)
      [] cb = "type_pop" -> E(0, 0, 1, -1, 0)
      [] cb \in {"proc_select", "gantt_decl_select", "gantt_entry_select"} -> E(0, 0, 1, -1, 0)      \* addSelectSymbolToFrame takes the binder's type
      [] cb = "gantt_decl_end" -> E(0, 0, 0, 0, -1)
      [] cb = "gantt_entry_end" -> E(2, -2, 0, 0, -1)                                                 \* predicate and mapping
      [] cb = "decl_progress" -> IF a[1].s = "true" THEN E(2, -2, 0, 0, 0) ELSE E(1, -1, 0, 0, 0)      \* measure, and the guard if there is one
      [] cb = "type_array_of_size" -> E(1, -1, 1, 0, 0)
      [] cb = "type_array_of_type" -> E(0, 0, 2, -1, 0)
      [] cb = "decl_var" -> IF a[2].s = "true" THEN E(1, -1, 1, -1, 0) ELSE E(0, 0, 1, -1, 0)    \* every declarator is preceded by type_duplicate and pops its copy
      [] cb = "decl_parameter" -> E(0, 0, 1, -1, 0)
      [] cb = "decl_typedef" -> E(0, 0, 1, -1, 0)
      [] cb = "proc_location" -> E((IF a[2].s = "true" THEN 1 ELSE 0) + (IF a[3].s = "true" THEN 1 ELSE 0),
                                   0 - ((IF a[2].s = "true" THEN 1 ELSE 0) + (IF a[3].s = "true" THEN 1 ELSE 0)), 0, 0, 0)

D0 == [f |-> 0, t |-> 0, fr |-> 0, under |-> FALSE, unknown |-> ""]
StepD(d, ev) ==
    IF ~Known(ev.cb) THEN [d EXCEPT !.unknown = ev.cb]
    ELSE LET e == Eff(ev.cb, ev.a) IN
         [d EXCEPT !.f = @ + e.df, !.t = @ + e.dt, !.fr = @ + e.dfr, !.under = @ \/ d.f < e.nf \/ d.t < e.nt]
RECURSIVE RunD(_, _, _)
RunD(d, out, i) == IF i > Len(out) THEN d ELSE RunD(StepD(d, out[i]), out, i + 1)
Depths(out) == RunD(D0, out, 1)
=============================================================================
