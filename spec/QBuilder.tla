------------------------------ MODULE QBuilder ------------------------------
(* C15 (and the memory part of C01): the query builder is an OBJECT that lives across parsing calls. A client that checks the
   queries of a model makes one TigaPropertyBuilder and hands it every query in turn (PropertyBuilder::parse(buf, xpath,
   options) is written for exactly that: it looks whether the call appended a property); the document it reads is shared
   as well, and the client clears its error list after it has reported a query's diagnostics.

   State of the object (include/utap/property.h, src/property.cpp):
     props  - the list of properties built so far; entries are referred to by their index. `live` is the set of indices
              that still exist (PropertyBuilder::clear() empties the list; indices are never reused here, as addresses of
              freed list nodes are not to be relied on)
     decls  - TigaPropertyBuilder::declarations: strategy name -> property (pointer into the list)
     subj   - TigaPropertyBuilder::subjections: the `under S` clauses collected for the query being parsed
     imit   - TigaPropertyBuilder::_imitation: the `imitate S` clause collected for the query being parsed
     frames - ExpressionBuilder::frames beyond the frame of the document: the bound variables of quantifiers whose body is
              being parsed

   A query is a sequence of builder callbacks in the order the grammar makes them:
     ... expression callbacks ... subjection(S)* imitation(S)? property() strategy_declaration(S)?
   and it can end early: a syntax error after the clauses (the parser reports through handle_error and stops), a type error
   in the formula (property() returns before it creates a property), an exception thrown by property().

   The constants say which of the resets the code performs; with all of them TRUE the two properties below hold, and each
   FALSE has a counterexample that TLC finds and that the conformance harness replays on the real builder:
     ResetImit      typeProperty() sets _imitation = nullptr after it has handed the clauses to the new property
     ResetOnFail    the clauses are dropped when the query ends without a property (error reported / property() left early)
     ClearDecls     clear() forgets the declarations (they point into the list it empties)
     DeclNeedsProperty  strategy_declaration(S), which the grammar calls after property(), binds S only when that call
                    created a property (FALSE: it binds S to whatever is last in the list - the property of an EARLIER
                    query, or the end of an empty list)

     FramesRestored every query starts with the scope stack the builder was constructed with (FALSE, the code: a syntax
                    error inside the body of forall/exists/sum leaves the frame of the bound variable on the stack of the
                    ExpressionBuilder, and later queries resolve names in it)

   IndependentOfOtherQueries: the property a query yields is the one it yields on a builder that has seen only the
     strategy declarations that are in force (declarations are the one thing a query legitimately leaves behind).
   NoDangling: nothing reachable from the builder or from a property it has handed out refers to a property that no
     longer exists.
   DeclsAreDeclarations: a declared name refers to the property of a query that declared it.                                                                                                   *)
EXTENDS Integers, Sequences, FiniteSets, TLC, Json

CONSTANTS MaxQueries, ResetImit, ResetOnFail, ClearDecls, DeclNeedsProperty, FramesRestored

Names == {"S", "F"}
None == "-"

(* the query forms: what is declared, which clauses, how it ends *)
Forms == [ plain      |-> [decl |-> None, under |-> <<>>,        imit |-> None, end |-> "ok"],
           declS      |-> [decl |-> "S",  under |-> <<>>,        imit |-> None, end |-> "ok"],
           declF      |-> [decl |-> "F",  under |-> <<>>,        imit |-> None, end |-> "ok"],
           declSerr   |-> [decl |-> "S",  under |-> <<>>,        imit |-> None, end |-> "type"],    \* `strategy S = control: A[] nosuch`
           declFunderS |-> [decl |-> "F", under |-> <<"S">>,     imit |-> None, end |-> "ok"],
           underS     |-> [decl |-> None, under |-> <<"S">>,     imit |-> None, end |-> "ok"],
           underF     |-> [decl |-> None, under |-> <<"F">>,     imit |-> None, end |-> "ok"],
           cmpSF      |-> [decl |-> None, under |-> <<"S", "F">>, imit |-> None, end |-> "ok"],      \* Pr(..) under S >= Pr(..) under F
           imitSF     |-> [decl |-> None, under |-> <<"S">>,     imit |-> "F",  end |-> "ok"],      \* maxE(..) under S imitate F
           imitF      |-> [decl |-> None, under |-> <<>>,        imit |-> "F",  end |-> "ok"],
           synerrS    |-> [decl |-> None, under |-> <<"S">>,     imit |-> None, end |-> "syntax"],  \* `.. under S imitate 3`: the clause is collected, then the parser stops (after `imitate F` there
                                                                                                 \* is no such window: the production is reduced, property() runs, before the next token is looked at)
           typerrS    |-> [decl |-> None, under |-> <<"S">>,     imit |-> None, end |-> "type"],    \* `E<> nosuch under S`: property() returns before it creates anything
           typerrSF   |-> [decl |-> None, under |-> <<"S">>,     imit |-> "F",  end |-> "type"],
           throwS     |-> [decl |-> None, under |-> <<"S">>,     imit |-> None, end |-> "throw"],   \* `A<> deadlock under S`: property() throws
           quantq     |-> [decl |-> None, under |-> <<>>,        imit |-> None, end |-> "ok"],      \* `E<> forall (q : int[0,1]) arr[q] > 0`
           usesq      |-> [decl |-> None, under |-> <<>>,        imit |-> None, end |-> "ok"],      \* `E<> q > 0` - no q is declared: a type error unless a frame with q is on the stack
           synerrQ    |-> [decl |-> None, under |-> <<>>,        imit |-> None, end |-> "syntax"],  \* `E<> forall (q : int[0,1]) arr[q] +` - the parser stops inside the body
           clear      |-> [decl |-> None, under |-> <<>>,        imit |-> None, end |-> "clear"] ]  \* not a query: PropertyBuilder::clear()
Kinds == DOMAIN Forms

ScopeT == [usesq |-> [uses |-> "q", leaves |-> ""], synerrQ |-> [uses |-> "", leaves |-> "q"]]
ScopeOf(k) == IF k \in DOMAIN ScopeT THEN ScopeT[k] ELSE [uses |-> "", leaves |-> ""]
NoRef == [n |-> None, p |-> 0]
B0 == [next |-> 1, live |-> {}, made |-> {}, decls |-> [n \in Names |-> 0], subj |-> <<>>, imit |-> NoRef, frames |-> <<>>]

(* one query on builder b: -> [b, res]; res = what the call hands to the client *)
RECURSIVE Collect(_, _, _, _)
Collect(b, names, i, errs) ==                                     \* subjection(name): look the name up, or report
    IF i > Len(names) THEN [b |-> b, errs |-> errs]
    ELSE LET p == b.decls[names[i]] IN
         IF p = 0 THEN Collect(IF ResetOnFail THEN [b EXCEPT !.subj = <<>>, !.imit = NoRef] ELSE b, names, i + 1, Append(errs, "undeclared " \o names[i]))
         ELSE Collect([b EXCEPT !.subj = Append(@, [n |-> names[i], p |-> p])], names, i + 1, errs)
Drop(b) == IF ResetOnFail THEN [b EXCEPT !.subj = <<>>, !.imit = NoRef] ELSE b
(* a query that created no property: strategy_declaration() still runs when the query was a declaration and the parser got to its end *)
Garbage == -1
Failed(b, f) == IF f.decl = None \/ f.end = "syntax" \/ DeclNeedsProperty THEN Drop(b)
                ELSE [Drop(b) EXCEPT !.decls[f.decl] = IF b.next - 1 \in b.live THEN b.next - 1 ELSE Garbage]
Core(f, b) ==
    IF f.end = "clear"
    THEN [b |-> [b EXCEPT !.live = {}, !.decls = IF ClearDecls THEN [n \in Names |-> 0] ELSE @,
                          !.subj = IF ClearDecls THEN <<>> ELSE @, !.imit = IF ClearDecls THEN NoRef ELSE @],
          res |-> [prop |-> 0, subj |-> <<>>, imit |-> NoRef, errs |-> <<>>, decl |-> None]]
    ELSE
    LET c == Collect(b, f.under, 1, <<>>)
        b1 == c.b
        ip == IF f.imit = None THEN 0 ELSE b1.decls[f.imit]
        b2 == IF f.imit = None THEN b1
              ELSE IF ip = 0 THEN Drop(b1) ELSE [b1 EXCEPT !.imit = [n |-> f.imit, p |-> ip]]
        errs2 == IF f.imit # None /\ ip = 0 THEN Append(c.errs, "undeclared " \o f.imit) ELSE c.errs
    IN  IF f.end = "syntax" THEN [b |-> Failed(b2, f), res |-> [prop |-> 0, subj |-> <<>>, imit |-> NoRef, errs |-> Append(errs2, "syntax"), decl |-> None]]
        ELSE IF f.end = "type" \/ errs2 # <<>> THEN [b |-> Failed(b2, f), res |-> [prop |-> 0, subj |-> <<>>, imit |-> NoRef, errs |-> IF f.end = "type" THEN Append(errs2, "type") ELSE errs2, decl |-> None]]
        ELSE IF f.end = "throw" THEN [b |-> Failed(b2, f), res |-> [prop |-> 0, subj |-> <<>>, imit |-> NoRef, errs |-> Append(errs2, "throw"), decl |-> None]]
        ELSE LET p == b2.next                                   \* property(): the new entry takes the collected clauses
                 b3 == [b2 EXCEPT !.next = @ + 1, !.live = @ \cup {p}, !.made = IF f.decl = None THEN @ ELSE @ \cup {<<p, f.decl>>}, !.subj = <<>>, !.imit = IF ResetImit THEN NoRef ELSE @,
                                  !.decls = IF f.decl = None THEN @ ELSE [@ EXCEPT ![f.decl] = p]]
             IN [b |-> b3, res |-> [prop |-> p, subj |-> b2.subj, imit |-> b2.imit, errs |-> <<>>, decl |-> f.decl]]

Query(k, b) ==
    LET bb == IF FramesRestored THEN [b EXCEPT !.frames = <<>>] ELSE b
        sc == ScopeOf(k)
        f == IF sc.uses # "" /\ sc.uses \notin {bb.frames[i] : i \in DOMAIN bb.frames} THEN [Forms[k] EXCEPT !.end = "type"] ELSE Forms[k]
        q == Core(f, bb)
    IN [b |-> [q.b EXCEPT !.frames = IF sc.leaves = "" THEN @ ELSE Append(@, sc.leaves)], res |-> q.res]

VARIABLES b, hist, last, handed
vars == <<b, hist, last, handed>>
Init == b = B0 /\ hist = <<>> /\ last = [kind |-> "", before |-> B0] /\ handed = {}
Next == /\ Len(hist) < MaxQueries
        /\ \E k \in Kinds : LET q == Query(k, b) IN
              /\ b' = q.b
              /\ hist' = Append(hist, k)
              /\ last' = [kind |-> k, before |-> b]
              /\ handed' = IF Forms[k].end = "clear" THEN {} ELSE handed \cup (IF q.res.prop = 0 THEN {} ELSE {q.res})      \* clear() destroys what was handed out, the client knows that
Spec == Init /\ [][Next]_vars

(* the reference builder: only the declarations in force, nothing pending *)
Reference(bb) == [bb EXCEPT !.subj = <<>>, !.imit = NoRef, !.frames = <<>>]
Observable(r) == [has |-> r.prop # 0, subj |-> [i \in DOMAIN r.subj |-> r.subj[i].n], imit |-> r.imit.n, errs |-> r.errs, decl |-> r.decl]
IndependentOfOtherQueries ==
    last.kind # "" => Observable(Query(last.kind, last.before).res) = Observable(Query(last.kind, Reference(last.before)).res)
Refs == {b.decls[n] : n \in Names} \cup {b.subj[i].p : i \in DOMAIN b.subj} \cup {b.imit.p}
        \cup UNION {{r.subj[i].p : i \in DOMAIN r.subj} \cup {r.imit.p} : r \in handed}
NoDangling == \A p \in Refs : p = 0 \/ p \in b.live
DeclsAreDeclarations == \A n \in Names : b.decls[n] # 0 => <<b.decls[n], n>> \in b.made

(* which of the things a query may leave behind makes the difference *)
Why == IF last.kind = "" THEN {} ELSE
       {w \in {"subj", "imit", "frames"} :
           Observable(Query(last.kind, [Reference(last.before) EXCEPT ![w] = last.before[w]]).res) # Observable(Query(last.kind, Reference(last.before)).res)}
(* for the harness: the declarations in force before the last query (name -> index of the query of the history that made it) *)
EmitHist == PrintT(<<"EMIT", ToJson([h |-> hist, indep |-> IndependentOfOtherQueries, dangling |-> ~NoDangling, why |-> Why,
                                     res |-> IF last.kind = "" THEN [has |-> FALSE] ELSE Observable(Query(last.kind, last.before).res),
                                     uses_dead |-> IF last.kind = "" THEN FALSE
                                                   ELSE LET r == Query(last.kind, last.before).res IN
                                                        \E p \in {r.subj[i].p : i \in DOMAIN r.subj} \cup {r.imit.p} : p # 0 /\ p \notin b.live])>>)
View == <<b, handed, last, Len(hist)>>
=============================================================================
