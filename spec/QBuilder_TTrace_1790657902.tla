---- MODULE QBuilder_TTrace_1790657902 ----
EXTENDS QBuilder, Sequences, TLCExt, Toolbox, Naturals, TLC

_expression ==
    LET QBuilder_TEExpression == INSTANCE QBuilder_TEExpression
    IN QBuilder_TEExpression!expression
----

_trace ==
    LET QBuilder_TETrace == INSTANCE QBuilder_TETrace
    IN QBuilder_TETrace!trace
----

_inv ==
    ~(
        TLCGet("level") = Len(_TETrace)
        /\
        b = ([imit |-> [n |-> "-", p |-> 0], next |-> 2, live |-> {1}, made |-> {}, decls |-> [S |-> 0, F |-> 0], subj |-> <<>>, frames |-> <<"q">>])
        /\
        hist = (<<"synerrQ", "usesq">>)
        /\
        last = ([kind |-> "usesq", before |-> [imit |-> [n |-> "-", p |-> 0], next |-> 1, live |-> {}, made |-> {}, decls |-> [S |-> 0, F |-> 0], subj |-> <<>>, frames |-> <<"q">>]])
        /\
        handed = ({[decl |-> "-", imit |-> [n |-> "-", p |-> 0], subj |-> <<>>, errs |-> <<>>, prop |-> 1]})
    )
----

_init ==
    /\ handed = _TETrace[1].handed
    /\ b = _TETrace[1].b
    /\ hist = _TETrace[1].hist
    /\ last = _TETrace[1].last
----

_next ==
    /\ \E i,j \in DOMAIN _TETrace:
        /\ \/ /\ j = i + 1
              /\ i = TLCGet("level")
        /\ handed  = _TETrace[i].handed
        /\ handed' = _TETrace[j].handed
        /\ b  = _TETrace[i].b
        /\ b' = _TETrace[j].b
        /\ hist  = _TETrace[i].hist
        /\ hist' = _TETrace[j].hist
        /\ last  = _TETrace[i].last
        /\ last' = _TETrace[j].last

\* Uncomment the ASSUME below to write the states of the error trace
\* to the given file in Json format. Note that you can pass any tuple
\* to `JsonSerialize`. For example, a sub-sequence of _TETrace.
    \* ASSUME
    \*     LET J == INSTANCE Json
    \*         IN J!JsonSerialize("QBuilder_TTrace_1790657902.json", _TETrace)

=============================================================================

 Note that you can extract this module `QBuilder_TEExpression`
  to a dedicated file to reuse `expression` (the module in the 
  dedicated `QBuilder_TEExpression.tla` file takes precedence 
  over the module `QBuilder_TEExpression` below).

---- MODULE QBuilder_TEExpression ----
EXTENDS QBuilder, Sequences, TLCExt, Toolbox, Naturals, TLC

expression == 
    [
        \* To hide variables of the `QBuilder` spec from the error trace,
        \* remove the variables below.  The trace will be written in the order
        \* of the fields of this record.
        handed |-> handed
        ,b |-> b
        ,hist |-> hist
        ,last |-> last
        
        \* Put additional constant-, state-, and action-level expressions here:
        \* ,_stateNumber |-> _TEPosition
        \* ,_handedUnchanged |-> handed = handed'
        
        \* Format the `handed` variable as Json value.
        \* ,_handedJson |->
        \*     LET J == INSTANCE Json
        \*     IN J!ToJson(handed)
        
        \* Lastly, you may build expressions over arbitrary sets of states by
        \* leveraging the _TETrace operator.  For example, this is how to
        \* count the number of times a spec variable changed up to the current
        \* state in the trace.
        \* ,_handedModCount |->
        \*     LET F[s \in DOMAIN _TETrace] ==
        \*         IF s = 1 THEN 0
        \*         ELSE IF _TETrace[s].handed # _TETrace[s-1].handed
        \*             THEN 1 + F[s-1] ELSE F[s-1]
        \*     IN F[_TEPosition - 1]
    ]

=============================================================================



Parsing and semantic processing can take forever if the trace below is long.
 In this case, it is advised to uncomment the module below to deserialize the
 trace from a generated binary file.

\*
\*---- MODULE QBuilder_TETrace ----
\*EXTENDS QBuilder, IOUtils, TLC
\*
\*trace == IODeserialize("QBuilder_TTrace_1790657902.bin", TRUE)
\*
\*=============================================================================
\*

---- MODULE QBuilder_TETrace ----
EXTENDS QBuilder, TLC

trace == 
    <<
    ([b |-> [imit |-> [n |-> "-", p |-> 0], next |-> 1, live |-> {}, made |-> {}, decls |-> [S |-> 0, F |-> 0], subj |-> <<>>, frames |-> <<>>],hist |-> <<>>,last |-> [kind |-> "", before |-> [imit |-> [n |-> "-", p |-> 0], next |-> 1, live |-> {}, made |-> {}, decls |-> [S |-> 0, F |-> 0], subj |-> <<>>, frames |-> <<>>]],handed |-> {}]),
    ([b |-> [imit |-> [n |-> "-", p |-> 0], next |-> 1, live |-> {}, made |-> {}, decls |-> [S |-> 0, F |-> 0], subj |-> <<>>, frames |-> <<"q">>],hist |-> <<"synerrQ">>,last |-> [kind |-> "synerrQ", before |-> [imit |-> [n |-> "-", p |-> 0], next |-> 1, live |-> {}, made |-> {}, decls |-> [S |-> 0, F |-> 0], subj |-> <<>>, frames |-> <<>>]],handed |-> {}]),
    ([b |-> [imit |-> [n |-> "-", p |-> 0], next |-> 2, live |-> {1}, made |-> {}, decls |-> [S |-> 0, F |-> 0], subj |-> <<>>, frames |-> <<"q">>],hist |-> <<"synerrQ", "usesq">>,last |-> [kind |-> "usesq", before |-> [imit |-> [n |-> "-", p |-> 0], next |-> 1, live |-> {}, made |-> {}, decls |-> [S |-> 0, F |-> 0], subj |-> <<>>, frames |-> <<"q">>]],handed |-> {[decl |-> "-", imit |-> [n |-> "-", p |-> 0], subj |-> <<>>, errs |-> <<>>, prop |-> 1]}])
    >>
----


=============================================================================

---- CONFIG QBuilder_TTrace_1790657902 ----
CONSTANTS
    MaxQueries = 4
    ResetImit = TRUE
    ResetOnFail = TRUE
    ClearDecls = TRUE
    DeclNeedsProperty = TRUE
    FramesRestored = FALSE

INVARIANT
    _inv

CHECK_DEADLOCK
    \* CHECK_DEADLOCK off because of PROPERTY or INVARIANT above.
    FALSE

INIT
    _init

NEXT
    _next

CONSTANT
    _TETrace <- _trace

ALIAS
    _expression
=============================================================================
\* Generated on Tue Sep 29 04:58:23 UTC 2026