------------------------------ MODULE ExprHeap ------------------------------
(* C19: expression_t is a handle on a reference-counted node [kind, value, symbol, sub]; nodes are shared between handles.
   The operations as expression.cpp implements them, on an explicit heap:
     Clone(h)        new node, same fields, SAME child nodes (shallow)
     CloneDeeper(h)  new nodes for the whole tree
     Subst(h, s, x)  x itself where h is IDENTIFIER(s); h itself for other leaves; otherwise a shallow clone whose children
                     are the substituted children (unchanged subtrees stay shared with the original)
     SetChild(h,i,x) h[i] = x : assignment through the non-const accessor, visible to every handle that reaches the node
     Child(h, i)     a further handle on the i-th child node (what the const accessors hand out): later changes through it are
                     changes at depth >= 2 of every tree that contains the node
   Laws (invariants / step properties): a deep clone is structurally equal and shares no node; a mutation is visible exactly
   to the handles that reach the mutated node (so never to a deep clone made before); Subst builds the tree in which exactly
   the IDENTIFIER(s) leaves are replaced, leaves the receiver's tree unchanged, and is the identity for x = IDENTIFIER(s);
   Equal is an equivalence, implies equal text, and separates trees that differ in kind, operand order, symbol or value;
   Arity: the number of children of a node is the size of sub.  The explored behaviours are exported for replay.       *)
EXTENDS Integers, Sequences, FiniteSets, TLC, Json, SequencesExt

CONSTANTS MaxOps, MaxNodes, MaxHandles
Syms == {"i", "z"}
N(k, v, s, sub) == [k |-> k, v |-> v, s |-> s, sub |-> sub]

(* initial heaps: node 1 is the root of handle 1; several shapes incl. quantifier binder, member access, synchronisation, n-ary list *)
InitHeaps == {
  <<N("PLUS", 0, "", <<2, 3>>), N("IDENTIFIER", 0, "i", <<>>), N("CONSTANT", 1, "", <<>>)>>,                              \* i + 1
  <<N("FORALL", 0, "", <<2, 3>>), N("IDENTIFIER", 0, "i", <<>>), N("LT", 0, "", <<4, 5>>), N("IDENTIFIER", 0, "i", <<>>), N("IDENTIFIER", 0, "z", <<>>)>>,   \* forall (i) i < z
  <<N("LT", 0, "", <<2, 3>>), N("DOT", 0, "", <<4>>), N("CONSTANT", 2, "", <<>>), N("IDENTIFIER", 0, "z", <<>>)>>,             \* z.f0 < 2
  <<N("SYNC", 1, "", <<2>>), N("IDENTIFIER", 0, "i", <<>>)>>,                                                             \* i!
  <<N("LIST", 2, "", <<2, 2>>), N("IDENTIFIER", 0, "i", <<>>)>> }                                                         \* {i, i} : one node used twice

VARIABLES heap, hs, hist, ok, h0
vars == <<heap, hs, hist, ok, h0>>

RECURSIVE Tree(_, _)
Tree(hp, n) == [k |-> hp[n].k, v |-> hp[n].v, s |-> hp[n].s, c |-> [q \in 1..Len(hp[n].sub) |-> Tree(hp, hp[n].sub[q])]]
RECURSIVE Reach(_, _)
Reach(hp, n) == {n} \cup UNION {Reach(hp, hp[n].sub[q]) : q \in 1..Len(hp[n].sub)}
RECURSIVE SubstTree(_, _, _)
SubstTree(t, s, x) == IF t.k = "IDENTIFIER" /\ t.s = s THEN x ELSE [t EXCEPT !.c = [q \in 1..Len(t.c) |-> SubstTree(t.c[q], s, x)]]

Init == /\ heap \in InitHeaps /\ hs = <<1>> /\ hist = <<>> /\ ok = TRUE /\ h0 = heap

(* clone_deeper: returns [heap, root] *)
RECURSIVE Deep(_, _)
Deep(hp, n) ==
    LET F[q \in 0..Len(hp[n].sub)] == IF q = 0 THEN [hp |-> hp, subs |-> <<>>]
                                       ELSE LET r == Deep(F[q - 1].hp, hp[n].sub[q]) IN [hp |-> r.hp, subs |-> Append(F[q - 1].subs, r.root)]
        done == F[Len(hp[n].sub)]
    IN [hp |-> Append(done.hp, [hp[n] EXCEPT !.sub = done.subs]), root |-> Len(done.hp) + 1]
RECURSIVE Sub(_, _, _, _)
Sub(hp, n, s, x) ==
    IF hp[n].k = "IDENTIFIER" /\ hp[n].s = s THEN [hp |-> hp, root |-> x]
    ELSE IF hp[n].sub = <<>> THEN [hp |-> hp, root |-> n]
    ELSE LET F[q \in 0..Len(hp[n].sub)] == IF q = 0 THEN [hp |-> hp, subs |-> <<>>]
                                           ELSE LET r == Sub(F[q - 1].hp, hp[n].sub[q], s, x) IN [hp |-> r.hp, subs |-> Append(F[q - 1].subs, r.root)]
             done == F[Len(hp[n].sub)]
         IN [hp |-> Append(done.hp, [hp[n] EXCEPT !.sub = done.subs]), root |-> Len(done.hp) + 1]

Room == Len(hist) < MaxOps /\ Len(heap) < MaxNodes
CloneA == Room /\ \E h \in 1..Len(hs) :
            /\ heap' = Append(heap, heap[hs[h]]) /\ hs' = Append(hs, Len(heap) + 1) /\ hist' = Append(hist, [op |-> "clone", h |-> h, i |-> 0, x |-> 0, s |-> ""])
            /\ ok' = (ok /\ Tree(heap', Len(heap) + 1) = Tree(heap, hs[h]))
DeepA == Room /\ \E h \in 1..Len(hs) :
            LET r == Deep(heap, hs[h]) IN
            /\ heap' = r.hp /\ hs' = Append(hs, r.root) /\ hist' = Append(hist, [op |-> "clone_deeper", h |-> h, i |-> 0, x |-> 0, s |-> ""])
            /\ ok' = (ok /\ Tree(r.hp, r.root) = Tree(heap, hs[h])                                           \* structurally equal
                         /\ \A g \in 1..Len(hs) : Reach(r.hp, r.root) \cap Reach(r.hp, hs[g]) = {})          \* shares no node with anything that existed
SubstA == Room /\ \E h \in 1..Len(hs), s \in Syms, x \in 1..Len(hs) :
            LET r == Sub(heap, hs[h], s, hs[x]) IN
            /\ heap' = r.hp /\ hs' = Append(hs, r.root) /\ hist' = Append(hist, [op |-> "subst", h |-> h, i |-> 0, x |-> x, s |-> s])
            /\ ok' = (ok /\ Tree(r.hp, r.root) = SubstTree(Tree(heap, hs[h]), s, Tree(heap, hs[x]))          \* exactly the IDENTIFIER(s) leaves
                         /\ Tree(r.hp, hs[h]) = Tree(heap, hs[h]))                                           \* the receiver is unchanged
SetChildA == Len(hist) < MaxOps /\ \E h \in 1..Len(hs), x \in 1..Len(hs) :
            /\ heap[hs[h]].sub # <<>> /\ hs[h] \notin Reach(heap, hs[x])                                     \* no cycles
            /\ \E i \in 1..Len(heap[hs[h]].sub) :
                 /\ heap' = [heap EXCEPT ![hs[h]].sub[i] = hs[x]] /\ hs' = hs /\ hist' = Append(hist, [op |-> "set_child", h |-> h, i |-> i, x |-> x, s |-> ""])
                 /\ ok' = (ok /\ \A g \in 1..Len(hs) : hs[h] \notin Reach(heap, hs[g]) => Tree(heap', hs[g]) = Tree(heap, hs[g]))   \* invisible to whoever does not reach the node
ChildA == Len(hist) < MaxOps /\ Len(hs) < MaxHandles /\ \E h \in 1..Len(hs) :
            /\ heap[hs[h]].sub # <<>>
            /\ \E i \in 1..Len(heap[hs[h]].sub) :
                 /\ heap' = heap /\ hs' = Append(hs, heap[hs[h]].sub[i]) /\ hist' = Append(hist, [op |-> "child", h |-> h, i |-> i, x |-> 0, s |-> ""])
                 /\ ok' = (ok /\ Tree(heap, heap[hs[h]].sub[i]) = Tree(heap, hs[h]).c[i])
(* one disjunct per operation, so that TLC's coverage report counts each of them *)
CloneN == CloneA /\ UNCHANGED h0
DeepN == DeepA /\ UNCHANGED h0
SubstN == SubstA /\ UNCHANGED h0
SetChildN == SetChildA /\ UNCHANGED h0
ChildN == ChildA /\ UNCHANGED h0
Next == CloneN \/ DeepN \/ SubstN \/ SetChildN \/ ChildN
Spec == Init /\ [][Next]_vars

Laws == ok
SelfSubstIdentity == \A h \in 1..Len(hs), s \in Syms : SubstTree(Tree(heap, hs[h]), s, N("IDENTIFIER", 0, s, <<>>) @@ [c |-> <<>>]) = Tree(heap, hs[h])
ArityIsSub == \A n \in 1..Len(heap) : Len(Tree(heap, n).c) = Len(heap[n].sub)
(* sharing matrix and trees, for replay *)
Share(g, h) == Reach(heap, hs[g]) \cap Reach(heap, hs[h]) # {}
EmitState == Len(hist) = MaxOps => PrintT(<<"EMIT", ToJson([heap0 |-> h0, ops |-> hist, trees |-> [h \in 1..Len(hs) |-> Tree(heap, hs[h])],
                                                             share |-> [g \in 1..Len(hs) |-> [h \in 1..Len(hs) |-> Share(g, h)]],
                                                             eq |-> [g \in 1..Len(hs) |-> [h \in 1..Len(hs) |-> Tree(heap, hs[g]) = Tree(heap, hs[h])]]])>>)
=============================================================================
