------------------------------ MODULE PrinterLR ------------------------------
(* C03 on the design: does the text the printer produces for t parse back (on the extracted grammar) to t? *)
EXTENDS LR, Printer, SequencesExt
Universe == CASE IOEnv.LANG_UNIVERSE = "t2" -> TDepth1 \cup TDepth2
              [] OTHER -> TDepth1
USeq == SetToSeq(Universe)
VARIABLES lo, hi
Init == lo = 1 /\ hi = Len(USeq)
Next == /\ lo < hi
        /\ LET mid == (lo + hi) \div 2 IN \/ (lo' = lo /\ hi' = mid) \/ (lo' = mid + 1 /\ hi' = hi)
t == USeq[lo]
Leaf == lo = hi
Emit == Leaf => LET ct == Canon(t)
                    pr == StrT(ct)
                    c == Parse("T_EXPRESSION", pr)
                    ok == c.mode = "accept" /\ c.out = RPN(ct)
                IN PrintT(<<"EMIT", ToJson([t |-> t, canon |-> ct, src |-> RenderMin(t), srcfull |-> RenderFull(t), printed |-> pr, rt |-> ok])>>)
=============================================================================
