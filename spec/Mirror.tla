------------------------------- MODULE Mirror -------------------------------
(* C04 at the level of the design: for every model M of the DocGen universe, the XML document that denotes M, read by the
   transcribed reader (XmlReader.tla) and fed, callback by callback, to the transcribed builder (Builder.tla), yields the
   template graphs the statement prescribes (Expected(M)): every location in order under its name or id-derived name, every
   branchpoint, the initial location named by the init reference, every edge with source and target resolved through the id
   references - nothing added, dropped, duplicated or attached to another template; the builder's scopes are balanced and it
   reports nothing.
   The parameter lists and the system block are text blocks: where the reader hands them to the grammar, the token string that
   denotes them is parsed by LR.tla - the bison automaton extracted from the working tree's parser.y - and the callbacks it
   emits (decl_parameter; instantiation_begin / instantiation_end with their counts; process) go to the transcribed builder.
   MirrorDesign then also demands the statement's instances and processes: name, template, parameter list (own parameters
   first, then the inherited ones), number of unbound parameters, and exactly the inherited parameters bound.
   (Labels and declarations stay opaque here: LR.tla / C02 / C16.)                                                    *)
EXTENDS DocGen
R == INSTANCE XmlReaderOps
B == INSTANCE Builder
L == INSTANCE LR
D == INSTANCE BuilderDepth

NoAttr == <<>>
El(tag, attrs, empty) == [ty |-> "elem", tag |-> tag, empty |-> empty, attrs |-> attrs, txt |-> ""]
Tx(s) == [ty |-> "text", tag |-> "", empty |-> FALSE, attrs |-> NoAttr, txt |-> s]
En(tag, attrs) == [ty |-> "end", tag |-> tag, empty |-> FALSE, attrs |-> attrs, txt |-> ""]
TextEl(tag, attrs, s) == <<El(tag, attrs, FALSE), Tx(s), En(tag, attrs)>>
Opt(cond, evs) == IF cond THEN evs ELSE <<>>
LabelEv(kind, s) == Opt(s # "", TextEl("label", [kind |-> kind], s))
Cat(ss) == FoldLeft(LAMBDA acc, s : acc \o s, <<>>, ss)

LocEv(l) == <<El("location", [id |-> l.id], FALSE)>> \o Opt(l.name # "", TextEl("name", NoAttr, l.name)) \o LabelEv("invariant", l.inv)
            \o LabelEv("exponentialrate", l.rate) \o Opt(l.flag = "urgent", <<El("urgent", NoAttr, TRUE)>>) \o Opt(l.flag = "committed", <<El("committed", NoAttr, TRUE)>>)
            \o <<En("location", [id |-> l.id])>>
EdgeEv(e) == LET at == IF e.ctrl = "" THEN NoAttr ELSE [controllable |-> e.ctrl] IN
             <<El("transition", at, FALSE), El("source", [ref |-> e.src], TRUE), El("target", [ref |-> e.dst], TRUE)>>
             \o LabelEv("select", e.sel) \o LabelEv("guard", e.guard) \o LabelEv("synchronisation", e.sync) \o LabelEv("assignment", e.asg) \o LabelEv("probability", e.prob)
             \o <<En("transition", at)>>
TemplEv(t) == <<El("template", NoAttr, FALSE)>> \o TextEl("name", NoAttr, t.name)
              \o Opt(t.params # <<>>, TextEl("parameter", NoAttr, "params")) \o Opt(t.ldecl # <<>>, TextEl("declaration", NoAttr, "locals"))
              \o Cat([q \in 1..Len(t.locs) |-> LocEv(t.locs[q])])
              \o Cat([q \in 1..Len(t.bps) |-> <<El("branchpoint", [id |-> t.bps[q]], FALSE), En("branchpoint", [id |-> t.bps[q]])>>])
              \o Opt(t.init # "", <<El("init", [ref |-> t.init], TRUE)>>)
              \o Cat([q \in 1..Len(t.edges) |-> EdgeEv(t.edges[q])])
              \o <<En("template", NoAttr)>>
XmlEvents(r) == <<El("nta", NoAttr, FALSE)>> \o TextEl("declaration", NoAttr, "globals") \o Cat([t \in 1..Len(r.templs) |-> TemplEv(r.templs[t])])
                \o TextEl("system", NoAttr, "system") \o <<En("nta", NoAttr)>>

(* ---- token strings of the text blocks that carry structure *)
K(tk) == L!Tok(tk, 0, "")
Id(s) == L!Tok("T_ID", 0, s)
Ty(s) == L!Tok("T_TYPENAME", 0, s)
Nt(n) == L!Tok("T_NAT", n, "")
Rng(lo, hi) == <<K("'['"), Nt(lo), K("','"), Nt(hi), K("']'")>>
ParamToks == << <<K("T_INT"), Id("p")>>,                                   \* int p
                <<K("T_CONST"), Ty("id_t"), Id("w")>>,                     \* const id_t w
                <<K("T_INT"), K("'&'"), Id("r")>>,                         \* int &r
                <<K("T_CLOCK"), K("'&'"), Id("y")>>,                       \* clock &y
                <<K("T_INT")>> \o Rng(0, 1) \o <<Id("e")>>,                \* int[0,1] e
                <<K("T_CHAN"), K("'&'"), Id("d")>>,                        \* chan &d
                <<K("T_CONST"), K("T_INT"), Id("q")>> >>                   \* const int q
OwnToks == << <<K("T_CONST"), K("T_INT")>> \o Rng(0, 1) \o <<Id("v")>>,     \* const int[0,1] v
              <<K("T_INT")>> \o Rng(0, 2) \o <<Id("u")>> >>                \* int[0,2] u
ArgToks(txt) == CASE txt = "1" -> <<Nt(1)>>
                  [] txt = "N + 1" -> <<Id("N"), K("T_PLUS"), Nt(1)>>
                  [] txt = "a[1]" -> <<Id("a"), K("'['"), Nt(1), K("']'")>>
                  [] OTHER -> <<Id(txt)>>                                   \* N, i, j, x, c, and forwarded own parameters v, u
SysXToks == << <<K("T_PROGRESS"), K("'{'"), Id("i"), K("';'"), K("'}'")>>,                                                   \* progress { i; }
               <<K("T_GANTT"), K("'{'"), Id("G"), K("'('"), Id("k"), K("':'"), K("T_INT")>> \o Rng(0, 1) \o
               <<K("')'"), K("':'"), Id("i"), K("T_EQ"), Id("k"), K("T_ARROW"), Nt(1), K("';'"), K("'}'")>> >>                 \* gantt { G(k : int[0,1]) : i == k -> 1; }
ASSUME Len(ParamToks) = Len(ParamPool) /\ Len(OwnToks) = Len(OwnPool) /\ Len(SysXToks) = Len(SysX)
RECURSIVE Sep(_, _, _)
Sep(lists, sep, i) == IF i > Len(lists) THEN <<>> ELSE (IF i > 1 THEN <<sep>> ELSE <<>>) \o lists[i] \o Sep(lists, sep, i + 1)
ParamString(tt) == Sep([q \in 1..Len(tt.params) |-> ParamToks[tt.params[q]]], K("','"), 1)
InstString(ins) == <<Id(ins.name)>> \o (IF ins.own = <<>> THEN <<>> ELSE <<K("'('")>> \o Sep([q \in 1..Len(ins.own) |-> OwnToks[ins.own[q]]], K("','"), 1) \o <<K("')'")>>)
                   \o <<K("T_ASSIGNMENT"), Id(ins.base), K("'('")>> \o Sep([q \in 1..Len(ins.args) |-> ArgToks(ins.args[q])], K("','"), 1) \o <<K("')'"), K("';'")>>
RECURSIVE ProcString(_, _)
ProcString(mm, i) == IF i > Len(mm.procs) THEN <<>>
                     ELSE (IF i > 1 THEN <<IF mm.seps[i - 1] = "<" THEN K("T_LT") ELSE K("','")>> ELSE <<>>) \o <<Id(mm.procs[i])>> \o ProcString(mm, i + 1)
(* lib/docgen.py system_text: `typedef int[0,1] sys_t; int sysv;`, the instantiations, the process list *)
SystemString(mm) == <<K("T_TYPEDEF"), K("T_INT")>> \o Rng(0, 1) \o <<Id("sys_t"), K("';'"), K("T_INT"), Id("sysv"), K("';'")>>
                    \o Cat([q \in 1..Len(mm.insts) |-> InstString(mm.insts[q])])
                    \o <<K("T_SYSTEM")>> \o ProcString(mm, 1) \o <<K("';'")>>
                    \o Cat([q \in 1..Len(mm.sysx) |-> SysXToks[mm.sysx[q]]])

(* the callbacks of the grammar, as events of Builder!Apply *)
FromGrammar(o) ==
    CASE o.cb = "decl_parameter" -> <<[cb |-> "decl_parameter", a |-> o.a[1].s, b |-> "", n |-> 0]>>
      [] o.cb = "instantiation_begin" -> <<[cb |-> "instantiation_begin", a |-> o.a[1].s, b |-> o.a[3].s, n |-> o.a[2].n]>>
      [] o.cb = "instantiation_end" -> <<[cb |-> "instantiation_end", a |-> o.a[1].s, b |-> o.a[3].s, n |-> o.a[4].n]>>
      [] o.cb = "process" -> <<[cb |-> "process", a |-> o.a[1].s, b |-> "", n |-> 0]>>
      [] o.cb = "handle_error" -> <<[cb |-> "grammar_error", a |-> "", b |-> "", n |-> 0]>>
      [] OTHER -> <<>>
RECURSIVE FeedGrammar(_, _, _)
FeedGrammar(b, out, i) ==
    IF i > Len(out) THEN b
    ELSE LET evs == FromGrammar(out[i]) IN
         FeedGrammar(IF evs = <<>> THEN b ELSE IF evs[1].cb = "grammar_error" THEN B!Err(b) ELSE B!Apply(b, evs[1]), out, i + 1)
(* a block must be accepted, and its callbacks must leave the builder's expression / type / frame stacks where they were
   (BuilderDepth: the stack discipline C16 rests on) *)
GrammarBlock(b, start, toks) ==
    LET p == L!Parse(start, toks)
        d == D!Depths(p.out) IN
    IF p.mode # "accept" \/ p.nerr # 0 \/ d.f # 0 \/ d.t # 0 \/ d.fr # 0 \/ d.under \/ d.unknown # "" THEN B!Err(b) ELSE FeedGrammar(b, p.out, 1)

(* the reader's callbacks, as events of Builder!Apply; `parse` events stand for the text blocks *)
Structural == {"proc_begin", "proc_end", "proc_location", "proc_branchpoint", "proc_location_init", "proc_edge_begin", "proc_edge_end"}
ToBuilder(o) == [cb |-> o.n, a |-> IF o.n = "proc_edge_begin" THEN o.x ELSE o.a, b |-> o.y, n |-> 0]
RECURSIVE Feed(_, _, _, _)
Feed(mm, b, out, i) ==
    IF i > Len(out) THEN b
    ELSE LET o == out[i] IN
         IF o.e = "cb" /\ o.n \in Structural THEN Feed(mm, B!Apply(b, ToBuilder(o)), out, i + 1)
         ELSE IF o.e = "cb" /\ o.n = "parse" /\ o.a = "S_PARAMETERS"
              THEN Feed(mm, GrammarBlock(b, "T_NEW_PARAMETERS", ParamString(mm.templs[Len(b.templs) + 1])), out, i + 1)      \* the parameter element precedes proc_begin of its template
         ELSE IF o.e = "cb" /\ o.n = "parse" /\ o.a = "S_SYSTEM"
              THEN Feed(mm, GrammarBlock(b, "T_NEW_SYSTEM", SystemString(mm)), out, i + 1)
         ELSE Feed(mm, b, out, i + 1)
Built(mm) == LET run == R!Project([id |-> "m", events |-> XmlEvents(Resolved(mm))]) IN [reader |-> run, b |-> Feed(mm, B!Init0, run.out, 1)]

(* what the statement prescribes for the template graphs *)
Graph(e) == [templs |-> [t \in 1..Len(e.templates) |->
                [name |-> e.templates[t].name,
                 locs |-> [q \in 1..Len(e.templates[t].locs) |-> [name |-> e.templates[t].locs[q].name, nr |-> e.templates[t].locs[q].nr]],
                 bps |-> e.templates[t].bps, init |-> e.templates[t].init,
                 edges |-> [q \in 1..Len(e.templates[t].edges) |-> [nr |-> e.templates[t].edges[q].nr, src |-> e.templates[t].edges[q].src, dst |-> e.templates[t].edges[q].dst, t |-> t]]]]]
GraphOfBuilder(b) == [templs |-> [t \in 1..Len(b.templs) |->
                [name |-> b.templs[t].name,
                 locs |-> [q \in 1..Len(b.templs[t].locs) |-> [name |-> b.templs[t].locs[q].name, nr |-> b.templs[t].locs[q].nr]],
                 bps |-> [q \in 1..Len(b.templs[t].bps) |-> b.templs[t].bps[q].name],
                 init |-> IF b.templs[t].init = B!NoSym THEN "" ELSE b.templs[t].init.name,
                 edges |-> [q \in 1..Len(b.templs[t].edges) |-> [nr |-> b.templs[t].edges[q].nr, src |-> b.templs[t].edges[q].src.name, dst |-> b.templs[t].edges[q].dst.name,
                                                                 t |-> IF b.templs[t].edges[q].src.t = b.templs[t].edges[q].dst.t THEN b.templs[t].edges[q].src.t ELSE 0]]]]]
(* instances and processes: what the statement prescribes / what the builder holds *)
InstOfBuilder(b, i) == [name |-> i.name, templ |-> b.templs[i.templ].name, params |-> [q \in 1..Len(i.params) |-> i.params[q].name], unbound |-> i.unbound,
                        bound |-> [q \in 1..Len(i.params) |-> i.params[q].id \in i.mapping]]
InstExpected(x) == [name |-> x.name, templ |-> x.templ, params |-> x.params, unbound |-> x.unbound, bound |-> [q \in 1..Len(x.params) |-> q > x.unbound]]
SystemOfBuilder(b) == [instances |-> [k \in 1..Len(b.insts) |-> InstOfBuilder(b, b.insts[k])],
                       processes |-> [k \in 1..Len(b.procs) |-> [InstOfBuilder(b, b.procs[k]) EXCEPT !.name = b.procs[k].name]]]
SystemExpected(e) == [instances |-> [k \in 1..Len(e.instances) |-> InstExpected(e.instances[k])],
                      processes |-> [k \in 1..Len(e.processes) |-> InstExpected(e.processes[k])]]
MirrorDesign == phase = "done" =>
    LET r == Built(m) IN
    /\ SystemOfBuilder(r.b) = SystemExpected(Expected(m))
    /\ r.reader.exc = "" /\ r.reader.fuel > 0                          \* the reader returns
    /\ r.b.nerr = 0 /\ r.b.frames = <<"g">> /\ r.b.curT = 0            \* the builder reports nothing and is back in the global scope
    /\ B!DocInv(r.b)
    /\ GraphOfBuilder(r.b) = Graph(Expected(m))
=============================================================================
