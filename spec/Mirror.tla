------------------------------- MODULE Mirror -------------------------------
(* C04 at the level of the design: for every model M of the DocGen universe, the XML document that denotes M, read by the
   transcribed reader (XmlReader.tla) and fed, callback by callback, to the transcribed builder (Builder.tla), yields the
   template graphs the statement prescribes (Expected(M)): every location in order under its name or id-derived name, every
   branchpoint, the initial location named by the init reference, every edge with source and target resolved through the id
   references - nothing added, dropped, duplicated or attached to another template; the builder's scopes are balanced and it
   reports nothing.  (Labels and declarations are text blocks handed to the grammar: LR.tla / C02; the system block's
   instantiations: Builder.tla / C08.)                                                                                *)
EXTENDS DocGen
R == INSTANCE XmlReaderOps
B == INSTANCE Builder

NoAttr == <<>>
El(tag, attrs, empty) == [ty |-> "elem", tag |-> tag, empty |-> empty, attrs |-> attrs, txt |-> ""]
Tx(s) == [ty |-> "text", tag |-> "", empty |-> FALSE, attrs |-> NoAttr, txt |-> s]
En(tag, attrs) == [ty |-> "end", tag |-> tag, empty |-> FALSE, attrs |-> attrs, txt |-> ""]
TextEl(tag, attrs, s) == <<El(tag, attrs, FALSE), Tx(s), En(tag, attrs)>>
Opt(cond, evs) == IF cond THEN evs ELSE <<>>
LabelEv(kind, s) == Opt(s # "", TextEl("label", [kind |-> kind], s))
Cat(ss) == FoldLeft(LAMBDA acc, s : acc \o s, <<>>, ss)

LocEv(l) == <<El("location", [id |-> l.id], FALSE)>> \o Opt(l.name # "", TextEl("name", NoAttr, l.name)) \o LabelEv("invariant", l.inv)
            \o LabelEv("exponentialrate", l.rate) \o Opt(l.flag = "urgent", <<El("urgent", NoAttr, TRUE)>>) \o Opt(l.flag = "committed", <<El("committed", NoAttr, TRUE)>>)
            \o <<En("location", [id |-> l.id])>>
EdgeEv(e) == LET at == IF e.ctrl = "" THEN NoAttr ELSE [controllable |-> e.ctrl] IN
             <<El("transition", at, FALSE), El("source", [ref |-> e.src], TRUE), El("target", [ref |-> e.dst], TRUE)>>
             \o LabelEv("select", e.sel) \o LabelEv("guard", e.guard) \o LabelEv("synchronisation", e.sync) \o LabelEv("assignment", e.asg) \o LabelEv("probability", e.prob)
             \o <<En("transition", at)>>
TemplEv(t) == <<El("template", NoAttr, FALSE)>> \o TextEl("name", NoAttr, t.name)
              \o Opt(t.params # <<>>, TextEl("parameter", NoAttr, "params")) \o Opt(t.ldecl # <<>>, TextEl("declaration", NoAttr, "locals"))
              \o Cat([q \in 1..Len(t.locs) |-> LocEv(t.locs[q])])
              \o Cat([q \in 1..Len(t.bps) |-> <<El("branchpoint", [id |-> t.bps[q]], FALSE), En("branchpoint", [id |-> t.bps[q]])>>])
              \o Opt(t.init # "", <<El("init", [ref |-> t.init], TRUE)>>)
              \o Cat([q \in 1..Len(t.edges) |-> EdgeEv(t.edges[q])])
              \o <<En("template", NoAttr)>>
XmlEvents(r) == <<El("nta", NoAttr, FALSE)>> \o TextEl("declaration", NoAttr, "globals") \o Cat([t \in 1..Len(r.templs) |-> TemplEv(r.templs[t])])
                \o TextEl("system", NoAttr, "system") \o <<En("nta", NoAttr)>>

(* the reader's callbacks, as events of Builder!Apply *)
Structural == {"proc_begin", "proc_end", "proc_location", "proc_branchpoint", "proc_location_init", "proc_edge_begin", "proc_edge_end"}
ToBuilder(o) == [cb |-> o.n, a |-> IF o.n = "proc_edge_begin" THEN o.x ELSE o.a, b |-> o.y, n |-> 0]
RECURSIVE Feed(_, _, _)
Feed(b, out, i) == IF i > Len(out) THEN b
                   ELSE IF out[i].e = "cb" /\ out[i].n \in Structural THEN Feed(B!Apply(b, ToBuilder(out[i])), out, i + 1) ELSE Feed(b, out, i + 1)
Built(mm) == LET run == R!Project([id |-> "m", events |-> XmlEvents(Resolved(mm))]) IN [reader |-> run, b |-> Feed(B!Init0, run.out, 1)]

(* what the statement prescribes for the template graphs *)
Graph(e) == [templs |-> [t \in 1..Len(e.templates) |->
                [name |-> e.templates[t].name,
                 locs |-> [q \in 1..Len(e.templates[t].locs) |-> [name |-> e.templates[t].locs[q].name, nr |-> e.templates[t].locs[q].nr]],
                 bps |-> e.templates[t].bps, init |-> e.templates[t].init,
                 edges |-> [q \in 1..Len(e.templates[t].edges) |-> [nr |-> e.templates[t].edges[q].nr, src |-> e.templates[t].edges[q].src, dst |-> e.templates[t].edges[q].dst, t |-> t]]]]]
GraphOfBuilder(b) == [templs |-> [t \in 1..Len(b.templs) |->
                [name |-> b.templs[t].name,
                 locs |-> [q \in 1..Len(b.templs[t].locs) |-> [name |-> b.templs[t].locs[q].name, nr |-> b.templs[t].locs[q].nr]],
                 bps |-> [q \in 1..Len(b.templs[t].bps) |-> b.templs[t].bps[q].name],
                 init |-> IF b.templs[t].init = B!NoSym THEN "" ELSE b.templs[t].init.name,
                 edges |-> [q \in 1..Len(b.templs[t].edges) |-> [nr |-> b.templs[t].edges[q].nr, src |-> b.templs[t].edges[q].src.name, dst |-> b.templs[t].edges[q].dst.name,
                                                                 t |-> IF b.templs[t].edges[q].src.t = b.templs[t].edges[q].dst.t THEN b.templs[t].edges[q].src.t ELSE 0]]]]]
MirrorDesign == phase = "done" =>
    LET r == Built(m) IN
    /\ r.reader.exc = "" /\ r.reader.fuel > 0                          \* the reader returns
    /\ r.b.nerr = 0 /\ r.b.frames = <<"g">> /\ r.b.curT = 0            \* the builder reports nothing and is back in the global scope
    /\ B!DocInv(r.b)
    /\ GraphOfBuilder(r.b) = Graph(Expected(m))
=============================================================================
