------------------------------- MODULE LexMC -------------------------------
(* All texts up to a bound over an alphabet of letters (a letter is a short character sequence: one character, or a chunk
   such as `EXPECT:` or a whole lexeme), scanned by Lex.tla - the flex semantics over the rule tables extracted from the
   working tree's lexer.l. Every state is a text; the invariants say what the scanner owes every text:

     Total          no position at which no rule matches (the scanner is built with `nodefault`: that would be fatal), and
                    the scan ends
     LeavesInitial  the scan of any text ends in the start condition INITIAL
     Offsets        tokens lie inside the text in order, without overlap, non-empty; an identifier's lexeme is its text
     CommentOpaque  (mode "comment": the text is the BODY of a block comment and holds no star-slash)
                    pre /* body */ post  scans as  pre <blank> post - same tokens, same diagnostics, and the scanner is
                    back in INITIAL: what is written inside a comment does not matter
     LineOpaque     (mode "line": the body of a `//` comment, no line break)   pre // body \n post  =  pre \n post
     LayoutFree     (mode "layout": letters are lexemes) joining the lexemes with any of the separators - blanks, tabs,
                    line breaks, CR LF, an empty block comment, a line comment, a continuation line - gives the same tokens
   Params (IOEnv.LEX_PARAMS): mode, alphabet (sequence of letters), maxlen, syntax, typenames, pre, post.
   Every text is emitted with its scan for the conformance harness (the real scanner, through the token hook).          *)
EXTENDS Lex

P == JsonDeserialize(IOEnv.LEX_PARAMS)
Letters == Rng(P.alphabet)
Types == Rng(P.typenames)
RECURSIVE Flat(_)
Flat(ws) == IF ws = <<>> THEN <<>> ELSE ws[1] \o Flat(Tail(ws))
RECURSIVE FlatSep(_, _)
FlatSep(ws, sep) == IF ws = <<>> THEN <<>> ELSE IF Len(ws) = 1 THEN ws[1] ELSE ws[1] \o sep \o FlatSep(Tail(ws), sep)

VARIABLE word            \* sequence of letters
Init == word = <<>>
Next == Len(word) < P.maxlen /\ \E l \in Letters : word' = Append(word, l)
Spec == Init /\ [][Next]_word

Text == Flat(word)
Sc(t) == Scan(t, P.syntax, Types)
Same(a, b) == Shape(a.toks) = Shape(b.toks) /\ a.errs = b.errs /\ a.cond = b.cond /\ a.mode = b.mode

Total == Sc(Text).mode = "end"
(* whatever the text - an unterminated comment included - the scanner is back in INITIAL when it has reported the end of the input: the start
   condition is process-global, the next call would start in it (C15) *)
LeavesInitial == Sc(Text).cond = "INITIAL"
Offsets == LET r == Sc(Text) IN
           \A k \in DOMAIN r.toks : /\ 0 <= r.toks[k].a /\ r.toks[k].a < r.toks[k].b /\ r.toks[k].b <= Len(Text)
                                    /\ (k > 1 => r.toks[k - 1].b <= r.toks[k].a)
                                    /\ (r.toks[k].t \in {"T_ID", "T_TYPENAME", "T_FLOATING", "T_CHARARR"} => r.toks[k].s = Join(SubSeq(Text, r.toks[k].a + 1, r.toks[k].b)))

HasPair(t, x, y) == \E k \in 1..(Len(t) - 1) : t[k] = x /\ t[k + 1] = y
CommentOpaque == (P.mode = "comment" /\ ~HasPair(Text, "*", "/")) =>
                    LET a == Sc(P.pre \o <<"/", "*">> \o Text \o <<"*", "/">> \o P.post)
                        b == Sc(P.pre \o <<" ">> \o P.post)
                    IN Same(a, b) /\ a.cond = "INITIAL"
LineOpaque == (P.mode = "line" /\ "\n" \notin Rng(Text)) =>
                    LET a == Sc(P.pre \o <<"/", "/">> \o Text \o <<"\n">> \o P.post)
                        b == Sc(P.pre \o <<"\n">> \o P.post)
                    IN Same(a, b) /\ a.lines = b.lines
Seps == { <<" ">>, <<" ", " ">>, <<"\t">>, <<"\n">>, <<"\r", "\n">>, <<" ", "/", "*", "*", "/", " ">>, <<" ", "/", "/", "x", "\n">>, <<" ", "\\", "\n">>, <<" ", "\\", " ", "\t", "\n", " ">> }
(* in a query text a line break is a token of its own (it separates queries): there only the separators without one are layout *)
BreakFree == { <<" ">>, <<" ", " ">>, <<"\t">>, <<" ", "/", "*", "*", "/", " ">>, <<" ", "\\", "\n">>, <<" ", "\\", " ", "\t", "\n", " ">> }
LayoutFree == P.mode = "layout" => \A s \in (IF P.syntax = "property" THEN BreakFree ELSE Seps) : Shape(Sc(FlatSep(word, s)).toks) = Shape(Sc(FlatSep(word, <<" ">>)).toks)
                                                   /\ Sc(FlatSep(word, s)).errs = Sc(FlatSep(word, <<" ">>)).errs

(* (mode "names": every letter is a name) a name that the builder reports as a type is handed to the grammar as a type name, whatever else it
   spells - in a model the path-quantifier letters and the soft keywords are identifiers like any other; a name that is no keyword of the syntax
   and no type is an identifier or one of the tokens the grammar re-admits as identifiers (NonTypeId) *)
IdLike == {"T_ID"} \cup Rng(P.idlike)
NamesAreNames == P.mode = "names" =>
                    \A l \in Rng(word) : LET w == Join(l)
                                           asType == Scan(l, P.syntax, {w})
                                           plain == Scan(l, P.syntax, {}) IN
                                       /\ (P.syntax # "property" /\ ~(w \in DOMAIN KwTab /\ Admits(P.syntax, KwTab[w].syntax))) =>
                                              (Len(asType.toks) = 1 /\ asType.toks[1].t = "T_TYPENAME" /\ asType.toks[1].s = w)
                                       /\ ~(w \in DOMAIN KwTab /\ Admits(P.syntax, KwTab[w].syntax)) =>
                                              (Len(plain.toks) = 1 /\ plain.toks[1].t \in IdLike)
Subject == CASE P.mode = "comment" -> P.pre \o <<"/", "*">> \o Text \o <<"*", "/">> \o P.post
             [] P.mode = "line" -> P.pre \o <<"/", "/">> \o Text \o <<"\n">> \o P.post
             [] P.mode = "layout" -> FlatSep(word, <<" ">>)
             [] OTHER -> Text
EmitScan == LET r == Sc(Subject) IN
            PrintT(<<"EMIT", ToJson([text |-> Subject, toks |-> r.toks, errs |-> r.errs, cond |-> r.cond, lines |-> r.lines, expect |-> r.expect, mode |-> r.mode])>>)
=============================================================================
