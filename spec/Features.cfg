INIT Init
NEXT Next
