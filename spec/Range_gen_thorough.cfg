CONSTANTS DHalf = 4  MaxLen = 2  EmitOn = TRUE
INIT Init
NEXT Next
INVARIANTS Agree QueriesAgree Emit
CHECK_DEADLOCK FALSE
