\* exhaustive: all behaviours of <= 3 mutating calls from every non-empty interval over -6..6
CONSTANTS DHalf = 6  MaxLen = 3  EmitOn = FALSE
INIT Init
NEXT Next
VIEW ViewMC
INVARIANTS Agree QueriesAgree
CHECK_DEADLOCK FALSE
