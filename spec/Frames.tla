------------------------------- MODULE Frames -------------------------------
(* C07 at the level of the symbol table (symbols.cpp): a frame is an ordered collection of symbols plus an index from names
   to positions; name resolution looks a name up in the index of the frame and then in the parent frames. The statement's
   "nearest declaration that precedes the use" rests on two facts about this structure, for every history of its operations:

     LatestWins   in every frame the index maps a name to the LAST symbol of that name in the frame (a later declaration
                  shadows an earlier one of the same frame: `system T;` declares process T after template T), and to nothing
                  if there is none; the index never points outside the frame;
     Innermost    resolve(name) from a sub-frame yields the sub-frame's symbol if it has one, otherwise the parent's.

   Operations, transcribed from frame_t:  add_symbol(name) (new symbol, home = this frame), add(symbol) (an existing symbol
   enters a second frame; its home is unchanged), add(frame), move_to(frame) (all symbols leave; their home becomes the
   target), remove(symbol) (every occurrence leaves; the frame is REBUILT by adding the remaining symbols again, and - a
   side effect the code has - every remaining symbol's home becomes this frame).
   Three frames: 1 = a root, 2 = a sub-frame of 1, 3 = a detached root (like the builder's `params`).
   Every behaviour of MaxOps operations is exported with the observation after each step and executed on real frame_t
   objects (harness/replay_frame.cpp): sizes, symbol order, index_of, resolve and home frame must be equal.            *)
EXTENDS Integers, Sequences, FiniteSets, TLC, Json, SequencesExt

CONSTANTS MaxOps, MaxSyms, Closed      \* Closed: no bound on the number of operations, nothing logged (the sizes bound the state space)
Names == {"a", "b", ""}            \* "" : anonymous symbols are stored but not indexed
Frames == 1..3
Parent(f) == IF f = 2 THEN 1 ELSE 0

VARIABLES sy,      \* symbols ever created: sequence of [name, home]
          fr,      \* frame -> [syms : sequence of symbol ids, map : name -> position (0 = absent)]
          hist
vars == <<sy, fr, hist>>

Empty == [syms |-> <<>>, map |-> [n \in Names \ {""} |-> 0]]
AddTo(symtab, F, u) == [syms |-> Append(F.syms, u),
                        map |-> IF symtab[u].name = "" THEN F.map ELSE [F.map EXCEPT ![symtab[u].name] = Len(F.syms) + 1]]
RECURSIVE AddAll(_, _, _, _)
AddAll(symtab, F, us, i) == IF i > Len(us) THEN F ELSE AddAll(symtab, AddTo(symtab, F, us[i]), us, i + 1)

RECURSIVE Resolve(_, _, _)
Resolve(frames, f, n) == IF f = 0 \/ n = "" THEN 0
                         ELSE IF frames[f].map[n] > 0 THEN frames[f].syms[frames[f].map[n]] ELSE Resolve(frames, Parent(f), n)
(* observation, compact: per frame <<symbols, index of "a", index of "b">>, then resolve("a"), resolve("b") from the sub-frame 2 *)
Obs(symtab, frames) == <<[f \in Frames |-> <<frames[f].syms, frames[f].map["a"], frames[f].map["b"]>>], Resolve(frames, 2, "a"), Resolve(frames, 2, "b")>>
Homes(symtab) == [u \in 1..Len(symtab) |-> symtab[u].home]
Log(op, f, g, n, u, symtab, frames) == IF Closed THEN hist ELSE Append(hist, [op |-> op, f |-> f, g |-> g, n |-> n, u |-> u, o |-> Obs(symtab, frames), h |-> Homes(symtab)])

Init == sy = <<>> /\ fr = [f \in Frames |-> Empty] /\ hist = <<>>
Room == Closed \/ Len(hist) < MaxOps

AddSymbol == Room /\ Len(sy) < MaxSyms /\ \E f \in Frames, n \in Names :
    LET sy2 == Append(sy, [name |-> n, home |-> f])
        fr2 == [fr EXCEPT ![f] = AddTo(sy2, @, Len(sy2))]
    IN sy' = sy2 /\ fr' = fr2 /\ hist' = Log("add_symbol", f, 0, n, Len(sy2), sy2, fr2)
AddExisting == Room /\ \E f \in Frames, u \in 1..Len(sy) :
    /\ Len(fr[f].syms) < MaxSyms + 1
    /\ LET fr2 == [fr EXCEPT ![f] = AddTo(sy, @, u)] IN sy' = sy /\ fr' = fr2 /\ hist' = Log("add", f, 0, "", u, sy, fr2)
AddFrame == Room /\ \E f \in Frames, g \in Frames :
    /\ f # g /\ fr[g].syms # <<>> /\ Len(fr[f].syms) + Len(fr[g].syms) <= MaxSyms + 1
    /\ LET fr2 == [fr EXCEPT ![f] = AddAll(sy, @, fr[g].syms, 1)] IN sy' = sy /\ fr' = fr2 /\ hist' = Log("add_frame", f, g, "", 0, sy, fr2)
MoveTo == Room /\ \E g \in Frames, f \in Frames :
    /\ f # g /\ fr[g].syms # <<>> /\ Len(fr[f].syms) + Len(fr[g].syms) <= MaxSyms + 1
    /\ LET moved == {fr[g].syms[i] : i \in 1..Len(fr[g].syms)}
           sy2 == [u \in 1..Len(sy) |-> IF u \in moved THEN [sy[u] EXCEPT !.home = f] ELSE sy[u]]
           fr2 == [fr EXCEPT ![f] = AddAll(sy, @, fr[g].syms, 1), ![g] = Empty]
       IN sy' = sy2 /\ fr' = fr2 /\ hist' = Log("move_to", g, f, "", 0, sy2, fr2)
RemoveSym == Room /\ \E f \in Frames, u \in 1..Len(sy) :
    LET rest == SelectSeq(fr[f].syms, LAMBDA x : x # u)
        kept == {rest[i] : i \in 1..Len(rest)}
        sy2 == [x \in 1..Len(sy) |-> IF x \in kept THEN [sy[x] EXCEPT !.home = f] ELSE sy[x]]
        fr2 == [fr EXCEPT ![f] = AddAll(sy, Empty, rest, 1)]
    IN sy' = sy2 /\ fr' = fr2 /\ hist' = Log("remove", f, 0, "", u, sy2, fr2)
Next == AddSymbol \/ AddExisting \/ AddFrame \/ MoveTo \/ RemoveSym
Spec == Init /\ [][Next]_vars

Max0(S) == IF S = {} THEN 0 ELSE CHOOSE x \in S : \A y \in S : y <= x
LatestWins == \A f \in Frames, n \in Names \ {""} :
    fr[f].map[n] = Max0({i \in 1..Len(fr[f].syms) : sy[fr[f].syms[i]].name = n})
Innermost == \A n \in Names \ {""} :
    /\ Resolve(fr, 2, n) = IF fr[2].map[n] > 0 THEN fr[2].syms[fr[2].map[n]] ELSE Resolve(fr, 1, n)
    /\ (Resolve(fr, 2, n) = 0 <=> \A f \in {1, 2} : \A i \in 1..Len(fr[f].syms) : sy[fr[f].syms[i]].name # n)
(* remove(s) takes out exactly the occurrences of s, keeps the order of the rest, and leaves the other frames alone *)
RemoveExact == [][\A f \in Frames : (~Closed /\ hist' # hist /\ hist'[Len(hist')].op = "remove" /\ hist'[Len(hist')].f = f) =>
                     /\ fr'[f].syms = SelectSeq(fr[f].syms, LAMBDA x : x # hist'[Len(hist')].u)
                     /\ \A g \in Frames \ {f} : fr'[g] = fr[g]]_vars

EmitDone == Len(hist) = MaxOps => PrintT(<<"EMIT", ToJson([ops |-> hist])>>)
=============================================================================
