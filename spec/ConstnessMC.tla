---- MODULE ConstnessMC ----
EXTENDS Constness, IOUtils
ASSUME Export(IOEnv.OUTF)
ASSUME PrintT(<<"EMIT", ToJson([sound |-> Sound, twinok |-> TwinOK, n |-> Cardinality(Cases)])>>)
====
