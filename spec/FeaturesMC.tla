---- MODULE FeaturesMC ----
EXTENDS Features, IOUtils
ASSUME Export(IOEnv.OUTF)
ASSUME ExportPairs(IOEnv.OUTF \o ".pairs")
ASSUME PrintT(<<"EMIT", ToJson([allsound |-> AllSound, n |-> Cardinality(Models), unsound |-> Cardinality(Unsound), pairs |-> Cardinality(Pairs), pairssound |-> PairsSound])>>)
====
