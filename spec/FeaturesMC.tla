---- MODULE FeaturesMC ----
EXTENDS Features, IOUtils
ASSUME Export(IOEnv.OUTF)
ASSUME PrintT(<<"EMIT", ToJson([allsound |-> AllSound, n |-> Cardinality(Models), unsound |-> Cardinality(Unsound)])>>)
====
