----------------------------- MODULE SymTyping -----------------------------
(* Property C14: typing of commutative operators and of inline-if is symmetric in its operands;
   reference-parameter compatibility is symmetric in where REF/CONST sits.

   Operand type universe Ty (abstract classes of the declared scaffold variables), the transcription
   Rule(op, a, b) of TypeChecker::checkExpression's cases for the commutative operators and INLINE_IF
   (typechecker.cpp), and of isParameterCompatible/areEquivalent/isSameScalarType for reference
   parameters. The property is Sym: Rule(op,a,b) = Rule(op,b,a). TLC evaluates it on every ordered pair and
   exports the cases; each is replayed in both orders through the real type checker.             *)
EXTENDS Integers, Sequences, FiniteSets, TLC, Json, SequencesExt

Ty == {"int", "bint", "bool", "double", "clock", "diff", "scalarA", "scalarB", "recA", "recB", "recA2",
       "arrInt", "arrInt2", "arrClock", "chan", "bchan", "uchan"}
(* recA2: a second struct type with the same field names and types as recA (structurally equivalent);
   arrInt2: int array of a different size *)

Integral(t) == t \in {"int", "bint", "bool"}
Integer(t) == t \in {"int", "bint"}
Number(t) == Integral(t) \/ t \in {"double", "clock", "diff"}
IsRec(t) == t \in {"recA", "recB", "recA2"}
IsChan(t) == t \in {"chan", "bchan", "uchan"}

(* areEquivalent: structural, scalars by name *)
Equivalent(a, b) ==
    \/ Integer(a) /\ Integer(b) /\ (a = b)          \* both are RANGE types ("int" carries the default range): bounds must be equal
    \/ a = "bool" /\ b = "bool"
    \/ a = "clock" /\ b = "clock"
    \/ IsChan(a) /\ a = b
    \/ IsRec(a) /\ IsRec(b) /\ (a = b \/ {a, b} = {"recA", "recA2"})
    \/ a \in {"arrInt", "arrInt2", "arrClock"} /\ a = b
    \/ a \in {"scalarA", "scalarB"} /\ a = b
    \/ a = "double" /\ b = "double"
AssignCompat(l, r) ==
    \/ l \in {"clock", "double"} /\ (Integral(r) \/ r \in {"double", "clock"})
    \/ Integral(l) /\ Integral(r)
    \/ Equivalent(l, r)
EqCompat(a, b) == (Integral(a) /\ Integral(b)) \/ Equivalent(a, b)

Ops == {"plus", "mult", "eq", "neq", "and", "or", "band", "bor", "bxor", "min", "max"}

Rule(op, a, b) ==
    CASE op = "plus" ->
            IF Integral(a) /\ Integral(b) THEN "INT"
            ELSE IF (Integer(a) /\ b = "clock") \/ (a = "clock" /\ Integer(b)) THEN "CLOCK"
            ELSE IF (a = "diff" /\ Integer(b)) \/ (Integer(a) /\ b = "diff") THEN "DIFF"
            ELSE IF Number(a) /\ Number(b) THEN "DOUBLE" ELSE "ERR"
      [] op \in {"mult", "min", "max"} ->
            IF Integral(a) /\ Integral(b) THEN "INT" ELSE IF Number(a) /\ Number(b) THEN "DOUBLE" ELSE "ERR"
      [] op = "eq" ->
            IF (a = "clock" /\ b = "clock") \/ (a = "clock" /\ Number(b)) \/ (Number(a) /\ b = "clock")
               \/ (a = "diff" /\ Number(b)) \/ (Number(a) /\ b = "diff") THEN "GUARD"
            ELSE IF EqCompat(a, b) THEN "BOOL"
            ELSE IF Number(a) /\ Number(b) THEN "BOOL" ELSE "ERR"
      [] op = "neq" ->
            IF EqCompat(a, b) THEN "BOOL"
            ELSE IF (a = "clock" /\ b = "clock") \/ (a = "clock" /\ Integer(b)) \/ (Integer(a) /\ b = "clock")
                    \/ (a = "diff" /\ Integer(b)) \/ (Integer(a) /\ b = "diff") THEN "CONSTRAINT"
            ELSE IF Number(a) /\ Number(b) THEN "BOOL" ELSE "ERR"
      [] op \in {"and", "or"} -> IF Integral(a) /\ Integral(b) THEN "BOOL" ELSE "ERR"   \* no invariant-typed operands in Ty
      [] op \in {"band", "bor", "bxor"} -> IF Integral(a) /\ Integral(b) THEN "INT" ELSE "ERR"

(* INLINE_IF: getInlineIfCommonType + areInlineIfCompatible; result "kind" is the normalised base kind *)
Kind(t) == CASE Integer(t) -> "INT" [] t = "bool" -> "BOOL" [] t = "double" -> "DOUBLE" [] t = "clock" -> "CLOCK"
             [] t = "diff" -> "DIFF" [] IsRec(t) -> "RECORD" [] IsChan(t) -> "CHANNEL"
             [] t \in {"scalarA", "scalarB"} -> "SCALAR" [] OTHER -> "ARRAY"
Common(a, b) == IF IsRec(a) THEN a ELSE IF IsRec(b) THEN b
                ELSE IF (a = "clock") # (b = "clock") THEN "double"
                ELSE IF Integral(a) /\ Integral(b) /\ ((a = "bool") # (b = "bool")) THEN (IF a = "bool" THEN b ELSE a)
                ELSE IF AssignCompat(a, b) THEN a ELSE IF AssignCompat(b, a) THEN b
                ELSE IF Equivalent(b, a) THEN a ELSE "none"
IfCompat(res, a, b) == (res # "none" /\ AssignCompat(res, a) /\ AssignCompat(res, b)) \/ Equivalent(a, b)   \* as repaired by the fix: commit (was: res,a twice)
RuleIf(a, b) == LET res == Common(a, b) IN IF IfCompat(res, a, b) THEN Kind(res) ELSE "ERR"

(* reference parameters: argument variable of type a (wrapped or not in const) for parameter of type b
   (REF, maybe CONST): isParameterCompatible -> areEquivalent(argType, paramType) which ignores REF/CONST *)
RefAccept(p, a, pconst, aconst) ==
    IF ~pconst /\ aconst THEN FALSE                           \* non-const reference needs a modifiable lvalue
    ELSE IF IsChan(p) /\ IsChan(a) THEN
            LET cap(t) == CASE t = "uchan" -> 0 [] t = "bchan" -> 1 [] OTHER -> 2 IN cap(a) >= cap(p)
    ELSE IF aconst THEN AssignCompat(p, a)                    \* not an lvalue: falls to areAssignmentCompatible
    ELSE Equivalent(a, p) \/ (pconst /\ p = "int" /\ Integer(a))   \* `const int` is built without the default range `int` carries, and areEquivalent
                                                                 \* compares bounds only when both sides have a range: a const int reference takes any integer lvalue

---------------------------------------------------------------------------
Sym == \A op \in Ops : \A a \in Ty, b \in Ty : Rule(op, a, b) = Rule(op, b, a)
SymIf == \A a \in Ty, b \in Ty : RuleIf(a, b) = RuleIf(b, a)
(* "accepted exactly when the types are equivalent, whichever carries the wrapper" *)
RefTy == Ty \ {"diff", "chan", "bchan", "uchan"}
SymRef == \A a \in RefTy, b \in RefTy : RefAccept(a, b, FALSE, FALSE) = RefAccept(b, a, FALSE, FALSE)
RefIsEquiv == \A a \in RefTy, b \in RefTy : RefAccept(a, b, FALSE, FALSE) = Equivalent(a, b)

OpCases == {[kind |-> "op", op |-> op, a |-> a, b |-> b, r |-> Rule(op, a, b)] : op \in Ops, a \in Ty, b \in Ty}
IfCases == {[kind |-> "if", op |-> "if", a |-> a, b |-> b, r |-> RuleIf(a, b)] : a \in Ty, b \in Ty}
(* the statement: a variable (an lvalue) is accepted for a reference parameter exactly when the two types are equivalent *)
RefSem(p, a) == Equivalent(a, p)
RefCases == {[kind |-> "ref", op |-> "ref", a |-> a, b |-> b, pconst |-> pc, aconst |-> ac,
              r |-> IF RefAccept(b, a, pc, ac) THEN "OK" ELSE "ERR", sem |-> RefSem(b, a)] :
              a \in RefTy, b \in RefTy, pc \in BOOLEAN, ac \in BOOLEAN}
Export(file) == ndJsonSerialize(file, SetToSeq(OpCases \cup IfCases) \o SetToSeq(RefCases))

(* TLC needs a behaviour spec; the content of this module is in the ASSUMEs of SymTypingMC *)
VARIABLE dummy
Init == dummy = 0
Next == UNCHANGED dummy
=============================================================================
