--------------------------- MODULE XmlReaderOps ---------------------------
(* The recursive-descent reader of xmlreader.cpp (timed-automata templates, LSC templates and the queries section) over the event stream of
   libxml2's xmlTextReader, transcribed procedure by procedure:

     events   [ty: "elem" | "text" | "ws" | "end", tag, empty, attrs (name -> value), txt]
     state    cur (cursor), path (Path: one list of sibling tags per open level), names (id -> name), out (what the reader
              does to the ParserBuilder: callbacks, and every setPath with the XPath it passes), exc (exception in flight),
              rv (return value of the procedure just run), fuel.

   begin() skips EVERYTHING (text, end tags, unknown elements' start tags) up to the next start element; end() skips only
   whitespace; read() maintains the path and throws XMLReaderError at the end of input and XMLDocError on bad nesting;
   an absent attribute handed to std::string's constructor throws std::logic_error; get_name() throws XMLDocError for an
   unknown or absent reference; TypeException is caught by templ / location / branchpoint / transition, everything else
   travels to the caller of parse_XML_*.

   Properties: Terminates (no loop of the reader runs without consuming input: fuel is never exhausted), PathOK (every
   path handed to setPath is the XPath of an element of the document: 1-based index among same-tag siblings),
   Outcome in {return, throw of a std::exception class}.  The runs are exported and compared, event by event, with the
   callbacks and setPath calls recorded from the real reader on the same documents (B2).                                *)
EXTENDS Integers, Sequences, FiniteSets, TLC, SequencesExt


Known == {"nta", "project", "imports", "declaration", "template", "instantiation", "system", "name", "parameter", "location", "init", "transition",
          "urgent", "committed", "branchpoint", "source", "target", "label", "nail", "lsc", "type", "mode", "yloccoord", "lsclocation", "prechart",
          "instance", "temperature", "message", "condition", "update", "anchor", "queries", "query", "formula", "comment", "option", "resource",
          "expect", "result", "details", "samples", "plot", "series"}
Indexed == {"template", "location", "branchpoint", "transition", "label", "nail", "query", "lsc", "yloccoord", "instance", "temperature", "message", "condition", "update", "anchor"}
TagOf(e) == IF e.tag \in Known THEN e.tag ELSE "NONE"

S0(doc) == [ev |-> doc.events, cur |-> 0, path |-> << <<>> >>, names |-> <<>>, out |-> <<>>, exc |-> "", rv |-> "", fuel |-> 8 * Len(doc.events) + 40,
            bottom |-> -1, ctype |-> ""]                 \* LSC: y location of the prechart bottom, type of the current chart
Ok(s) == s.exc = "" /\ s.fuel > 0
Tick(s) == [s EXCEPT !.fuel = @ - 1]
NodeTy(s) == IF s.cur < 1 \/ s.cur > Len(s.ev) THEN "none" ELSE s.ev[s.cur].ty
Tag(s) == TagOf(s.ev[s.cur])
IsEmpty(s) == NodeTy(s) = "elem" /\ s.ev[s.cur].empty
HasAttr(s, a) == NodeTy(s) \in {"elem", "end"} /\ a \in DOMAIN s.ev[s.cur].attrs          \* libxml2 answers attribute queries on an end tag too
Attr(s, a) == s.ev[s.cur].attrs[a]
Blank(str) == str \in {"", " ", "  \n "}
Throw(s, cls) == [s EXCEPT !.exc = cls]
Ret(s, v) == [s EXCEPT !.rv = v]
Emit(s, item) == [s EXCEPT !.out = Append(@, item)]
Cb(s, n, a) == Emit(s, [e |-> "cb", n |-> n, a |-> a, x |-> "", y |-> ""])
Cb2(s, n, a, x, y) == Emit(s, [e |-> "cb", n |-> n, a |-> a, x |-> x, y |-> y])

(* ---- Path *)
Push(p, t) == [p EXCEPT ![Len(p)] = Append(@, t)] \o << <<>> >>
Count(level, t) == Cardinality({q \in 1..Len(level) : level[q] = t})
Seg(level) == LET t == level[Len(level)] IN IF t \in Indexed THEN "/" \o t \o "[" \o ToString(Count(level, t)) \o "]" ELSE "/" \o t
(* Path::str(tag): one step per level from the root down to (and including) the first level whose current element is `tag`;
   an unknown element met on the way makes it throw xpath_corrupt_error (a std::logic_error) *)
RECURSIVE PathFrom(_, _, _)
PathFrom(p, i, stop) == IF i > Len(p) \/ p[i] = <<>> THEN ""
                        ELSE IF p[i][Len(p[i])] = stop THEN Seg(p[i]) ELSE Seg(p[i]) \o PathFrom(p, i + 1, stop)
RECURSIVE CorruptFrom(_, _, _)
CorruptFrom(p, i, stop) == IF i > Len(p) \/ p[i] = <<>> THEN FALSE
                           ELSE IF p[i][Len(p[i])] = "NONE" THEN TRUE
                           ELSE IF p[i][Len(p[i])] = stop THEN FALSE ELSE CorruptFrom(p, i + 1, stop)
HasNone(p) == CorruptFrom(p, 1, "NONE?")
PathStr(s, stop) == PathFrom(s.path, 1, stop)
(* tracker.setPath(parser, path.str(tag)) *)
SetPath(s, stop) == IF CorruptFrom(s.path, 1, stop) THEN Throw(s, "logic_error") ELSE Emit(s, [e |-> "path", n |-> PathStr(s, stop), a |-> "", x |-> "", y |-> ""])

(* ---- read() *)
Read(s0) ==
    IF ~Ok(s0) THEN s0 ELSE
    LET s == Tick(s0)
        closing == NodeTy(s) = "end" \/ IsEmpty(s)
        popped == SubSeq(s.path, 1, Len(s.path) - 1)
        top == popped[Len(popped)]
        bad == closing /\ (Len(s.path) < 2 \/ top = <<>> \/ top[Len(top)] # Tag(s))
        s1 == IF closing /\ ~bad THEN [s EXCEPT !.path = popped] ELSE s
    IN IF bad THEN Throw(s, "XMLDocError")
       ELSE IF s1.cur >= Len(s1.ev) THEN Throw(s1, "XMLReaderError")
       ELSE LET s2 == [s1 EXCEPT !.cur = @ + 1] IN
            IF NodeTy(s2) = "elem" THEN [s2 EXCEPT !.path = Push(@, Tag(s2))] ELSE s2

RECURSIVE End(_, _)
End(s, tag) == IF ~Ok(s) THEN s
               ELSE IF NodeTy(s) = "ws" THEN End(Read(s), tag)
               ELSE Ret(s, NodeTy(s) = "end" /\ Tag(s) = tag)
RECURSIVE Begin(_, _, _)
Begin(s, tag, skipEmpty) ==
    IF ~Ok(s) THEN s
    ELSE IF NodeTy(s) # "elem" THEN Begin(Read(s), tag, skipEmpty)
    ELSE IF Tag(s) # tag THEN (IF Tag(s) = "NONE" THEN Begin(Read(End(s, "NONE")), tag, skipEmpty) ELSE Ret(s, FALSE))
    ELSE IF ~skipEmpty \/ ~IsEmpty(s) THEN Ret(s, TRUE)
    ELSE Begin(Read(s), tag, skipEmpty)
RECURSIVE SkipTo(_, _)
SkipTo(s, tag) == IF ~Ok(s) THEN s ELSE LET e == End(s, tag) IN IF ~Ok(e) \/ e.rv THEN e ELSE SkipTo(Read(e), tag)
Close(s, tag) == IF ~Ok(s) THEN s ELSE IF ~IsEmpty(s) THEN Read(SkipTo(s, tag)) ELSE Read(s)

(* parse(text, syntax): parse_XTA(.., path.str()) - the text block goes to the grammar (LR.tla); here: the setPath it makes *)
Parse(s, what) == IF ~Ok(s) THEN s ELSE Cb(SetPath(s, "NONE?"), "parse", what)
AttrStr(s, a) == IF HasAttr(s, a) THEN Ret(s, Attr(s, a)) ELSE Throw(s, "logic_error")          \* std::string{nullptr}
NameOf(s, id) == LET hits == {q \in 1..Len(s.names) : s.names[q].id = id} IN
                 IF hits = {} THEN "" ELSE s.names[CHOOSE q \in hits : \A r \in hits : r <= q].name
SetName(s, id, nm) == [s EXCEPT !.names = Append(@, [id |-> id, name |-> nm])]
Named(s, id) == \E q \in 1..Len(s.names) : s.names[q].id = id            \* an instance line may be registered under an empty name
GetName(s, a) == IF HasAttr(s, a) /\ Named(s, Attr(s, a)) THEN Ret(s, NameOf(s, Attr(s, a))) ELSE Throw(s, "XMLDocError")

(* try { body } catch (TypeException& e) { parser->handle_error(e); } *)
Catch(s) == IF s.exc = "TypeException" THEN Cb([s EXCEPT !.exc = ""], "handle_error", "") ELSE s

Declaration(s) ==
    LET b == Begin(s, "declaration", TRUE) IN
    IF ~Ok(b) \/ ~b.rv THEN b
    ELSE LET r == Read(b) IN Ret(IF Ok(r) /\ NodeTy(r) = "text" THEN Parse(r, "S_DECLARATION") ELSE r, TRUE)

(* readString(tag) -> readText *)
ReadString(s, tag) ==
    LET b == Begin(s, tag, TRUE) IN
    IF ~Ok(b) THEN b ELSE IF ~b.rv THEN Ret(b, "")
    ELSE LET r == Read(b) IN
         IF Ok(r) /\ NodeTy(r) = "text" THEN Ret(SetPath(r, "NONE?"), r.ev[r.cur].txt) ELSE Ret(r, "")
Name(s) == ReadString(s, "name")

Parameter(s) ==
    LET b == Begin(s, "parameter", TRUE) IN
    IF ~Ok(b) \/ ~b.rv THEN b
    ELSE LET r == Read(b) IN IF Ok(r) /\ NodeTy(r) = "text" THEN Parse(r, "S_PARAMETERS") ELSE r

LabelKinds == {"invariant", "select", "guard", "synchronisation", "assignment", "probability", "message", "update", "condition"}
(* label(): rv TRUE iff a label element was consumed *)
Label(s) ==
    LET b == Begin(s, "label", TRUE) IN
    IF ~Ok(b) \/ ~b.rv THEN b
    ELSE IF ~HasAttr(b, "kind") THEN Throw(b, "TypeException")
    ELSE LET kind == Attr(b, "kind")
             r == Read(b) IN
         Ret(IF Ok(r) /\ NodeTy(r) = "text" /\ kind \in LabelKinds THEN Parse(r, kind) ELSE r, TRUE)
(* the labels of a location: collected in document order (kind, text, XPath), then handed to the grammar invariant first, rate second -
   the builder takes the rate from the top of its expression stack and the invariant from below it (fix: a rate label written before
   the invariant used to swap the two) *)
RECURSIVE LocLabels(_, _)
LocLabels(s, pend) ==
    IF ~Ok(s) THEN [s |-> s, pend |-> pend]
    ELSE LET b == Begin(Tick(s), "label", TRUE) IN
         IF ~Ok(b) \/ ~b.rv THEN [s |-> b, pend |-> pend]
         ELSE IF ~HasAttr(b, "kind") THEN [s |-> Throw(b, "TypeException"), pend |-> pend]
         ELSE LET kind == Attr(b, "kind")
                  r == Read(b) IN
              IF Ok(r) /\ NodeTy(r) = "text" /\ kind \in {"invariant", "exponentialrate"}
              THEN (IF HasNone(r.path) THEN [s |-> Throw(r, "logic_error"), pend |-> pend]
                    ELSE LocLabels(r, Append(pend, [kind |-> kind, path |-> PathStr(r, "NONE?")])))
              ELSE LocLabels(r, pend)
RECURSIVE ParsePending(_, _, _, _)
ParsePending(s, pend, kind, i) ==
    IF i > Len(pend) THEN s
    ELSE ParsePending(IF pend[i].kind = kind THEN Cb(Emit(s, [e |-> "path", n |-> pend[i].path, a |-> "", x |-> "", y |-> ""]), "parse", kind) ELSE s, pend, kind, i + 1)
HasKind(pend, kind) == \E i \in 1..Len(pend) : pend[i].kind = kind
Flag(s, tag) == LET b == Begin(s, tag, FALSE) IN IF ~Ok(b) \/ ~b.rv THEN b ELSE Ret(Read(b), TRUE)

Location(s) ==
    LET b == Begin(s, "location", FALSE) IN
    IF ~Ok(b) \/ ~b.rv THEN b
    ELSE LET lpath == PathStr(b, "location")
             corrupt == CorruptFrom(b.path, 1, "location")
             body ==
               IF corrupt THEN Throw(b, "logic_error")
               ELSE LET a == AttrStr(b, "id") IN
                    IF ~Ok(a) THEN a
                    ELSE LET id == a.rv
                             r == Read(a) IN                                   \* advance first (fix 055ed83), then validate
                         IF ~Ok(r) THEN r
                         ELSE IF Blank(id) THEN Throw(r, "TypeException")
                         ELSE LET n == Name(r)
                                  l0 == LocLabels(n, <<>>)
                                  ll == [s |-> IF Ok(l0.s) THEN ParsePending(ParsePending(l0.s, l0.pend, "invariant", 1), l0.pend, "exponentialrate", 1) ELSE l0.s]
                                  u == Flag(ll.s, "urgent")
                                  cm == Flag(u, "committed")
                                  nm == IF Blank(n.rv) THEN "_" \o id ELSE n.rv
                              IN IF ~Ok(n) THEN n ELSE IF ~Ok(ll.s) THEN ll.s ELSE IF ~Ok(u) THEN u ELSE IF ~Ok(cm) THEN cm
                                 ELSE LET s1 == Emit(SetName(cm, id, nm), [e |-> "path", n |-> lpath, a |-> "", x |-> "", y |-> ""])
                                          s2 == Cb(s1, "proc_location", nm)
                                          s3 == IF cm.rv = TRUE THEN Cb(s2, "proc_location_commit", nm) ELSE s2
                                      IN IF u.rv = TRUE THEN Cb(s3, "proc_location_urgent", nm) ELSE s3
         IN Ret(Catch(body), TRUE)

Branchpoint(s) ==
    LET b == Begin(s, "branchpoint", FALSE) IN
    IF ~Ok(b) \/ ~b.rv THEN b
    ELSE LET bpath == PathStr(b, "branchpoint")
             body == IF CorruptFrom(b.path, 1, "branchpoint") THEN Throw(b, "logic_error")
                     ELSE LET a == AttrStr(b, "id") IN
                          IF ~Ok(a) THEN a
                          ELSE IF Blank(a.rv) THEN Throw(a, "TypeException")
                          ELSE Cb(Emit(SetName(a, a.rv, "_" \o a.rv), [e |-> "path", n |-> bpath, a |-> "", x |-> "", y |-> ""]), "proc_branchpoint", "_" \o a.rv)
             c == Catch(body)
         IN IF ~Ok(c) THEN c ELSE Ret(Read(c), TRUE)

InitEl(s) ==
    LET b == Begin(s, "init", FALSE) IN
    IF ~Ok(b) THEN b
    ELSE IF ~b.rv THEN Ret(Cb(b, "handle_error", "missing init"), FALSE)
    ELSE IF HasAttr(b, "ref")
         THEN LET g == GetName(b, "ref") IN IF ~Ok(g) THEN g ELSE Ret(Read(Cb(g, "proc_location_init", g.rv)), TRUE)
         ELSE Ret(Read(Cb(b, "handle_error", "missing init")), TRUE)

EndPointA(s, tag, attr) ==
    LET b == Begin(s, tag, FALSE) IN
    IF ~Ok(b) THEN b ELSE IF ~b.rv THEN Throw(b, "TypeException")
    ELSE LET g == GetName(b, attr) IN IF ~Ok(g) THEN g ELSE Ret(Read(g), g.rv)
EndPoint(s, tag) == EndPointA(s, tag, "ref")
RECURSIVE Labels(_)
Labels(s) == IF ~Ok(s) THEN s ELSE LET l == Label(Tick(s)) IN IF ~Ok(l) \/ l.rv # TRUE THEN l ELSE Labels(l)
RECURSIVE Nails(_)
Nails(s) == IF ~Ok(s) THEN s ELSE LET b == Begin(Tick(s), "nail", TRUE) IN IF ~Ok(b) \/ ~b.rv THEN b ELSE Nails(Read(b))
Transition(s) ==
    LET b == Begin(s, "transition", TRUE) IN
    IF ~Ok(b) \/ ~b.rv THEN b
    ELSE LET ctrl == IF HasAttr(b, "controllable") /\ Attr(b, "controllable") # "true" THEN "false" ELSE "true"
             r == Read(b)
             f == EndPoint(r, "source")
             t == EndPoint(f, "target")
             body == IF ~Ok(f) THEN f ELSE IF ~Ok(t) THEN t
                     ELSE LET e1 == Cb2(t, "proc_edge_begin", f.rv \o "->" \o t.rv \o ":" \o ctrl, f.rv, t.rv)
                              e2 == Nails(Labels(e1))
                          IN IF ~Ok(e2) THEN e2 ELSE Cb(e2, "proc_edge_end", "")
         IN Ret(Catch(body), TRUE)

RECURSIVE Locations(_)
Locations(s) == IF ~Ok(s) THEN s ELSE LET l == Location(Tick(s)) IN IF ~Ok(l) \/ l.rv # TRUE THEN l ELSE Locations(l)
RECURSIVE Branchpoints(_)
Branchpoints(s) == IF ~Ok(s) THEN s ELSE LET l == Branchpoint(Tick(s)) IN IF ~Ok(l) \/ l.rv # TRUE THEN l ELSE Branchpoints(l)
RECURSIVE Transitions(_)
Transitions(s) == IF ~Ok(s) THEN s ELSE LET l == Transition(Tick(s)) IN IF ~Ok(l) \/ l.rv # TRUE THEN l ELSE Transitions(l)

Templ(s) ==
    LET b == Begin(s, "template", TRUE) IN
    IF ~Ok(b) \/ ~b.rv THEN b
    ELSE IF CorruptFrom(b.path, 1, "template") THEN Throw(b, "logic_error")
    ELSE LET tpath == PathStr(b, "template")
             P(x) == Emit(x, [e |-> "path", n |-> tpath, a |-> "", x |-> "", y |-> ""])
             r == Read(b)
             body == LET n == Name(r)
                         p == Parameter(n)
                     IN IF ~Ok(r) THEN r ELSE IF ~Ok(n) THEN n ELSE IF ~Ok(p) THEN p
                        ELSE LET s1 == Cb(P(p), "proc_begin", n.rv)
                                 s2 == Branchpoints(Locations(Declaration(s1)))
                                 s3 == IF Ok(s2) THEN InitEl(P(s2)) ELSE s2
                                 s4 == Transitions(s3)
                             IN IF Ok(s4) THEN Cb(P(s4), "proc_end", "") ELSE s4
         IN Ret(Catch(body), TRUE)
RECURSIVE Templates(_)
Templates(s) == IF ~Ok(s) THEN s ELSE LET l == Templ(Tick(s)) IN IF ~Ok(l) \/ l.rv # TRUE THEN l ELSE Templates(l)


(* ------------------------------------------------------------------------------------------------ LSC templates *)
PathEv(x, pth) == Emit(x, [e |-> "path", n |-> pth, a |-> "", x |-> "", y |-> ""])
Bool(b) == IF b THEN "true" ELSE "false"
(* std::from_chars on the text of <lsclocation>: anything that does not start with a number throws std::logic_error THROUGH the
   reader (the surrounding try catches `const char*` only); -1, a missing element and an element without text give XMLDocError *)
NumTab == [x \in {"0", "1", "2", "3", "4", "5", "-1"} |-> CASE x = "0" -> 0 [] x = "1" -> 1 [] x = "2" -> 2 [] x = "3" -> 3 [] x = "4" -> 4 [] x = "5" -> 5 [] OTHER -> -1]
LscLocation(s) ==
    LET b == Begin(s, "lsclocation", TRUE) IN
    IF ~Ok(b) THEN b ELSE IF ~b.rv THEN Throw(b, "XMLDocError")
    ELSE LET r == Read(b) IN
         IF ~Ok(r) THEN r
         ELSE IF NodeTy(r) # "text" THEN Throw(r, "XMLDocError")
         ELSE LET p == SetPath(r, "NONE?")
                  txt == r.ev[r.cur].txt IN
              IF ~Ok(p) THEN p
              ELSE IF txt \notin DOMAIN NumTab THEN Throw(p, "logic_error")
              ELSE IF NumTab[txt] = -1 THEN Throw(p, "XMLDocError") ELSE Ret(p, NumTab[txt])
RECURSIVE Join(_, _)
Join(ss, i) == IF i > Len(ss) THEN "" ELSE IF i = Len(ss) THEN ss[i] ELSE ss[i] \o "," \o Join(ss, i + 1)
RECURSIVE Anchors(_, _)
Anchors(s, acc) ==
    IF ~Ok(s) THEN s
    ELSE LET b == Begin(Tick(s), "anchor", FALSE) IN
         IF ~Ok(b) THEN b
         ELSE IF ~b.rv THEN (IF acc = <<>> THEN Throw(b, "TypeException") ELSE Ret(b, Join(acc, 1)))
         ELSE LET g == GetName(b, "instanceid") IN
              IF ~Ok(g) THEN g ELSE Anchors(Read(g), Append(acc, g.rv))
Temperature(s) ==
    LET b == Begin(s, "temperature", FALSE) IN
    IF ~Ok(b) THEN b ELSE IF ~b.rv THEN Throw(b, "TypeException")
    ELSE LET r == Read(b) IN
         IF Ok(r) /\ NodeTy(r) = "text" THEN Ret(SetPath(r, "NONE?"), r.ev[r.cur].txt) ELSE Ret(r, "")
(* label(true, kind): a missing label is reported (setPath + handle_error), not thrown *)
LabelReq(s) ==
    LET l == Label(s) IN
    IF ~Ok(l) \/ l.rv = TRUE THEN l ELSE Cb(SetPath(l, "NONE?"), "handle_error", "label required")
Yloccoord(s) == LET b == Begin(s, "yloccoord", FALSE) IN IF ~Ok(b) \/ ~b.rv THEN b ELSE Ret(Read(b), TRUE)
Instance(s) ==
    LET b == Begin(s, "instance", FALSE) IN
    IF ~Ok(b) \/ ~b.rv THEN b
    ELSE LET body ==
               IF CorruptFrom(b.path, 1, "instance") THEN Throw(b, "logic_error")
               ELSE LET ipath == PathStr(b, "instance")
                        a == AttrStr(b, "id") IN
                    IF ~Ok(a) THEN a
                    ELSE LET id == a.rv
                             r == Read(a) IN
                         IF ~Ok(r) THEN r
                         ELSE IF Blank(id) THEN Throw(r, "TypeException")
                         ELSE LET n0 == ReadString(PathEv(r, ipath), "name")
                                  n == IF Ok(n0) /\ n0.rv = "" THEN Ret(Cb(n0, "handle_error", "instance name required"), "") ELSE n0
                              IN IF ~Ok(n) THEN n
                                 ELSE Parse(Cb(PathEv(SetName(n, id, n.rv), ipath), "proc_instance_line", ""), "S_INSTANCE_LINE")
         IN Ret(Catch(body), TRUE)
Prechart(s) ==
    LET b == Begin(s, "prechart", FALSE) IN
    IF ~Ok(b) THEN b
    ELSE IF ~b.rv THEN Ret(Cb([b EXCEPT !.bottom = -1], "prechart_set", "false"), FALSE)
    ELSE LET body ==
               IF CorruptFrom(b.path, 1, "prechart") THEN Throw(b, "logic_error")
               ELSE LET ppath == PathStr(b, "prechart")
                        l == LscLocation(Read(b)) IN
                    IF ~Ok(l) THEN l
                    ELSE LET s1 == [l EXCEPT !.bottom = l.rv]
                             s2 == IF s1.ctype \in {"existential", "Existential", "EXISTENTIAL"} THEN Cb(PathEv(s1, ppath), "handle_error", "existential chart with prechart") ELSE s1
                         IN Cb(s2, "prechart_set", "true")
         IN Ret(Catch(body), TRUE)
Message(s) ==
    LET b == Begin(s, "message", TRUE) IN
    IF ~Ok(b) \/ ~b.rv THEN b
    ELSE LET body ==
               IF CorruptFrom(b.path, 1, "message") THEN Throw(b, "logic_error")
               ELSE LET mpath == PathStr(b, "message")
                        f == EndPoint(Read(b), "source")
                        t == EndPoint(f, "target")
                        l == LscLocation(t) IN
                    IF ~Ok(f) THEN f ELSE IF ~Ok(t) THEN t ELSE IF ~Ok(l) THEN l
                    ELSE LabelReq(PathEv(Cb(PathEv(l, mpath), "proc_message", f.rv \o "->" \o t.rv \o ":" \o ToString(l.rv) \o ":" \o Bool(l.rv < l.bottom)), mpath))
         IN Ret(Catch(body), TRUE)
Condition(s) ==
    LET b == Begin(s, "condition", TRUE) IN
    IF ~Ok(b) \/ ~b.rv THEN b
    ELSE LET body ==
               IF CorruptFrom(b.path, 1, "condition") THEN Throw(b, "logic_error")
               ELSE LET cpath == PathStr(b, "condition")
                        an == Anchors(Read(b), <<>>)
                        l == LscLocation(an)
                        tm == Temperature(PathEv(l, cpath)) IN
                    IF ~Ok(an) THEN an ELSE IF ~Ok(l) THEN l ELSE IF ~Ok(tm) THEN tm
                    ELSE LabelReq(Cb(tm, "proc_condition", an.rv \o ":" \o ToString(l.rv) \o ":" \o Bool(l.rv < l.bottom) \o ":" \o Bool(tm.rv = "hot")))
         IN Ret(Catch(body), TRUE)
Update(s) ==
    LET b == Begin(s, "update", TRUE) IN
    IF ~Ok(b) \/ ~b.rv THEN b
    ELSE LET body ==
               IF CorruptFrom(b.path, 1, "update") THEN Throw(b, "logic_error")
               ELSE LET upath == PathStr(b, "update")
                        an == EndPointA(Read(b), "anchor", "instanceid")
                        l == LscLocation(an) IN
                    IF ~Ok(an) THEN an ELSE IF ~Ok(l) THEN l
                    ELSE LabelReq(Cb(PathEv(l, upath), "proc_LSC_update", an.rv \o ":" \o ToString(l.rv) \o ":" \o Bool(l.rv < l.bottom)))
         IN Ret(Catch(body), TRUE)
RECURSIVE Yloccoords(_)
Yloccoords(s) == IF ~Ok(s) THEN s ELSE LET l == Yloccoord(Tick(s)) IN IF ~Ok(l) \/ l.rv # TRUE THEN l ELSE Yloccoords(l)
RECURSIVE Instances(_)
Instances(s) == IF ~Ok(s) THEN s ELSE LET l == Instance(Tick(s)) IN IF ~Ok(l) \/ l.rv # TRUE THEN l ELSE Instances(l)
RECURSIVE Messages(_)
Messages(s) == IF ~Ok(s) THEN s ELSE LET l == Message(Tick(s)) IN IF ~Ok(l) \/ l.rv # TRUE THEN l ELSE Messages(l)
RECURSIVE Conditions(_)
Conditions(s) == IF ~Ok(s) THEN s ELSE LET l == Condition(Tick(s)) IN IF ~Ok(l) \/ l.rv # TRUE THEN l ELSE Conditions(l)
RECURSIVE Updates(_)
Updates(s) == IF ~Ok(s) THEN s ELSE LET l == Update(Tick(s)) IN IF ~Ok(l) \/ l.rv # TRUE THEN l ELSE Updates(l)
LscTempl(s) ==
    LET b == Begin(s, "lsc", TRUE) IN
    IF ~Ok(b) \/ ~b.rv THEN b
    ELSE IF CorruptFrom(b.path, 1, "lsc") THEN Throw(b, "logic_error")
    ELSE LET tpath == PathStr(b, "lsc")
             r == Read(b)
             body == LET n == Name(r)
                         p == Parameter(n)
                         ty == ReadString(p, "type")
                         mo == ReadString(ty, "mode")
                     IN IF ~Ok(r) THEN r ELSE IF ~Ok(n) THEN n ELSE IF ~Ok(p) THEN p ELSE IF ~Ok(ty) THEN ty ELSE IF ~Ok(mo) THEN mo
                        ELSE LET s1 == Cb(PathEv([mo EXCEPT !.ctype = ty.rv], tpath), "proc_begin", n.rv \o ":" \o ty.rv \o ":" \o mo.rv)
                                 s2 == Prechart(Instances(Yloccoords(Declaration(s1))))
                                 s3 == Updates(Conditions(Messages(s2)))
                             IN IF Ok(s3) THEN Cb(PathEv(s3, tpath), "proc_end", "") ELSE s3
         IN Ret(Catch(body), TRUE)
RECURSIVE LscTemplates(_)
LscTemplates(s) == IF ~Ok(s) THEN s ELSE LET l == LscTempl(Tick(s)) IN IF ~Ok(l) \/ l.rv # TRUE THEN l ELSE LscTemplates(l)

Instantiation(s) ==
    LET b == Begin(s, "instantiation", FALSE) IN
    IF ~Ok(b) \/ ~b.rv THEN b ELSE LET r == Read(b) IN Ret(Parse(r, "S_INST"), TRUE)

System(s) ==
    LET b == Begin(s, "system", FALSE) IN
    IF ~Ok(b) THEN b
    ELSE IF ~b.rv THEN Cb(SetPath(b, "nta"), "handle_error", "missing system")
    ELSE LET r == Read(b) IN
         IF ~Ok(r) THEN r
         ELSE IF NodeTy(r) = "end" \/ NodeTy(r) # "text" \/ Blank(r.ev[r.cur].txt)
              THEN Close(Cb(SetPath(r, "system"), "handle_error", "empty system"), "system")
              ELSE Close(Parse(r, "S_SYSTEM"), "system")

(* model_options(): begin(OPTION) skips empty elements; the attributes are read AFTER read(), from whatever node follows *)
RECURSIVE ModelOptions(_)
ModelOptions(s) ==
    IF ~Ok(s) THEN s
    ELSE LET b == Begin(Tick(s), "option", TRUE) IN
         IF ~Ok(b) \/ ~b.rv THEN Ret(b, TRUE)
         ELSE LET r == Read(b) IN
              IF ~Ok(r) THEN r
              ELSE IF HasAttr(r, "key") THEN ModelOptions(Close(Cb(r, "model_option", Attr(r, "key")), "option"))
              ELSE Throw(Cb(Cb(r, "handle_error", "option without key"), "model_option", ""), "logic_error")       \* model_option(nullptr, ..): handle_error, then option_t{nullptr, ..} throws
ZeroOrOne(s, tag, f(_)) == LET e == End(s, tag) IN IF ~Ok(e) \/ e.rv THEN e ELSE f(e)

Formula(s) ==
    LET b == Begin(s, "formula", FALSE) IN
    IF ~Ok(b) \/ ~b.rv THEN b
    ELSE IF IsEmpty(b) THEN Ret(Read(b), TRUE)
    ELSE LET r == Read(b) IN IF ~Ok(r) THEN r ELSE IF CorruptFrom(r.path, 1, "formula") THEN Throw(r, "logic_error")
         ELSE Ret(Close(Cb(r, "query_formula", PathStr(r, "formula")), "formula"), TRUE)
Comment(s) ==
    LET b == Begin(s, "comment", FALSE) IN
    IF ~Ok(b) \/ ~b.rv THEN b
    ELSE IF IsEmpty(b) THEN Ret(Read(b), TRUE)
    ELSE LET r == Read(b) IN IF ~Ok(r) THEN r ELSE Ret(Close(Cb(r, "query_comment", ""), "comment"), TRUE)
Option(s) ==
    LET b == Begin(s, "option", FALSE) IN
    IF ~Ok(b) \/ ~b.rv THEN b
    ELSE IF HasAttr(b, "key") THEN Ret(Close(Cb(b, "query_options", Attr(b, "key")), "option"), TRUE)
    ELSE Throw(Cb(Cb(b, "handle_error", "option without key"), "query_options", ""), "logic_error")
RECURSIVE Options(_)
Options(s) == IF ~Ok(s) THEN s ELSE LET e == End(Tick(s), "query") IN IF ~Ok(e) \/ e.rv THEN e ELSE LET o == Option(e) IN IF ~Ok(o) \/ o.rv # TRUE THEN o ELSE Options(o)
(* the resource loop starts with the cursor still ON the <expect> start tag: begin(RESOURCE) sees a different known element and
   gives up, so the resources of an expectation are never read *)
Resource(s) ==
    LET b == Begin(s, "resource", FALSE) IN
    IF ~Ok(b) \/ ~b.rv THEN b
    ELSE IF HasAttr(b, "type") /\ HasAttr(b, "value") /\ HasAttr(b, "unit") THEN Ret(Close(Cb(b, "expect_resource", ""), "resource"), TRUE)
    ELSE Throw(b, "logic_error")
RECURSIVE Resources(_)
Resources(s) == IF ~Ok(s) THEN s ELSE LET e == End(Tick(s), "expect") IN IF ~Ok(e) \/ e.rv THEN e ELSE LET o == Resource(e) IN IF ~Ok(o) \/ o.rv # TRUE THEN o ELSE Resources(o)
Expectation(s) ==
    LET b == Begin(s, "expect", FALSE) IN
    IF ~Ok(b) \/ ~b.rv THEN b
    ELSE IF IsEmpty(b) THEN Ret(Read(b), TRUE)
    ELSE LET s1 == Cb(Cb(b, "expectation_begin", ""), "expectation_value", "")
             s2 == Resources(s1)
         IN IF ~Ok(s2) THEN s2 ELSE Ret(Close(Cb(s2, "expectation_end", ""), "expect"), TRUE)
ResultEl(s) == LET b == Begin(s, "result", FALSE) IN IF ~Ok(b) \/ ~b.rv THEN b ELSE Ret(Close(b, "result"), TRUE)
RECURSIVE Results(_)
Results(s) == IF ~Ok(s) THEN s ELSE LET e == End(Tick(s), "query") IN IF ~Ok(e) \/ e.rv THEN e ELSE LET o == ResultEl(e) IN IF ~Ok(o) \/ o.rv # TRUE THEN o ELSE Results(o)
Query(s) ==
    LET b == Begin(s, "query", FALSE) IN
    IF ~Ok(b) \/ ~b.rv THEN b
    ELSE IF IsEmpty(b) THEN Ret(Read(b), TRUE)
    ELSE LET s1 == Cb(Read(b), "query_begin", "")
             s2 == ZeroOrOne(s1, "query", Formula)
             s3 == ZeroOrOne(s2, "query", Comment)
             s4 == Options(s3)
             s5 == ZeroOrOne(s4, "query", Expectation)
             s6 == Results(s5)
         IN IF ~Ok(s6) THEN s6 ELSE Ret(Close(Cb(s6, "query_end", ""), "query"), TRUE)
RECURSIVE QueryList(_)
QueryList(s) == IF ~Ok(s) THEN s ELSE LET e == End(Tick(s), "queries") IN IF ~Ok(e) \/ e.rv THEN e ELSE LET o == Query(e) IN IF ~Ok(o) \/ o.rv # TRUE THEN o ELSE QueryList(o)
Queries(s) ==
    LET b == Begin(s, "queries", FALSE) IN
    IF ~Ok(b) \/ ~b.rv THEN b
    ELSE LET r == Read(b)
             m == ZeroOrOne(r, "queries", ModelOptions)
             q == QueryList(m)
         IN IF ~Ok(q) THEN q ELSE Ret(Close(q, "queries"), TRUE)

(* XMLReader constructor (one read()) + project() *)
Project(doc) ==
    LET c0 == Read(S0(doc))
        b1 == Begin(c0, "nta", TRUE)
        b2 == IF Ok(b1) /\ ~b1.rv THEN Begin(b1, "project", TRUE) ELSE b1
    IN IF ~Ok(b2) THEN b2
       ELSE IF ~b2.rv THEN Throw(b2, "TypeException")
       ELSE LET n == Begin(b2, "nta", TRUE)
                s1 == Cb(Emit(n, [e |-> "path", n |-> PathStr(n, "NONE?"), a |-> "", x |-> "", y |-> ""]), "parse", "builtin")
                s2 == Declaration(Read(s1))
                s3 == Templates(s2)
                s4 == LscTemplates(s3)
                s5 == System(Instantiation(s4))
                e == End(s5, IF n.rv THEN "nta" ELSE "project")
                s6 == IF Ok(e) /\ ~e.rv THEN Queries(e) ELSE e
            IN IF ~Ok(s6) THEN s6 ELSE Cb(s6, "done", "")

Outcome(r) == IF r.exc = "" THEN (IF r.fuel > 0 THEN "return" ELSE "diverges") ELSE "throw:" \o r.exc
Terminates(r) == r.fuel > 0
OutcomeAllowed(r) == Outcome(r) \in {"return", "throw:TypeException", "throw:XMLDocError", "throw:XMLReaderError", "throw:logic_error"}
=============================================================================
