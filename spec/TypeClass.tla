----------------------------- MODULE TypeClass -----------------------------
(* Property C10: only convex clock constraints are accepted as guards and invariants.

   Two views of the same rules:
   (1) a postfix FORMULA-BUILDING STACK MACHINE over abstract values
       [cls, clk, cvx] (type class the checker assigns / contains a clock comparison /
       convex by the property's definition). One action per connective, exactly as the
       parser pushes fragments and TypeChecker::checkExpression types them bottom-up.
       Because the abstract domain is finite, TLC's fixpoint covers formulas of EVERY depth
       (up to the stack-depth bound = Strahler number), not only the replayed ones.
   (2) concrete formula trees to a depth bound with the same two judgements, exported for
       replay into the real type checker.

   Rule* transcribe typechecker.cpp (AND/OR/NOT/XOR/EQ/NEQ/FORALL/EXISTS and the relational
   cases); Convex* is written from the property statement only.                              *)
EXTENDS Integers, Sequences, FiniteSets, TLC, Json, SequencesExt

CONSTANTS MaxStack,      \* stack machine: bound on stack depth
          Depth,         \* concrete trees: depth bound
          FullLeaves     \* TRUE: every relational operator as its own leaf; FALSE: one leaf per type class

(* type classes, ordered as type.h: integral <= invariant <= guard <= constraint; ERR = rejected by the checker *)
Cls == {"BOOL", "INV", "GUARD", "CONSTR", "ERR"}
Rank(c) == CASE c = "BOOL" -> 0 [] c = "INV" -> 1 [] c = "GUARD" -> 2 [] c = "CONSTR" -> 3 [] c = "ERR" -> 9
IsIntegral(c) == c = "BOOL"
IsInv(c) == Rank(c) <= 1
IsGuard(c) == Rank(c) <= 2
IsConstr(c) == Rank(c) <= 3

(* leaves are triples <<op, operand, orientation>>:
     <<"p","","">>  i < 3 (integer predicate)      <<"b","","">>  b (boolean variable)
     <<op, od, orr>> with op in lt le gt ge eq ne, od in c (clock x) / d (difference x - y),
                     orr in l (x op 3) / r (3 op x)
   class assigned by the relational cases of typechecker.cpp (LT/LE, GE/GT: INVARIANT; EQ: GUARD; NEQ: CONSTRAINT),
   whichever side the clock is on *)
RelOps == {"lt", "le", "gt", "ge", "eq", "ne"}
RelLeaves == {<<op, od, orr>> : op \in RelOps, od \in {"c", "d"}, orr \in {"l", "r"}}
AllLeaves == {<<"p", "", "">>, <<"b", "", "">>} \cup RelLeaves
ClassLeaves == {<<"p", "", "">>, <<"lt", "c", "l">>, <<"eq", "c", "l">>, <<"ne", "c", "l">>}
MidLeaves == ClassLeaves \cup {<<"b", "", "">>, <<"le", "c", "l">>, <<"gt", "c", "l">>, <<"ge", "c", "l">>, <<"lt", "d", "l">>,
                               <<"ge", "d", "l">>, <<"eq", "d", "l">>, <<"lt", "c", "r">>}
LeafCls(l) == IF l[1] \in {"p", "b"} THEN "BOOL"
              ELSE IF l[1] \in {"lt", "le", "gt", "ge"} THEN "INV"
              ELSE IF l[1] = "eq" THEN "GUARD" ELSE "CONSTR"
LeafClk(l) == l[1] \notin {"p", "b"}
ThoroughLeaves == ClassLeaves \cup {<<"b", "", "">>}
LeafNames == IF FullLeaves THEN ThoroughLeaves ELSE ClassLeaves

Unary == {"not", "forall", "exists"}
Binary == {"and", "or", "imply", "xor", "eqq", "neq"}

---------------------------------------------------------------------------
(* typechecker.cpp transcription *)
RuleAnd(a, b) == IF IsIntegral(a) /\ IsIntegral(b) THEN "BOOL"
                 ELSE IF IsInv(a) /\ IsInv(b) THEN "INV"
                 ELSE IF IsGuard(a) /\ IsGuard(b) THEN "GUARD"
                 ELSE IF IsConstr(a) /\ IsConstr(b) THEN "CONSTR" ELSE "ERR"
RuleOr(a, b) == IF IsIntegral(a) /\ IsIntegral(b) THEN "BOOL"
                ELSE IF (IsIntegral(a) /\ IsInv(b)) \/ (IsInv(a) /\ IsIntegral(b)) THEN "INV"
                ELSE IF (IsIntegral(a) /\ IsGuard(b)) \/ (IsGuard(a) /\ IsIntegral(b)) THEN "GUARD"
                ELSE IF IsConstr(a) /\ IsConstr(b) THEN "CONSTR" ELSE "ERR"
RuleNot(a) == IF IsIntegral(a) THEN "BOOL" ELSE IF IsConstr(a) THEN "CONSTR" ELSE "ERR"
RuleXor(a, b) == IF IsIntegral(a) /\ IsIntegral(b) THEN "BOOL" ELSE "ERR"
RuleEqq(a, b) == IF IsIntegral(a) /\ IsIntegral(b) THEN "BOOL" ELSE "ERR"     \* areEqCompatible on non-integral formula types fails
RuleForall(a) == IF a = "ERR" THEN "ERR" ELSE a                                 \* BOOL/INV/GUARD/CONSTR preserved
RuleExists(a) == IF IsIntegral(a) THEN "BOOL" ELSE IF IsConstr(a) THEN "CONSTR" ELSE "ERR"

RuleUn(op, a) == IF a = "ERR" THEN "ERR"
                 ELSE CASE op = "not" -> RuleNot(a) [] op = "forall" -> RuleForall(a) [] op = "exists" -> RuleExists(a)
RuleBin(op, a, b) == IF a = "ERR" \/ b = "ERR" THEN "ERR"
                     ELSE CASE op = "and" -> RuleAnd(a, b) [] op = "or" -> RuleOr(a, b)
                            [] op = "imply" -> RuleOr(RuleNot(a), b)     \* parser.y: a imply b is built as !a || b
                            [] op = "xor" -> RuleXor(a, b) [] op = "eqq" -> RuleEqq(a, b) [] op = "neq" -> RuleEqq(a, b)

(* the property's definition of convexity, on [clk, cvx] *)
CvxUn(op, a) == CASE op = "not" -> ~a.clk [] op = "forall" -> a.cvx [] op = "exists" -> ~a.clk
CvxBin(op, a, b) == CASE op = "and" -> a.cvx /\ b.cvx
                      [] op = "or" -> (~a.clk /\ b.cvx) \/ (~b.clk /\ a.cvx)
                      [] op = "imply" -> ~a.clk /\ b.cvx
                      [] op \in {"xor", "eqq", "neq"} -> ~a.clk /\ ~b.clk

AbsLeaf(l) == [cls |-> LeafCls(l), clk |-> LeafClk(l), cvx |-> TRUE, conj |-> TRUE]
AbsUn(op, a) == [cls |-> RuleUn(op, a.cls), clk |-> a.clk, cvx |-> CvxUn(op, a), conj |-> FALSE]
AbsBin(op, a, b) == [cls |-> RuleBin(op, a.cls, b.cls), clk |-> a.clk \/ b.clk, cvx |-> CvxBin(op, a, b),
                     conj |-> op = "and" /\ a.conj /\ b.conj]

AcceptsGuard(v) == IsGuard(v.cls)           \* visitEdge: is_guard(edge.guard)
AcceptsInv(v) == IsInv(v.cls)               \* visitLocation: isInvariantWR(inv) (no rates here)
AtomOKGuard(v) == IsGuard(v.cls)
AtomOKInv(v) == IsInv(v.cls)

---------------------------------------------------------------------------
(* (1) stack machine *)
VARIABLES stk, okg, oki     \* okg/oki: every atom pushed so far is acceptable alone as guard / invariant
vars == <<stk, okg, oki>>

Init == stk = <<>> /\ okg = <<>> /\ oki = <<>>
PushLeaf == /\ Len(stk) < MaxStack
            /\ \E l \in AllLeaves :
                  /\ stk' = Append(stk, AbsLeaf(l))
                  /\ okg' = Append(okg, AtomOKGuard(AbsLeaf(l)))
                  /\ oki' = Append(oki, AtomOKInv(AbsLeaf(l)))
ApplyUn == /\ Len(stk) >= 1
           /\ \E op \in Unary :
                 stk' = [stk EXCEPT ![Len(stk)] = AbsUn(op, stk[Len(stk)])]
           /\ UNCHANGED <<okg, oki>>
ApplyBin == /\ Len(stk) >= 2
            /\ \E op \in Binary :
                  LET n == Len(stk) IN
                  /\ stk' = Append(SubSeq(stk, 1, n - 2), AbsBin(op, stk[n - 1], stk[n]))
                  /\ okg' = Append(SubSeq(okg, 1, n - 2), okg[n - 1] /\ okg[n])
                  /\ oki' = Append(SubSeq(oki, 1, n - 2), oki[n - 1] /\ oki[n])
Next == PushLeaf \/ ApplyUn \/ ApplyBin
Spec == Init /\ [][Next]_vars

(* C10 on the design: whatever the checker accepts is convex; plain conjunctions of acceptable atoms are accepted *)
SoundGuard == \A i \in 1..Len(stk) : AcceptsGuard(stk[i]) => stk[i].cvx
SoundInv   == \A i \in 1..Len(stk) : AcceptsInv(stk[i]) => stk[i].cvx
CompleteConj == \A i \in 1..Len(stk) : stk[i].conj => /\ (okg[i] => AcceptsGuard(stk[i]))
                                                       /\ (oki[i] => AcceptsInv(stk[i]))

---------------------------------------------------------------------------
(* (2) concrete trees, exported *)
RECURSIVE TreesOver(_, _)
TreesOver(L, d) == IF d = 0 THEN {<<l>> : l \in L}
            ELSE LET S == TreesOver(L, d - 1) IN
                 S \cup {<<op, a>> : op \in Unary, a \in S} \cup {<<op, a, b>> : op \in Binary, a \in S, b \in S}
RECURSIVE Abs(_)
Abs(t) == IF Len(t) = 1 THEN AbsLeaf(t[1])
          ELSE IF Len(t) = 2 THEN AbsUn(t[1], Abs(t[2]))
          ELSE AbsBin(t[1], Abs(t[2]), Abs(t[3]))
RECURSIVE Atoms(_)
Atoms(t) == IF Len(t) = 1 THEN {t[1]} ELSE IF Len(t) = 2 THEN Atoms(t[2]) ELSE Atoms(t[2]) \cup Atoms(t[3])

Case(t) == LET v == Abs(t) IN
    [t |-> t, cvx |-> v.cvx, clk |-> v.clk, cls |-> v.cls, conj |-> v.conj,
     atomsg |-> \A l \in Atoms(t) : AtomOKGuard(AbsLeaf(l)), atomsi |-> \A l \in Atoms(t) : AtomOKInv(AbsLeaf(l))]

(* replayed universe: every tree to depth Depth over the chosen leaf set, plus every tree to depth 1 over ALL
   24 relational spellings (operator x clock/difference x side), so a rule that mis-types one spelling is hit *)
(* FullLeaves adds the "spines": a depth-1 tree over the 12 middle leaves combined with one more leaf on either side, or under a unary
   operator (the complete depth-2 universe over 12 leaves has 5 million trees) *)
Spines(full) == IF ~full THEN {}        \* an operator with a parameter: TLC evaluates parameterless constant definitions at start-up, in every run
          ELSE LET S == TreesOver(MidLeaves, 1) IN
               {<<op, a, <<l>> >> : op \in Binary, a \in S, l \in MidLeaves} \cup {<<op, <<l>>, a>> : op \in Binary, a \in S, l \in MidLeaves}
               \cup {<<op, a>> : op \in Unary, a \in S}
Trees(d) == TreesOver(LeafNames, d) \cup TreesOver(AllLeaves, 1)
TreeSound == \A t \in Trees(Depth) : LET v == Abs(t) IN
                /\ AcceptsGuard(v) => v.cvx
                /\ AcceptsInv(v) => v.cvx
SpineSound == \A t \in Spines(FullLeaves) : LET v == Abs(t) IN (AcceptsGuard(v) => v.cvx) /\ (AcceptsInv(v) => v.cvx)
Export(file) == LET S == Trees(Depth) IN ndJsonSerialize(file, SetToSeq({Case(t) : t \in S}))
ExportSpines(file) == ndJsonSerialize(file, SetToSeq({Case(t) : t \in Spines(FullLeaves)}))
=============================================================================
