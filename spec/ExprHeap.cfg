CONSTANTS
  MaxOps = 3
  MaxNodes = 16
  MaxHandles = 4
INIT Init
NEXT Next
INVARIANTS Laws ArityIsSub EmitState
CHECK_DEADLOCK FALSE
