---- MODULE SymTypingMC ----
EXTENDS SymTyping, IOUtils
ASSUME Export(IOEnv.OUTF)
ASSUME PrintT(<<"EMIT", ToJson([sym |-> Sym, symif |-> SymIf, symref |-> SymRef, refequiv |-> RefIsEquiv,
      asym |-> {<<c.op, c.a, c.b>> : c \in {c \in OpCases \cup IfCases : c.r # (IF c.kind = "if" THEN RuleIf(c.b, c.a) ELSE Rule(c.op, c.b, c.a))}}])>>)
====
