CONSTANTS
  MaxLen = 8
  MaxT = 2
  MaxL = 2
  MaxE = 2
  MaxI = 2
  MaxP = 2
INIT Init
NEXT Next
VIEW View
INVARIANTS Inv FramesBack EmitAll
CHECK_DEADLOCK FALSE
