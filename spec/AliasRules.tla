----------------------------- MODULE AliasRules -----------------------------
(* C09, grammar side, without a length bound: a STRUCTURAL condition on the grammar extracted from the working tree's
   parser.y (rules with their right-hand sides and transcribed actions, the precedence table) that implies the alias part
   of AliasLR's invariant for token strings of any length:

     AliasClosed : the two spellings of an operator have the same precedence level and associativity, and every
                   production that mentions one spelling has a twin production - same left-hand side, same right-hand
                   side with the other spelling at that position, the same semantic action.

   With it, exchanging the spellings at one position of an input maps every parse (the LALR automaton being the same up
   to the renaming of the twin items, conflicts resolved alike because the levels are equal) to a parse with the same
   callbacks. AliasLR checks the conclusion on all strings up to a bound and so also covers what this module assumes
   (explicit %prec annotations, which the extraction does not carry per rule); this module covers the productions the
   bounded exploration does not reach - an operator spelled out inside some long production of its own (the Buechi
   objective `A[] ( p and A<> q )` is one).

   Tokens that have an alias only in operator position: `!` is also the send marker of a synchronisation (`c!`), where
   `c not` is not a spelling - the productions of SyncExpr are exempt.                                                *)
EXTENDS Integers, Sequences, FiniteSets, TLC, Json, IOUtils

Tables == JsonDeserialize(IOEnv.LR_TABLES)
Rules == Tables.rules
Prec == Tables.prec

Pairs == { <<"T_KW_AND", "T_BOOL_AND">>, <<"T_KW_OR", "T_BOOL_OR">>, <<"T_KW_NOT", "T_EXCLAM">> }
Other(t) == IF \E p \in Pairs : p[1] = t THEN (CHOOSE p \in Pairs : p[1] = t)[2]
            ELSE IF \E p \in Pairs : p[2] = t THEN (CHOOSE p \in Pairs : p[2] = t)[1]
            ELSE t
IsAlias(t) == Other(t) # t
Exempt(r) == r.lhs = "SyncExpr"

SameLevel == \A p \in Pairs : Prec[p[1]] = Prec[p[2]]

SwapAt(rhs, i) == [rhs EXCEPT ![i] = Other(rhs[i])]
HasTwin(r, i) == \E k \in 1..Len(Rules) : /\ Rules[k].lhs = r.lhs
                                         /\ Rules[k].rhs = SwapAt(r.rhs, i)
                                         /\ Rules[k].stmts = r.stmts
Missing == { <<k, i>> \in (1..Len(Rules)) \X (1..12) :
               /\ i <= Len(Rules[k].rhs) /\ IsAlias(Rules[k].rhs[i]) /\ ~Exempt(Rules[k]) /\ ~HasTwin(Rules[k], i) }
AliasClosed == SameLevel /\ Missing = {}

Sites == { <<k, i>> \in (1..Len(Rules)) \X (1..12) : i <= Len(Rules[k].rhs) /\ IsAlias(Rules[k].rhs[i]) /\ ~Exempt(Rules[k]) }
ASSUME PrintT(<<"EMIT", ToJson([closed |-> AliasClosed, samelevel |-> SameLevel, sites |-> Cardinality(Sites),
                                missing |-> {[lhs |-> Rules[m[1]].lhs, rhs |-> Rules[m[1]].rhs, at |-> m[2]] : m \in Missing}])>>)
VARIABLE dummy
Init == dummy = 0
Next == UNCHANGED dummy
=============================================================================
