INIT Init
NEXT Next
