"""Text -> token string for LR.tla, from the tables extracted from the working tree's lexer (lexemes.json: keyword map of
keywords.cpp, literal tokens of lexer.l). Used to hand whole .xta files of the DocGen universe to the transcribed automaton
(MirrorXTA.tla); the inverse direction (tokens -> text) is lrconf.Lexemes. Only what the universe needs: identifiers, type
names, natural numbers, operators and punctuation, block and line comments, blanks."""
import json
import re

_SYNTAX = {"new": {"NEW", "OLD_NEW", "OLD_NEW_PROPERTY", "NEW_PROPERTY", "NEW_GUIDING"},
           "old": {"OLD", "OLD_NEW", "OLD_NEW_PROPERTY", "OLD_PROPERTY"},
           "property": {"PROPERTY", "OLD_NEW_PROPERTY", "NEW_PROPERTY", "PROPERTY_TIGA", "PROPERTY_PROB", "OLD_PROPERTY"}}


class Scanner:
    def __init__(self, lexemes_path, syntax="new"):
        d = json.load(open(lexemes_path))
        self.kw = {text: k["tok"] for text, k in d["kw"].items() if k["syntax"] in _SYNTAX[syntax]}
        if syntax == "old":
            self.kw["const"] = "T_OLDCONST"        # lexer.l: `const` is T_OLDCONST when the old syntax is being read
        self.lit = {}
        for tok, texts in d["lit"].items():
            for x in texts:
                if x and not (x[0].isalpha() or x[0] == "_"):
                    self.lit.setdefault(x, tok)
        self.maxlit = max(len(x) for x in self.lit)
        self.syntax = syntax
        # in queries the path quantifier letters are tokens of their own when they stand alone
        self.letters = {x: tok for tok, texts in d["lit"].items() for x in texts if len(x) == 1 and x.isalpha()} if syntax == "property" else {}
        # literal tokens that begin with a letter but are not words (`A[]`, `E<>`, `A<>`, `E[]` in queries)
        self.wordlit = {x: tok for tok, texts in d["lit"].items() for x in texts if x and x[0].isalpha() and not x.isalnum()} if syntax == "property" else {}

    def scan(self, text, typenames):
        """-> list of {"t","n","s"}; typenames: identifiers the lexer would report as T_TYPENAME at that point (the scanner is given the
        set for the whole text: the universe declares every type name before its first use)"""
        out, i, n = [], 0, len(text)
        while i < n:
            c = text[i]
            if c == "\n" and self.syntax == "property":
                out.append({"t": "'\\n'", "n": 0, "s": ""})          # queries are separated by line ends
                i += 1
            elif c.isspace():
                i += 1
            elif text.startswith("//", i):
                j = text.find("\n", i)
                i = n if j < 0 else j
            elif text.startswith("/*", i):
                j = text.find("*/", i + 2)
                if j < 0:
                    raise ValueError("unterminated comment")
                i = j + 2
            elif c.isalpha() and any(text.startswith(x, i) for x in self.wordlit):
                x = max((x for x in self.wordlit if text.startswith(x, i)), key=len)
                out.append({"t": self.wordlit[x], "n": 0, "s": ""})
                i += len(x)
            elif c.isalpha() or c == "_":
                m = re.match(r"[A-Za-z_][A-Za-z_0-9]*", text[i:])
                w = m.group(0)
                i += len(w)
                if w in self.letters:
                    out.append({"t": self.letters[w], "n": 0, "s": ""})
                elif w in self.kw:
                    out.append({"t": self.kw[w], "n": 0, "s": ""})
                elif w in typenames:
                    out.append({"t": "T_TYPENAME", "n": 0, "s": w})
                else:
                    out.append({"t": "T_ID", "n": 0, "s": w})
            elif c == "@":
                out.append({"t": "T_ERROR", "n": 0, "s": ""})      # a character the lexer has no rule for
                i += 1
            elif c == '"':
                j = text.index('"', i + 1)
                out.append({"t": "T_CHARARR", "n": 0, "s": text[i:j + 1]})
                i = j + 1
            elif c.isdigit() or (c == "." and text[i + 1:i + 2].isdigit()):
                m = re.match(r"[0-9]*\.[0-9]+(?:[eE][-+]?[0-9]+)?|[0-9]+\.(?:[eE][-+]?[0-9]+)?|[0-9]+[eE][-+]?[0-9]+|[0-9]+", text[i:])
                w = m.group(0)
                i += len(w)
                if w == "2147483648":
                    out.append({"t": "T_POS_NEG_MAX", "n": 0, "s": ""})        # lexer.l: the one literal that is valid only under a unary minus
                elif w.isdigit():
                    out.append({"t": "T_NAT", "n": int(w), "s": ""})
                else:
                    out.append({"t": "T_FLOATING", "n": 0, "s": w})
            else:
                for k in range(min(self.maxlit, n - i), 0, -1):
                    if text[i:i + k] in self.lit:
                        out.append({"t": self.lit[text[i:i + k]], "n": 0, "s": ""})
                        i += k
                        break
                else:
                    raise ValueError("no token for %r at %d" % (text[i:i + 8], i))
        return out
