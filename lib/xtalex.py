"""Text -> token string for LR.tla, from the tables extracted from the working tree's lexer (lexemes.json: keyword map of
keywords.cpp, literal tokens of lexer.l). Used to hand whole .xta files of the DocGen universe to the transcribed automaton
(MirrorXTA.tla); the inverse direction (tokens -> text) is lrconf.Lexemes. Only what the universe needs: identifiers, type
names, natural numbers, operators and punctuation, block and line comments, blanks."""
import json
import re

_SYNTAX_NEW = {"NEW", "OLD_NEW", "OLD_NEW_PROPERTY", "NEW_PROPERTY", "NEW_GUIDING"}


class Scanner:
    def __init__(self, lexemes_path):
        d = json.load(open(lexemes_path))
        self.kw = {text: k["tok"] for text, k in d["kw"].items() if k["syntax"] in _SYNTAX_NEW}
        self.lit = {}
        for tok, texts in d["lit"].items():
            for x in texts:
                if x and not (x[0].isalpha() or x[0] == "_"):
                    self.lit.setdefault(x, tok)
        self.maxlit = max(len(x) for x in self.lit)

    def scan(self, text, typenames):
        """-> list of {"t","n","s"}; typenames: identifiers the lexer would report as T_TYPENAME at that point (the scanner is given the
        set for the whole text: the universe declares every type name before its first use)"""
        out, i, n = [], 0, len(text)
        while i < n:
            c = text[i]
            if c.isspace():
                i += 1
            elif text.startswith("//", i):
                j = text.find("\n", i)
                i = n if j < 0 else j
            elif text.startswith("/*", i):
                j = text.find("*/", i + 2)
                if j < 0:
                    raise ValueError("unterminated comment")
                i = j + 2
            elif c.isalpha() or c == "_":
                m = re.match(r"[A-Za-z_][A-Za-z_0-9]*", text[i:])
                w = m.group(0)
                i += len(w)
                if w in self.kw:
                    out.append({"t": self.kw[w], "n": 0, "s": ""})
                elif w in typenames:
                    out.append({"t": "T_TYPENAME", "n": 0, "s": w})
                else:
                    out.append({"t": "T_ID", "n": 0, "s": w})
            elif c.isdigit():
                m = re.match(r"[0-9]+", text[i:])
                i += len(m.group(0))
                if re.match(r"[.eE]", text[i:i + 1] or " "):
                    raise ValueError("floating literals are not in the universe")
                out.append({"t": "T_NAT", "n": int(m.group(0)), "s": ""})
            else:
                for k in range(min(self.maxlit, n - i), 0, -1):
                    if text[i:i + k] in self.lit:
                        out.append({"t": self.lit[text[i:i + k]], "n": 0, "s": ""})
                        i += k
                        break
                else:
                    raise ValueError("no token for %r at %d" % (text[i:i + 8], i))
        return out
