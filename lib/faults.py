"""Single-fault injection into the text blocks of a resolved DocGen model (shared by C16, C06, C01).
A block is addressed by a tuple; block_path() gives the XPath libutap must attribute its diagnostics to."""
import json
import re

TOK = re.compile(r"/\*.*?\*/|//[^\n]*|[A-Za-z_][A-Za-z_0-9]*|\d+(?:\.\d+)?|<<=|>>=|==|!=|<=|>=|&&|\|\||\+\+|--|\+=|-=|\*=|/=|%=|:=|<<|>>|->|[^\sA-Za-z_0-9]", re.S)
KEYWORDS = {"int", "clock", "chan", "bool", "const", "broadcast", "urgent", "typedef", "return", "forall", "exists", "sum", "true", "false",
            "meta", "void", "struct", "system", "process", "if", "else", "for", "while", "double"}
WRONG = {"i": "c", "j": "c", "x": "c", "a": "c", "N": "c", "k": "c", "c": "i", "b": "i", "pos": "i", "g1": "c"}

NONDECL = ("inv", "rate", "guard", "sync", "asg", "prob")
LOC_FIELDS = (("inv", "invariant"), ("rate", "exponentialrate"))
EDGE_FIELDS = (("sel", "select"), ("guard", "guard"), ("sync", "synchronisation"), ("asg", "assignment"), ("prob", "probability"))


def tokens(text):
    return [(m.group(0), m.start(), m.end()) for m in TOK.finditer(text)]


def blocks(m, kinds=None):
    """all non-empty text blocks of the model: (kind, ti, idx) with ti/idx 0-based"""
    out = []
    for ti, t in enumerate(m["templs"]):
        for li, l in enumerate(t["locs"]):
            for f, _ in LOC_FIELDS:
                if l[f]:
                    out.append((f, ti, li))
        for ei, e in enumerate(t["edges"]):
            for f, _ in EDGE_FIELDS:
                if e[f]:
                    out.append((f, ti, ei))
    return [b for b in out if kinds is None or b[0] in kinds]


DECLARING = ("gdecl", "ldecl", "params", "system")


def decl_blocks(m):
    """the declaring text blocks: global declarations, every template's parameters and local declarations, the system block"""
    out = [("gdecl", 0, 0), ("system", 0, 0)]
    for ti, t in enumerate(m["templs"]):
        if t["params"]:
            out.append(("params", ti, 0))
        if t["ldecl"]:
            out.append(("ldecl", ti, 0))
    return out


def _decl_get(m, b):
    import docgen
    kind, ti, _ = b
    if kind == "gdecl":
        return docgen.PREAMBLE + "".join(d + "\n" for d in m["gdecl"])
    if kind == "system":
        return docgen.system_text(m)
    t = m["templs"][ti]
    return ", ".join(t["params"]) if kind == "params" else "\n".join(t["ldecl"])


def get_text(m, b):
    if b[0] in DECLARING:
        return _decl_get(m, b)
    kind, ti, idx = b
    t = m["templs"][ti]
    return (t["locs"][idx] if kind in ("inv", "rate") else t["edges"][idx])[kind]


def set_text(m, b, text):
    m = json.loads(json.dumps(m))
    kind, ti, idx = b
    if kind == "gdecl":
        m["_decl_text"] = text
        return m
    if kind == "system":
        m["_system_text"] = text
        return m
    if kind in ("params", "ldecl"):
        m["templs"][ti]["_params_text" if kind == "params" else "_ldecl_text"] = text
        return m
    t = m["templs"][ti]
    (t["locs"][idx] if kind in ("inv", "rate") else t["edges"][idx])[kind] = text
    return m


def block_path(m, b):
    kind, ti, idx = b
    if kind == "gdecl":
        return "/nta/declaration"
    if kind == "system":
        return "/nta/system"
    if kind == "params":
        return "/nta/template[%d]/parameter" % (ti + 1)
    if kind == "ldecl":
        return "/nta/template[%d]/declaration" % (ti + 1)
    t = m["templs"][ti]
    if kind in ("inv", "rate"):
        l = t["locs"][idx]
        n = 1 + sum(1 for f, _ in LOC_FIELDS[:[f for f, _ in LOC_FIELDS].index(kind)] if l[f])
        return "/nta/template[%d]/location[%d]/label[%d]" % (ti + 1, idx + 1, n)
    e = t["edges"][idx]
    names = [f for f, _ in EDGE_FIELDS]
    n = 1 + sum(1 for f in names[:names.index(kind)] if e[f])
    return "/nta/template[%d]/transition[%d]/label[%d]" % (ti + 1, idx + 1, n)


def dump_field(kind):
    return {"inv": "inv", "rate": "exp_rate", "guard": "guard", "sync": "sync", "asg": "assign", "prob": "prob", "sel": "select"}[kind]


def is_csp_sync(text):
    """`c?` -> `c` (also through a comment that swallows the `?`) is a VALID CSP synchronisation; mixing CSP with `!`/`?` elsewhere
    is a constraint between blocks, not a fault of this one"""
    t = re.sub(r"/\*.*?(\*/|$)", " ", text, flags=re.S)
    t = re.sub(r"//[^\n]*", " ", t)
    return re.match(r"^\s*[A-Za-z_]\w*(\s*\[[^\]]*\])?\s*$", t) is not None


def single_faults(text, kind):
    """-> [(fault class, token index, new text)] : one fault at every token position"""
    toks = tokens(text)
    out = []
    for n, (tk, s, e) in enumerate(toks):
        pre, post = text[:s], text[e:]
        out.append(("delete", n, pre + post))
        out.append(("duplicate", n, pre + tk + " " + tk + post))
        out.append(("stray-paren", n, pre + ") " + tk + post))
        out.append(("stray-symbol", n, pre + "@ " + tk + post))
        out.append(("open-comment", n, pre + "/* " + tk + post))
        if n < len(toks) - 1:
            out.append(("truncate", n, text[:e]))
        binder = n + 1 < len(toks) and toks[n + 1][0] == ":"        # `forall (q : T)`, `k : int[0,2]`: a declaration, not a use
        typepos = n > 0 and toks[n - 1][0] == ":"                  # the type of a binder: not an identifier use either
        if re.match(r"[A-Za-z_]", tk) and tk not in KEYWORDS and not binder and not typepos:
            out.append(("undeclared", n, pre + "nosuch_zz" + post))
            if tk in WRONG:
                out.append(("wrong-type", n, pre + WRONG[tk] + post))
            if kind in ("guard", "inv") and tk in ("i", "j") and not post.lstrip().startswith(("[", "(", "+", "-", "=")):
                out.append(("side-effect", n, pre + tk + "++" + post))
    out.append(("unbalanced", len(toks), text + " )"))
    out.append(("dangling-operator", len(toks), text + " +"))
    return out
