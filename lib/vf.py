"""Common machinery of the /verif checks.

- builds /repo's *current working tree* with -DUTAP_VERIF into /verif/.build/<variant>
- builds harness executables against that library
- runs TLC (model checking, case generation, trace validation) under timeouts
- writes evidence files, handles KNOWN_FINDINGS.jsonl, prints VIOLATION lines

Exit codes of a check: 0 held, 1 violation (VIOLATION line printed), 2 machinery failure.
"""
import fcntl
import hashlib
import json
import os
import re
import shutil
import subprocess
import sys
import time

ROOT = os.path.dirname(os.path.dirname(os.path.abspath(__file__)))
REPO = os.environ.get("VERIF_REPO", "/repo")
BUILD = os.environ.get("VERIF_BUILD", os.path.join(ROOT, ".build"))     # VERIF_REPO / VERIF_BUILD / VERIF_RUNS: run the checks against a scratch
RUNS = os.environ.get("VERIF_RUNS", os.path.join(ROOT, "runs"))          # worktree without touching /repo (used when trying seeded changes)
SPEC = os.path.join(ROOT, "spec")
HARNESS = os.path.join(ROOT, "harness")
EVID = os.environ.get("VERIF_EVIDENCE", os.path.join(ROOT, "evidence"))
TLA_CP = "/opt/veriftools/tla/tla2tools.jar:/opt/veriftools/tla/CommunityModules-deps.jar"
NCPU = os.cpu_count() or 4


class MachineryError(Exception):
    pass


def log(*a):
    print("[verif]", *a, file=sys.stderr, flush=True)


def sh(cmd, timeout=None, cwd=None, env=None, check=True, capture=True, input=None):
    e = dict(os.environ)
    if env:
        e.update(env)
    try:
        p = subprocess.run(cmd, cwd=cwd, env=e, timeout=timeout, input=input,
                           stdout=subprocess.PIPE if capture else None,
                           stderr=subprocess.STDOUT if capture else None,
                           shell=isinstance(cmd, str), text=True, errors="replace")
    except subprocess.TimeoutExpired as ex:
        raise MachineryError("timeout after %ss: %s" % (timeout, cmd)) from ex
    if check and p.returncode != 0:
        raise MachineryError("command failed (%d): %s\n%s" % (p.returncode, cmd, (p.stdout or "")[-4000:]))
    return p


# --------------------------------------------------------------------------- build

class _Lock:
    def __init__(self, name):
        os.makedirs(BUILD, exist_ok=True)
        self.path = os.path.join(BUILD, name + ".lock")

    def __enter__(self):
        self.f = open(self.path, "w")
        fcntl.flock(self.f, fcntl.LOCK_EX)
        return self

    def __exit__(self, *a):
        fcntl.flock(self.f, fcntl.LOCK_UN)
        self.f.close()


VARIANT_FLAGS = {
    "plain": [],
    "asan": ["-DASAN=ON", "-DUBSAN=ON"],
}
SAN_CXX = {"plain": [], "asan": ["-fsanitize=address", "-fsanitize=undefined", "-fno-omit-frame-pointer"]}


INSTRUMENTED = {"replay_range"}   # harnesses exercising header-only library code


def lib_dir(variant):
    return os.path.join(BUILD, variant)


def build_lib(variant="plain"):
    """cmake-build libUTAP.a from /repo's working tree with -DUTAP_VERIF. Incremental."""
    d = lib_dir(variant)
    with _Lock("build-" + variant):
        t0 = time.time()
        if not os.path.exists(os.path.join(d, "build.ninja")):
            os.makedirs(d, exist_ok=True)
            sh(["cmake", "-G", "Ninja", "-S", REPO, "-B", d, "-DCMAKE_BUILD_TYPE=RelWithDebInfo",
                "-DCMAKE_CXX_FLAGS=-DUTAP_VERIF -Wno-error -w", "-DUTAP_WITH_TESTS=OFF",
                "-DCMAKE_POSITION_INDEPENDENT_CODE=ON"] + VARIANT_FLAGS[variant], timeout=300)
        sh(["cmake", "--build", d, "--target", "UTAP", "-j", str(NCPU)], timeout=1200)
        lib = os.path.join(d, "src", "libUTAP.a")
        if not os.path.exists(lib):
            lib = os.path.join(d, "src", "libUTAP.so")
        gen = os.path.join(d, "gen")
        os.makedirs(gen, exist_ok=True)
        sh([sys.executable, os.path.join(ROOT, "extract", "kinds.py"), os.path.join(REPO, "include/utap/common.h"),
            os.path.join(gen, "kind_names.inc.new")], timeout=60)
        _replace_if_changed(os.path.join(gen, "kind_names.inc.new"), os.path.join(gen, "kind_names.inc"))
        sh([sys.executable, os.path.join(ROOT, "extract", "gen_tracebuilder.py"), os.path.join(REPO, "include/utap/builder.h"),
            os.path.join(gen, "TraceBuilder.hpp.new")], timeout=60)
        _replace_if_changed(os.path.join(gen, "TraceBuilder.hpp.new"), os.path.join(gen, "TraceBuilder.hpp"))
        sh([sys.executable, os.path.join(ROOT, "extract", "lr_tables.py"), os.path.join(REPO, "src/parser.y"), gen], timeout=120)
        sh([sys.executable, os.path.join(ROOT, "extract", "lexemes.py"), os.path.join(REPO, "src/lexer.l"),
            os.path.join(REPO, "src/keywords.cpp"), os.path.join(gen, "lexemes.json.new")], timeout=60)
        _replace_if_changed(os.path.join(gen, "lexemes.json.new"), os.path.join(gen, "lexemes.json"))
        sh([sys.executable, os.path.join(ROOT, "extract", "lexer_rules.py"), os.path.join(REPO, "src/lexer.l"),
            os.path.join(gen, "lexer_rules.json.new"), os.path.join(REPO, "src/libparser.h")], timeout=60)
        _replace_if_changed(os.path.join(gen, "lexer_rules.json.new"), os.path.join(gen, "lexer_rules.json"))
        log("lib[%s] up to date in %.1fs" % (variant, time.time() - t0))
        return lib


def _replace_if_changed(new, old):
    if os.path.exists(old) and open(old).read() == open(new).read():
        os.unlink(new)
    else:
        os.replace(new, old)


def _newest(paths):
    return max(os.path.getmtime(p) for p in paths if os.path.exists(p))


def build_harness(name, variant="plain", sources=None, extra=None, deps=None, instrument=None):
    """compile harness/<name>.cpp (+sources) against the variant's libUTAP. Returns exe path."""
    lib = build_lib(variant)
    d = lib_dir(variant)
    exe = os.path.join(d, "h_" + name)
    srcs = [os.path.join(HARNESS, s) for s in (sources or [name + ".cpp"])]
    hdrs = [os.path.join(HARNESS, f) for f in os.listdir(HARNESS) if f.endswith((".hpp", ".h")) or (f.endswith(".cpp") and name in ("replay_history", "replay_heap"))]
    gen = os.path.join(d, "gen")
    if os.path.isdir(gen):
        hdrs += [os.path.join(gen, f) for f in os.listdir(gen)]
    with _Lock("harness-" + variant + "-" + name):
        need = (not os.path.exists(exe)) or os.path.getmtime(exe) < _newest(srcs + hdrs + [lib] + (deps or []))
        if need:
            t0 = time.time()
            if instrument is None:
                instrument = name in INSTRUMENTED
            san = SAN_CXX[variant]
            cmd = ["g++", "-std=c++17", "-O1", "-g1", "-DUTAP_VERIF", "-DNDEBUG", "-w",
                   "-I", os.path.join(REPO, "include"), "-I", os.path.join(REPO, "src"),
                   "-I", os.path.join(d, "src", "include"), "-I", os.path.join(d, "src"),
                   "-I", gen, "-I", HARNESS,
                   "-I", "/usr/include/libxml2"]
            if instrument or not san:
                sh(cmd + san + srcs + ["-o", exe, lib, "-lxml2", "-ldl"] + (extra or []), timeout=900)
            else:
                # harness code itself is not under test: compile it uninstrumented (3x faster), link the sanitizer runtime
                objs = []
                for s_ in srcs:
                    o = exe + "." + os.path.basename(s_) + ".o"
                    sh(cmd + ["-c", s_, "-o", o], timeout=900)
                    objs.append(o)
                sh(["g++"] + san + objs + ["-o", exe, lib, "-lxml2", "-ldl"] + (extra or []), timeout=900)
            log("harness %s[%s] built in %.1fs" % (name, variant, time.time() - t0))
    return exe


# --------------------------------------------------------------------------- TLC

class TlcResult:
    def __init__(self):
        self.out = ""
        self.rc = None
        self.generated = 0
        self.distinct = 0
        self.depth = 0
        self.ok = False            # completed, no error
        self.violated = None       # name of violated invariant/property, if any
        self.emitted = []          # parsed EMIT records
        self.coverage = {}         # action -> (taken, generated)
        self.wall = 0.0


_EMIT = re.compile(r'^<<"EMIT", (".*")>>$')


def run_tlc(module, cfg, run_dir, workers=None, timeout=600, env=None, simulate=None, depth=None,
            coverage=False, seed=None, xmx="8g", deadlock=None, extra=None, dfs=False, keep_out=True):
    """Run TLC on spec/<module>.tla with spec/<cfg>. Returns TlcResult. Raises MachineryError on
    parse errors / timeouts / unexpected exceptions (never reports those as property results)."""
    os.makedirs(run_dir, exist_ok=True)
    meta = os.path.join(run_dir, "tlc-" + os.path.splitext(os.path.basename(cfg))[0] + "-%d" % os.getpid())
    shutil.rmtree(meta, ignore_errors=True)
    java = ["java", "-XX:+UseParallelGC", "-Xmx" + xmx, "-Xss64m"]
    if dfs:
        java.append("-Dtlc2.tool.queue.IStateQueue=StateDeque")
    cmd = java + ["-cp", TLA_CP, "tlc2.TLC", "-metadir", meta, "-noGenerateSpecTE",
                  "-workers", str(workers or NCPU), "-config", cfg]
    if simulate:
        cmd += ["-simulate", "num=%d" % simulate]
    if depth:
        cmd += ["-depth", str(depth)]
    if coverage:
        cmd += ["-coverage", "1"]
    if seed is not None:
        cmd += ["-seed", str(seed)]
    if deadlock is False:
        cmd += ["-deadlock"]
    cmd += (extra or []) + [module + ".tla"]
    t0 = time.time()
    p = sh(cmd, timeout=timeout, cwd=SPEC, env=env, check=False)
    r = TlcResult()
    r.wall = time.time() - t0
    r.rc = p.returncode
    out = p.stdout or ""
    shutil.rmtree(meta, ignore_errors=True)
    emitted = []
    kept = []
    for line in out.splitlines():
        m = _EMIT.match(line)
        if m:
            try:
                emitted.append(json.loads(json.loads(m.group(1))))
            except Exception:
                raise MachineryError("unparsable EMIT line: " + line[:300])
        else:
            kept.append(line)
    r.emitted = emitted
    r.out = "\n".join(kept)
    if keep_out:
        with open(os.path.join(run_dir, os.path.basename(cfg) + ".out"), "w") as f:
            f.write(r.out)
    m = re.search(r"(\d+) states generated, (\d+) distinct states found", r.out)
    if m:
        r.generated, r.distinct = int(m.group(1)), int(m.group(2))
    m = re.search(r"depth of the complete state graph search is (\d+)", r.out)
    if m:
        r.depth = int(m.group(1))
    for m in re.finditer(r"^<(\w+) line \d+, col \d+ to line \d+, col \d+ of module (\w+)>: (\d+):(\d+)", r.out, re.M):
        r.coverage[m.group(1)] = (int(m.group(3)), int(m.group(4)))
    m = re.search(r"Error: Invariant (\w+) is violated", r.out)
    if m:
        r.violated = m.group(1)
    m2 = re.search(r"Error: Action property (\w+) is violated|Error: Temporal properties were violated", r.out)
    if m2 and not r.violated:
        r.violated = m2.group(1) or "temporal"
    if "Parsing or semantic analysis failed" in r.out or "TLC threw an unexpected exception" in r.out \
            or "Error: TLC" in r.out and not r.violated or re.search(r"^Error: .*(evaluat|Attempted)", r.out, re.M):
        if not r.violated:
            raise MachineryError("TLC failed on %s/%s:\n%s" % (module, cfg, r.out[-3000:]))
    r.ok = (r.rc == 0 and r.violated is None and
            ("No error has been found" in r.out or "Model checking completed" in r.out or simulate is not None))
    if not r.ok and r.violated is None:
        raise MachineryError("TLC ended abnormally rc=%s on %s/%s:\n%s" % (r.rc, module, cfg, r.out[-3000:]))
    return r


def sany(module):
    p = sh(["java", "-cp", TLA_CP, "tla2sany.SANY", module + ".tla"], cwd=SPEC, timeout=120, check=False)
    if p.returncode != 0 or "error" in (p.stdout or "").lower() and "Semantic errors" in p.stdout:
        raise MachineryError("SANY failed for %s:\n%s" % (module, p.stdout[-3000:]))


# --------------------------------------------------------------------------- known findings

def load_known(prop):
    """returns {key: record} of findings listed for prop (status 'known'); fixed entries suppress nothing."""
    path = os.path.join(ROOT, "KNOWN_FINDINGS.jsonl")
    known = {}
    if os.path.exists(path):
        for line in open(path):
            line = line.strip()
            if not line.startswith("{"):   # "fixed: ..." lines and comments suppress nothing
                continue
            rec = json.loads(line)
            if rec.get("property") == prop and rec.get("status") == "known":
                known[rec["key"]] = rec
    return known


# --------------------------------------------------------------------------- check context

class Check:
    """One run of one property's check."""

    def __init__(self, prop, tier, level="model_checking"):
        self.prop = prop
        self.tier = tier
        self.level = level
        self.seed = int(os.environ.get("VERIF_SEED", "1") or 1)
        self.t0 = time.time()
        self.run_dir = os.path.join(RUNS, prop)
        shutil.rmtree(self.run_dir, ignore_errors=True)
        os.makedirs(self.run_dir, exist_ok=True)
        os.makedirs(EVID, exist_ok=True)
        self.known = load_known(prop)
        self.known_hit = {}
        self.violations = []       # (key, what, replay_path)
        self.cov = {"states": 0, "transitions": 0, "traces_validated_against_impl": 0, "samples": [],
                    "evaluations": 0, "distinct_nontrivial": 0, "rule": "", "tlc_runs": []}
        self.assumptions = []

    def quick(self):
        return self.tier == "quick"

    def add_tlc(self, name, r, note=""):
        self.cov["states"] += r.distinct
        self.cov["transitions"] += r.generated
        self.cov["tlc_runs"].append({"name": name, "distinct_states": r.distinct, "states_generated": r.generated,
                                     "depth": r.depth, "wall_s": round(r.wall, 1), "emitted": len(r.emitted),
                                     "coverage": {k: list(v) for k, v in r.coverage.items()}, "note": note})

    def sample(self, s, limit=8):
        if len(self.cov["samples"]) < limit:
            self.cov["samples"].append(s)

    def finding(self, key, what, replay_obj):
        """A reproduced failure of the property's own predicate on the real code. key identifies the
        specific input/call site/history. Listed known findings print KNOWN-FINDING; others VIOLATION."""
        if key in self.known:
            if key not in self.known_hit:
                self.known_hit[key] = what
            return
        if any(v[0] == key for v in self.violations):
            return
        safe = hashlib.sha1(key.encode()).hexdigest()[:12]
        path = os.path.join(self.run_dir, "replay-%s.json" % safe)
        with open(path, "w") as f:
            json.dump({"property": self.prop, "key": key, "what": what, "replay": replay_obj}, f, indent=1, default=str)
        self.violations.append((key, what, path))

    def finish(self):
        for key, what in self.known_hit.items():
            print("KNOWN-FINDING: property=%s %s [%s]" % (self.prop, what, key))
        stale = [k for k in self.known if k not in self.known_hit]
        ev = {
            "property_id": self.prop, "tier": self.tier, "seed": self.seed, "level": self.level,
            "coverage": self.cov, "assumptions": self.assumptions,
            "wall_s": round(time.time() - self.t0, 1), "violations": len(self.violations),
            "known_findings_reproduced": sorted(self.known_hit), "known_findings_not_reproduced": stale,
        }
        with open(os.path.join(EVID, self.prop + ".json"), "w") as f:
            json.dump(ev, f, indent=1, default=str)
        for key, what, path in self.violations[:20]:
            print("VIOLATION property=%s replay=%s  # %s" % (self.prop, path, what))
        if self.violations:
            return 1
        print("OK property=%s tier=%s states=%d transitions=%d impl_traces=%d evaluations=%d wall=%.0fs" % (
            self.prop, self.tier, self.cov["states"], self.cov["transitions"],
            self.cov["traces_validated_against_impl"], self.cov["evaluations"], time.time() - self.t0))
        return 0


def write_ndjson(path, recs):
    with open(path, "w") as f:
        for r in recs:
            f.write(json.dumps(r, separators=(",", ":")) + "\n")


def read_ndjson(path):
    out = []
    with open(path) as f:
        for line in f:
            line = line.strip()
            if line:
                out.append(json.loads(line))
    return out


# --------------------------------------------------------------------------- model_run jobs

SEEN_MESSAGES = set()
_MSG = re.compile(r"\$[A-Za-z][A-Za-z_0-9.\-]+")


def source_messages():
    """the `$...` diagnostic keys written in the library's sources (builders, type checker, reader, scanner, grammar)"""
    out = set()
    for f in ("ExpressionBuilder.cpp", "StatementBuilder.cpp", "DocumentBuilder.cpp", "property.cpp", "typechecker.cpp", "xmlreader.cpp", "document.cpp", "lexer.l", "parser.y", "featurechecker.cpp", "abstractbuilder.cpp"):
        try:
            out.update(m.rstrip("_") for m in re.findall(r'"(\$[A-Za-z][A-Za-z_0-9.\-]+)', open(os.path.join(REPO, "src", f), errors="replace").read()))
        except OSError:
            pass
    return out


def run_jobs(jobs, run_dir, variant="asan", shards=None, timeout=3000, name="jobs", harness="model_run"):
    """run model_run over jobs (list of dicts with unique 'id') in parallel shards; returns {id: result}"""
    exe = build_harness(harness, variant)
    shards = min(shards or NCPU, max(1, len(jobs)))
    procs = []
    env = dict(os.environ)
    env.update({"ASAN_OPTIONS": "detect_leaks=0:abort_on_error=1:allocator_may_return_null=1",
                "UBSAN_OPTIONS": "print_stacktrace=1:halt_on_error=0", "UTAP_VERIF_NO_DLOPEN": "1"})
    for i in range(shards):
        jp = os.path.join(run_dir, "%s-%d.in.ndjson" % (name, i))
        op = os.path.join(run_dir, "%s-%d.out.ndjson" % (name, i))
        write_ndjson(jp, jobs[i::shards])
        procs.append((subprocess.Popen([exe, jp, op], env=env, stdout=subprocess.DEVNULL, stderr=subprocess.PIPE), jp, op))
    res = {}
    deadline = time.time() + timeout
    for p, jp, op in procs:
        try:
            _, err = p.communicate(timeout=max(1, deadline - time.time()))
        except subprocess.TimeoutExpired:
            p.kill()
            raise MachineryError("model_run shard timed out")
        if p.returncode != 0:
            raise MachineryError("model_run failed rc=%s: %s" % (p.returncode, (err or b"")[-2000:]))
        for r in read_ndjson(op):
            res[r["id"]] = r
        try:
            SEEN_MESSAGES.update(_MSG.findall(open(op, errors="replace").read()))       # which diagnostics of the library the run has reached (coverage of its error paths)
        except OSError:
            pass
        os.unlink(jp)
        os.unlink(op)
    missing = [j["id"] for j in jobs if j["id"] not in res]
    if missing:
        raise MachineryError("model_run lost %d jobs, e.g. %s" % (len(missing), missing[:3]))
    return res
