"""Conformance between LR.tla behaviours and the real lexer+parser (B2): rendering of token sequences to text and
comparison of callback sequences."""
import json
import os

_SYNTAX_NEW = {"NEW", "OLD_NEW", "OLD_NEW_PROPERTY", "NEW_PROPERTY", "NEW_GUIDING"}
_SYNTAX_PROP = {"PROPERTY", "OLD_NEW_PROPERTY", "NEW_PROPERTY", "PROPERTY_TIGA", "PROPERTY_PROB", "OLD_PROPERTY"}


class Lexemes:
    def __init__(self, path):
        d = json.load(open(path))
        self.lit = d["lit"]
        self.kw = d["kw"]
        self.tok2kw = {}
        for text, k in self.kw.items():
            self.tok2kw.setdefault(k["tok"], []).append((text, k["syntax"]))

    def text(self, tok, prop=False):
        t = tok["t"]
        if t in ("T_ID", "T_TYPENAME"):
            return tok["s"]
        if t == "T_NAT":
            return str(tok["n"])
        if t in ("T_FLOATING",):
            return tok["s"]
        if t == "T_CHARARR":
            return '"%s"' % tok["s"].strip('"')
        if t == "T_POS_NEG_MAX":
            return "2147483648"
        if t == "T_ERROR":
            return "@"
        if t == "$end":
            return ""
        if t in self.lit:
            return self.lit[t][0]
        if t in self.tok2kw:
            ok = _SYNTAX_PROP if prop else _SYNTAX_NEW
            for text, syn in self.tok2kw[t]:
                if syn in ok:
                    return text
            return self.tok2kw[t][0][0]
        raise KeyError("no lexeme for token %s" % t)

    def render(self, toks, prop=False):
        return " ".join(x for x in (self.text(t, prop) for t in toks) if x != "")


def norm_spec_arg(a):
    """spec value {n,s} -> comparable python value"""
    s, n = a["s"], a["n"]
    if s == "":
        return n
    if s in ("true", "false"):
        return s == "true"
    if s == "INT_MIN":
        return -2147483648
    if len(s) >= 2 and s[0] == '"' and s[-1] == '"':
        return s[1:-1]
    if len(s) == 3 and s[0] == "'" and s[-1] == "'":
        return s[1]
    if s == "'":      # the argument list `'` split artefact never occurs; kept for safety
        return s
    return s


def norm_real_arg(a):
    if a is None:
        return ""
    return a


def norm_spec_events(out):
    ev = []
    for e in out:
        ev.append((e["cb"], tuple(norm_spec_arg(a) for a in e["a"])))
    return ev


def norm_real_events(events):
    ev = []
    for e in events:
        cb = e["cb"]
        if cb in ("set_position", "add_position", "is_type"):
            continue
        args = tuple(norm_real_arg(a) for a in e["a"])
        if cb == "handle_error" and args and isinstance(args[0], str) and args[0].startswith("$syntax_error"):
            args = ("$syntax_error",)
        ev.append((cb, args))
    return ev


def loose_eq(a, b):
    """argument equality modulo the spec's untyped value cells (0 vs "" for absent strings, doubles as text)"""
    if a == b:
        return True
    if a in (0, "", False) and b in (0, "", False):
        return True
    if isinstance(a, str) and isinstance(b, str):
        try:
            return float(a) == float.fromhex(b) if b.startswith(("0x", "-0x")) else float(a) == float(b)
        except ValueError:
            return False
    return False


def events_equal(spec_ev, real_ev):
    if len(spec_ev) != len(real_ev):
        return False, "length %d vs %d" % (len(spec_ev), len(real_ev))
    for i, ((c1, a1), (c2, a2)) in enumerate(zip(spec_ev, real_ev)):
        if c1 != c2:
            return False, "event %d: %s vs %s" % (i, c1, c2)
        if len(a1) != len(a2) or not all(loose_eq(x, y) for x, y in zip(a1, a2)):
            return False, "event %d (%s): args %s vs %s" % (i, c1, a1, a2)
    return True, ""
