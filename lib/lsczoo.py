"""LSC (scenario) documents for the checks whose universes are timed automata: variants of xmltree.base_lsc_doc that exercise
what the reader and the document builder keep ACROSS chart elements and charts - the prechart bottom, the instance lines with
their frames, chains of chart instantiations. Each entry: (id, XML text, expectations).
expectations: "no_warning": diagnostic keys that must not appear; "errors_at": {xpath: key} that must be reported; "unknown_in_system": a name
used in <system> that only a chart declares (must be reported as unknown there)."""
import copy
import xmltree
from xmltree import n


def _lsc(t, k=0):
    return [x for x in t["kids"] if x["tag"] == "lsc"][k]


def docs():
    out = []
    base = xmltree.base_lsc_doc()
    out.append(("base", base, {}))
    # a chart without a prechart (alone, and AFTER a chart that has one): nothing of it lies in a prechart, its hot condition stays hot
    t = copy.deepcopy(base)
    _lsc(t)["kids"] = [k for k in _lsc(t)["kids"] if k["tag"] != "prechart"]
    out.append(("no_prechart", t, {"no_warning": ["$In_the_prechart_all_conditions_are_cold"], "in_prechart": 0}))
    t2 = copy.deepcopy(base)
    second = copy.deepcopy(_lsc(t))
    [k for k in second["kids"] if k["tag"] == "name"][0]["text"] = "Sc2"
    for k in second["kids"]:
        if k["tag"] == "instance":
            k["attrs"]["id"] = {"id8": "id18", "id9": "id19"}[k["attrs"]["id"]]
        for kk in k["kids"]:
            for a in ("ref", "instanceid"):
                if a in kk["attrs"]:
                    kk["attrs"][a] = {"id8": "id18", "id9": "id19"}[kk["attrs"][a]]
    idx = t2["kids"].index(_lsc(t2))
    t2["kids"].insert(idx + 1, second)
    [k for k in t2["kids"] if k["tag"] == "system"][0]["text"] = "S = Sc(2);\nS2 = Sc2(1);\nsystem A, B;"
    out.append(("prechart_then_none", t2, {"no_warning": ["$In_the_prechart_all_conditions_are_cold"]}))
    # chains of chart instantiations: every bound parameter keeps its argument (C08)
    t3 = copy.deepcopy(base)
    [k for k in _lsc(t3)["kids"] if k["tag"] == "parameter"][0]["text"] = "int a, int b"
    [k for k in t3["kids"] if k["tag"] == "system"][0]["text"] = "Partial(const int k) = Sc(k, 3);\nFull = Partial(5);\nS = Sc(1, 2);\nsystem A, B;"
    [k for k in t3["kids"] if k["tag"] == "queries"][0]["kids"][0]["kids"][0]["text"] = "sat: Full"
    out.append(("chained_instances", t3, {}))
    # an instance line that names no template, then a <system> that uses a name only the chart declares (C07 / C16: the chart's scope is closed again)
    t4 = copy.deepcopy(base)
    inst = [k for k in _lsc(t4)["kids"] if k["tag"] == "instance"][1]
    inst["kids"][0]["text"] = "Nosuch(1)"
    [k for k in t4["kids"] if k["tag"] == "system"][0]["text"] = "const int L = l;\nS = Sc(2);\nsystem A, B;"
    out.append(("bad_instance_line", t4, {"unknown_in_system": "l"}))
    t5 = copy.deepcopy(base)
    [k for k in t5["kids"] if k["tag"] == "system"][0]["text"] = "const int L = l;\nS = Sc(2);\nsystem A, B;"
    out.append(("chart_local_in_system", t5, {"unknown_in_system": "l"}))
    return [(i, xmltree.serialise(t, ws), dict(exp)) for (i, t, exp) in out for ws in (False, True)]
