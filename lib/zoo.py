"""A corpus of inputs ("zoo") that together reduce by (nearly) every production of parser.y, measured by RuleCover.tla on the
automaton extracted from the working tree. C01 runs every text through every back end under the sanitizers: a crash that needs a
rarely used construct has an input that reaches it. Each entry: (id, start token, entry for model_run, syntax, text)."""

TYPES = {"id_t", "rec_t", "S", "node_t", "loc_t", "A1", "A2", "cint_t", "lt", "int8_t", "uint8_t", "int16_t", "uint16_t", "int32_t"}

DECLS = r"""
const int N = 3;
typedef int[0,N-1] id_t;
typedef struct { int a; struct { int b; bool c; } in; int d[2]; } rec_t;
typedef scalar[N] node_t;
struct { int u; double w; } anon = {1, 2.5};
rec_t r0 = {1, {2, true}, {3, 4}};
int i, j = 1, arr[N], mat[2][id_t];
bool b0 = true, b1 = !false;
double dd = 1.5e3, de = 0.5;
clock x, y; hybrid clock hc;
chan c0; urgent chan cu; broadcast chan cb[N]; urgent broadcast chan cub;
meta int mi; const bool cbv = false;
int[0,5] bounded = 2;
void nop() { }
int sq(int v) { return v * v; }
bool pos(const int &v, int &w, int t[2]) { w = t[0]; return v > 0; }
int big(int n) {
    int k = 0, acc[3] = {0, 1, 2};
    rec_t loc;
    for (k = 0; k < n; k++) { acc[k % 3] += k; }
    for (q : id_t) acc[q] = q;
    while (k > 0) { k--; }
    do { k++; } while (k < 3);
    if (k > 1) k = 1; else if (k < 0) { k = 0; } else k = 2;
    { int inner = 3; k = inner; }
    ;
    assert(k >= 0);
    loc.in.b = acc[0] > 1 ? 1 : 0;
    return k <? 5 >? 1;
}
double fl(double a) { return sqrt(a) + pow(a, 2.0) + fabs(-a) + fmod(a, 2.0) + fma(a, 2.0, 1.0) + ln(a) + exp(a) + random(3.0) + floor(a) + ceil(a) + fint(a); }
int bits(int a, int b) { return (a & b) | (a ^ b) | (a << 1) | (b >> 1) | -a | +b | (a % 3) | (a / 2) | (a - b) | abs(a); }
bool logic(bool p, bool q) { return (p && q) || (p and q) or (p imply q) || not p || (p xor q) || p == q || p != q || (forall (z : id_t) arr[z] >= 0) || (exists (z : id_t) arr[z] > 0) || sum (z : id_t) arr[z] > 2; }
void ctl(int v) { while (v > 0) { v--; } return; }
void asg() { i = 1; i := 2; i += 1; i -= 1; i *= 2; i /= 2; i %= 2; i |= 1; i &= 1; i ^= 1; i <<= 1; i >>= 1; i++; ++i; i--; --i; }
before_update { i = 0, j = 1 }
after_update { j = 2 }
chan priority c0 < cu, cub < default;
typedef int A1, A2[2];
typedef const int cint_t;
const double cdd = 2.0; meta double mdd; const int[0,3] cbi = 1; const scalar[2] csc; meta struct { int p, q; } ms; const struct { int p; } cst = { p: 1 };
const string cstr = "x";
rec_t rinit = { a: 1, in: {2, false}, d: {0, 0} };
int neg = -2147483648;
double pw = 2.0 ** 3.0;
void early(int v) { typedef int[0,1] loc_t; loc_t z; if (v > 0) return; if (v < 0) if (v < -1) i = 1; else i = 2; }
double trig(double a) { return exp2(a) + expm1(a) + log(a) + log10(a) + log2(a) + log1p(a) + cbrt(a) + sin(a) + cos(a) + tan(a) + asin(a) + acos(a) + atan(a) + sinh(a) + cosh(a) + tanh(a) + asinh(a) + acosh(a)
    + atanh(a) + erf(a) + erfc(a) + tgamma(a) + lgamma(a) + trunc(a) + round(a) + logb(a) + sqrt(a) + atan2(a, 1.0) + hypot(a, 1.0) + fdim(a, 1.0) + fmax(a, 1.0) + fmin(a, 1.0) + nextafter(a, 1.0)
    + copysign(a, 1.0) + ldexp(a, 2) + random_normal(0.0, 1.0) + random_poisson(2.0) + random_arcsine(0.0, 1.0) + random_beta(1.0, 2.0) + random_gamma(1.0, 2.0) + random_weibull(1.0, 2.0) + random_tri(0.0, 1.0, 2.0); }
int cls(double a) { return ilogb(a) + fpclassify(a) + (isfinite(a) ? 1 : 0) + (isinf(a) ? 1 : 0) + (isnan(a) ? 1 : 0) + (isnormal(a) ? 1 : 0) + (signbit(a) ? 1 : 0) + (isunordered(a) ? 1 : 0); }
"""

DECLS3 = r"""
chan c0; broadcast chan cb[3]; int i; int M, U, W, R, E; string s0;
chan priority cb[0] < c0, cb[1 + 1];
void dangling() { if (i > 0) if (i > 1) i = 1; else if (i > 2) i = 3; if (i > 3) while (i > 4) if (i > 5) i = 6; }
"""

DECLS2 = r"""
import "libext.so" { int ext1(int a); double ext2(); alias = int ext3(const int &r); };
dynamic Dyn(int p);
"""

XTA = r"""
const int N = 2; typedef int[0,1] id_t; int i; clock x; chan c; broadcast chan b;
process P(const id_t id, int &r, clock &z, chan &cc) {
    int l; clock w;
    void upd() { l = 1; }
    state A { x <= 5 }, B { x <= 3 ; 2 }, C { ; 1 }, D, E { x' == 0 && x <= 2 };
    branchpoint bp1, bp2;
    commit C, D;
    urgent D, E;
    init A;
    trans A -> B { select k : id_t, m : int[0,1]; guard i < 2 && x >= 1; sync c!; assign i = k, upd(); },
          -> C { guard i == 0; sync cc?; },
          -u-> D { assign l = 2; },
          B -u-> bp1 { },
          bp1 -> A { probability 2; }, bp1 -> D { assign i++; probability N; },
          D -> E { sync b!; }, E -> A { sync b?; assign x = 0; };
}
process Q() { state S0; init S0; }
process Empty() { }
P1 = P(0, i, x, c);
P3() = P(1, i, x, c);
P2(const id_t a) = P(a, i, x, c);
system P1, P2 < Q;
progress { i; i > 0 : i + 1; }
gantt { G0 : i == 1 -> 2; G1(k : id_t, m : int[0,1]) : i == k -> k, for (q : id_t, r : int[0,1]) i == q -> r; }
"""


SYSTEM_ONLY = r"""
Q1 = T(1); Q2(int[0,1] v) = T(v);
system Q1, Q2;
"""

OLD_XTA = r"""
const N 2, M2 3; int i; int[0,3] r := 1; clock x; chan c; urgent chan u; broadcast chan b;
process P(int p, p2; const q, q2; clock z; chan d) {
    int l := 0; const K 1;
    state A { x <= 5 }, B { x < 3, x <= 4 }, C;
    commit C; urgent B;
    init A;
    trans A -> B { guard i < 2, x >= 1; sync c!; assign i := 1, x := 0; },
          B -> C { guard i == 0; }, C -> A { sync d?; };
}
Q := P(1, 2, x, c);
system Q;
"""

EXPRS = ["i + j * 2 - arr[0] / 3 % 2", "a.b.c[1].d", "f(1, x, g())", "(i > 0 ? j : 2) == 1", "forall (k : int[0,2]) arr[k] >= 0 && exists (m : id_t) arr[m] == 1",
         "sum (k : id_t) arr[k]", "i++ + --j", "x' == 2", "A.l && not B.m imply true", "-i + +j", "!b0", "i <? j >? 3", "deadlock", "1.5 + .5e-3", "true || false", "\"s\"",
         "i = j = 3", "P.x <= 3", "arr[i][j]", "exit()", "spawn Dyn(1)", "forall (d : Dyn) (d.x > 0)", "exists (d : Dyn) (true)", "sum (d : Dyn) 1", "P.location", "i ** 2", "-2147483648", "f(@)", "arr[@]"]

LABELS = [("T_NEW_INVARIANT", "S_INVARIANT", "x <= 5 && y' == 0"), ("T_NEW_GUARD", "S_GUARD", "i < 2 && x >= 1"), ("T_NEW_SYNC", "S_SYNC", "c0!"), ("T_NEW_SYNC", "S_SYNC", "cb[i]?"),
          ("T_NEW_SYNC", "S_SYNC", "c0"), ("T_NEW_ASSIGN", "S_ASSIGN", "i = 1, j++, arr[0] = 2"), ("T_NEW_SELECT", "S_SELECT", "k : id_t, m : int[0,1]"),
          ("T_PROBABILITY", "S_PROBABILITY", "N + 1"), ("T_EXPONENTIAL_RATE", "S_EXPONENTIAL_RATE", "2"), ("T_EXPONENTIAL_RATE", "S_EXPONENTIAL_RATE", "3 : 2"),
          ("T_NEW_PARAMETERS", "S_PARAMETERS", "const int a, int &b, clock &c, chan &d, broadcast chan &e, int f[2], id_t g, const rec_t &h, double m, bool n, urgent chan &o, scalar[2] s"),
          ("T_NEW_LOCAL_DECL", "S_LOCAL_DECL", "int l = 1; clock w; void f() { l = 2; } typedef int[0,1] lt;"),
          ("T_NEW_INST", "S_INST", "P1 = P(1, i); P2(int[0,1] v) = P(v, i);"),
          ("T_MESSAGE", "S_MESSAGE", "c0"), ("T_MESSAGE", "S_MESSAGE", "cb[1]"), ("T_UPDATE", "S_UPDATE", "i = 1, j = 2"), ("T_CONDITION", "S_CONDITION", "x >= 2 && i == 1"),
          ("T_INSTANCE_LINE", "S_INSTANCE_LINE", "P"), ("T_INSTANCE_LINE", "S_INSTANCE_LINE", "P(1, i)"),
          ("T_EXPRESSION_LIST", "S_EXPRESSION_LIST", "i, j + 1, arr[2]"), ("T_XTA_PROCESS", "S_XTA_PROCESS", "process Z() { state A; init A; }")]

# inputs with one fault at each place where the grammar has an error production (error recovery must not crash any back end)
ERRORS = [("T_NEW_DECLARATION", "S_DECLARATION", "typedef @ ;"), ("T_NEW_DECLARATION", "S_DECLARATION", "struct { @ } s1;"), ("T_NEW_DECLARATION", "S_DECLARATION", "const struct { @ } s3;"),
          ("T_NEW_DECLARATION", "S_DECLARATION", "int a1[@][2];"), ("T_NEW_DECLARATION", "S_DECLARATION", "void f1(@) { }"), ("T_NEW_DECLARATION", "S_DECLARATION", "void f2() { if (@) i = 1; }"),
          ("T_NEW_DECLARATION", "S_DECLARATION", "void f3() { for (@) i = 2; }"), ("T_NEW_DECLARATION", "S_DECLARATION", "void f4() { while (@) i = 3; }"), ("T_NEW_DECLARATION", "S_DECLARATION", "void f5() { i = g(@); }"),
          ("T_NEW_DECLARATION", "S_DECLARATION", "void f6() { i = 1; @; i = 2; }"), ("T_NEW_DECLARATION", "S_DECLARATION", "void f7() { { @ } }"), ("T_NEW_DECLARATION", "S_DECLARATION", "void f8() { g(@); i = 1; @ i; i = 2; }"),
          ("T_NEW_DECLARATION", "S_DECLARATION", "int ok0; ) ; int ok1;"), ("T_NEW_INST", "S_INST", "Q1 = @ ; Q2 = T(1);"), ("T_NEW_INST", "S_INST", "@;"),
          ("T_OLD_DECLARATION", "S_DECLARATION", "const @;"), ("T_OLD", "S_XTA", "process O1 @ { state A; init A; } process O2(int a) @ { state A; init A; } process @ { state A; init A; } process O4 { state A; init A; } process O5() { state A; init A; } system O4;"),
          ("T_OLD", "S_XTA", "process O6(@) { state @; init A; trans @; } process O7(const a) { state A { x <= 1 @ , x < 2 }; init A; trans A -> A { guard i < 1 @; }, -> A { guard i < 2; }; } system O7;"),
          ("T_PROPERTY", "property", "query { A[] P.A } query { @ }"),
("T_NEW_DECLARATION", "S_DECLARATION", "chan priority @; int @; typedef @ int ok1; struct { @ } s1; struct { int a; } s2 = {1}; const struct { @ } s3; int a1[@][2]; @; void f1(@) { } void f2() { if (@) i = 1; for (@) i = 2; while (@) i = 3; g(@); { @ } i = @; }"),
          ("T_NEW", "S_XTA", "process E1() { state @; init A; } process E2() { state A { @ }; branchpoint @; init @; trans @; } process E3() { state A; commit @; urgent @; init A; trans A -> A { guard @; sync @; assign @; probability @; }, A -> A { guard i @; }; } system @;"),
          ("T_NEW_SYNC", "S_SYNC", "c0 @ !"), ("T_NEW_SYNC", "S_SYNC", "c0 @ ?"), ("T_MESSAGE", "S_MESSAGE", "c0 @"),
          ("T_NEW_SYSTEM", "S_SYSTEM", "system @; gantt { G : @ -> 1; }")]

OLD_LABELS = [("T_OLD_INVARIANT", "S_INVARIANT", "x <= 5, y < 3"), ("T_OLD_GUARD", "S_GUARD", "i < 2, x >= 1"), ("T_OLD_ASSIGN", "S_ASSIGN", "i := 1, x := 0"),
              ("T_OLD_PARAMETERS", "S_PARAMETERS", "int a; const b; clock c; chan d; urgent chan e; broadcast chan f"), ("T_OLD_DECLARATION", "S_DECLARATION", "const N 2; int i := 1; clock x; chan c;"),
              ("T_OLD_LOCAL_DECL", "S_LOCAL_DECL", "int l := 0; clock w;"), ("T_OLD_INST", "S_INST", "Q := P(1, 2);")]

QUERIES = ["A[] not deadlock", "E<> P.A && i == 1", "A<> P.B", "E[] x <= 3", "P.A --> P.B", "A[] forall (k : id_t) arr[k] >= 0 imply true", "sup: x, i", "inf{P.A}: x", "sup{i > 0}: i, j", "bounds: i",
           "Pr[<=10](<> P.A)", "Pr[x<=10]([] P.A)", "Pr[#<=5](<> i == 1)", "Pr[<=10](<> P.A) >= 0.5", "Pr[<=10](<> P.A) <= 0.3", "Pr[<=10](<> P.A) >= Pr[<=10](<> P.B)", "Pr[<=10; 100](<> P.A)",
           "Pr[<=10](P.A U P.B)", "E[<=10; 100](max: i)", "E[x<=10; 50](min: x + 1)", "simulate [<=10] {i, x}", "simulate [<=10; 5] {i} : P.A", "simulate [<=10; 5] {i} : 3 : P.A",
           "simulate [#<=20; 5] {i, j}", "control: A[] P.A", "control: A<> P.B", "control: A[P.A U P.B]", "control: A[P.A W P.B]", "control_t*(2, 3): A<> P.A", "control_t*: A[] P.A", "control_t*(2): A<> P.A",
           "E<> control: A[] P.A", "{ i, j } control: A[] P.A", "{ } control: A[] P.A", "{ P.A, i } control: A<> P.B", "strategy S = control: A[] P.A", "strategy M = minE (x) [<=10] : <> P.A", "strategy M = maxE (i) [<=10] {P.A} -> {x} : <> P.B",
           "minE (x) [<=10] : <> P.A", "maxE (i) [<=10] {P.A} -> {x} : [] P.B under S imitate S", "maxPr[<=10] : <> P.A", "minPr[<=10] {i} -> {x}: [] P.A", "A[] P.A under S", "Pr[<=10](<> P.A) under S", "simulate [<=10] {i} under S", "E<> P.A under S",
           "saveStrategy(\"f.json\", S)", "strategy L = loadStrategy {i} -> {x} (\"f.json\")", "Pr(<>[0,5] P.A)", "Pr([][0,5] P.A)", "Pr(P.A U[0,5] P.B)", "Pr(P.A R[0,5] P.B)", "Pr(X P.A)", "Pr(P.A && P.B || !P.A)",
           "sat: Scenario", "A[] P.A and (P.B or not P.A)", "E<> exists (k : id_t) arr[k] > 0", "A[] sum (k : id_t) arr[k] < 5", "E<> P.A\nA[] P.B", "A[] (i > 0 ? j : 2) == 1", "Pr[<=10](<> P.A) >= 0.5 under S",
           "sat: Scenario under S", "Pmax P.A", "{i} control: A[] P.A", "inf: i", "A[] forall (d : Dyn) (d.x > 0)", "E<> foreach (d : Dyn) d.y", "E<> numOf(Dyn) > 1",
           "A[] P.A imply exists (d : Dyn) (true)", "A[] sum (d : Dyn) 1 < 3", "A[] (P.A && A<> P.B)", "A[]* P.A", "A[]+ P.A", "E<>* P.A", "E<>+ P.A", "sup{P.A}: x under S", "bounds{i > 0}: i",
           "Pr[<=10](<> P.A) under S >= Pr[<=10](<> P.B)", "Pr(P.A /\\ P.B \\/ P.A)", "A[] P.A and A<> P.B", "A[] (P.A and A<> P.B)", "E<> U.l + W + R + E + M + sup + inf + bounds > 0", ""]


def accepted_models():
    """models built from the zoo that the library accepts (no diagnostics): input for the printers and the XML writer (C20)"""
    decl = "\n".join(l for l in DECLS.replace("const scalar[2] csc;", "scalar[2] csc;").split("\n") if not l.startswith("int cls(double a)"))
    t1 = {"name": "T1", "locations": [{"id": "id0", "name": "Idle"}], "init": "id0", "edges": []}
    rich = {"name": "P", "params": "const id_t id, int &r, clock &z, chan &cc", "decl": "int l; clock w;\nvoid upd() { l = 1; if (l > 0) return; l = 2; }",
            "locations": [{"id": "id0", "name": "A", "inv": "x <= 5"}, {"id": "id1", "name": "B", "inv": "x <= 3", "rate": "2"}, {"id": "id2", "name": "C", "committed": True}, {"id": "id3", "urgent": True}],
            "branchpoints": [{"id": "id4"}], "init": "id0",
            "edges": [{"src": "id0", "dst": "id1", "select": "k : id_t, m : int[0,1]", "guard": "i < 2 && x >= 1", "sync": "c0!", "assign": "i = k, upd()"},
                      {"src": "id1", "dst": "id4", "controllable": False}, {"src": "id4", "dst": "id0", "prob": "2"}, {"src": "id4", "dst": "id3", "prob": "N", "assign": "i++"},
                      {"src": "id3", "dst": "id2", "sync": "cb[id]!"}, {"src": "id2", "dst": "id0", "sync": "cc?", "assign": "x = 0"}]}
    return [("zoo-declarations", {"decl": decl, "templates": [t1], "system": "system T1;"}),
            ("zoo-template", {"decl": decl, "templates": [rich, t1], "system": "P1 = P(0, i, x, c0);\nP2(const id_t a) = P(a, j, y, c0);\nsystem P1, P2 < T1;\nprogress { i; i > 0 : j; }\ngantt { G0 : i == 1 -> 2; G1(k : id_t) : i == k -> k; }"})]


def corpus():
    """-> list of dicts {id, start, entry (model_run job fields), syntax, text}"""
    out = []
    def add(id_, start, job, syntax, text):
        out.append({"id": id_, "start": start, "job": job, "syntax": syntax, "text": text})
    add("decls", "T_NEW_DECLARATION", {"entry": "part", "part": "S_DECLARATION"}, "new", DECLS)
    add("decls3", "T_NEW_DECLARATION", {"entry": "part", "part": "S_DECLARATION"}, "new", DECLS3)
    add("decls2", "T_NEW_DECLARATION", {"entry": "part", "part": "S_DECLARATION"}, "new", DECLS2)
    add("xta", "T_NEW", {"entry": "xta"}, "new", XTA)
    add("system", "T_NEW_SYSTEM", {"entry": "part", "part": "S_SYSTEM"}, "new", SYSTEM_ONLY)
    add("oldxta", "T_OLD", {"entry": "xta", "newxta": False}, "old", OLD_XTA)
    for k, e in enumerate(EXPRS):
        add("expr%d" % k, "T_EXPRESSION", {"entry": "part", "part": "S_EXPRESSION"}, "new", e)
    for k, (start, part, text) in enumerate(LABELS):
        add("label%d" % k, start, {"entry": "part", "part": part}, "new", text)
    for k, (start, part, text) in enumerate(ERRORS):
        old = start.startswith("T_OLD")
        job = {"entry": "property"} if part == "property" else {"entry": "xta"} if part == "S_XTA" else {"entry": "part", "part": part}
        if old:
            job["newxta"] = False
        add("error%d" % k, start, job, "property" if part == "property" else "old" if old else "new", text)
    for k, (start, part, text) in enumerate(OLD_LABELS):
        add("oldlabel%d" % k, start, {"entry": "part", "part": part, "newxta": False}, "old", text)
    for k, q in enumerate(QUERIES):
        add("query%d" % k, "T_PROPERTY", {"entry": "property"}, "property", q)
    return out


def semantic_jobs():
    """the diagnostic zoo as model_run jobs: every declaration snippet alone after SEM_DECL (parse_XTA(S_DECLARATION) and inside a whole model, so that the type checker runs),
    the models, and the queries over a scaffold"""
    out = []
    for k, d in enumerate(SEM_DECLS):
        out.append({"zoo": "semdecl%d" % k, "entry": "xta", "text": SEM_DECL + d + "\nprocess P() { state A; init A; } system P;"})
        out.append({"zoo": "semdeclpart%d" % k, "entry": "part", "part": "S_DECLARATION", "text": SEM_DECL + d})
        out.append({"zoo": "semlocal%d" % k, "entry": "xta", "text": SEM_DECL + "process P() { " + d + " state A; init A; } system P;"})
    for k, x in enumerate(SEM_XTA):
        out.append({"zoo": "semxta%d" % k, "entry": "xta", "text": SEM_DECL + x})
    for k, x in enumerate(SEM_INVS):
        for flag in ("", "commit A; ", "urgent A; "):
            out.append({"zoo": "seminv%d%s" % (k, flag[:1]), "entry": "xta", "text": SEM_DECL + "process P() { state A { %s }, B; %sinit A; trans A -> B { }; } system P;" % (x, flag)})
    for k, x in enumerate(SEM_EDGES):
        out.append({"zoo": "semedge%d" % k, "entry": "xta", "text": SEM_DECL + "process P() { state A, B; init A; trans A -> B { %s }; } system P;" % x})
        out.append({"zoo": "semedgebp%d" % k, "entry": "xta", "text": SEM_DECL + "process P() { state A, B; branchpoint Bp; init A; trans A -> Bp { }, Bp -> B { %s }; } system P;" % x})
        out.append({"zoo": "semedgeu%d" % k, "entry": "xta", "text": SEM_DECL + "process P() { state A, B; init A; trans A -u-> B { %s }; } process R() { state A; init A; trans A -> A { sync c?; }, A -> A { sync uc?; }, A -> A { sync bc!; }, A -> A { sync bc?; }; } system P, R;" % x})
    scaffold = SEM_DECL + "process P() { state A, B; init A; trans A -> B { guard i > 0; }; } system P;"
    out.append({"zoo": "semqueries_tiga", "entry": "xta", "text": scaffold, "queries": list(SEM_QUERIES), "query_builder": "tiga", "clear_errors": True})
    out.append({"zoo": "semqueries_one", "entry": "xta", "text": scaffold, "queries": list(SEM_QUERIES), "query_builder": "tiga", "one_builder": True, "clear_errors": True})
    out.append({"zoo": "semqueries_plain", "entry": "xta", "text": scaffold, "queries": list(SEM_QUERIES), "query_builder": "property", "clear_errors": True})
    return out


# ---- the diagnostic zoo: small texts that make the builders, the type checker and the query builder report (or throw) - the error
# paths behind every `$...` message of the sources are code too (C01: a diagnostic, not a crash). Coverage is measured against the
# messages written in the sources (vf.source_messages); what no text reaches is listed in C01's evidence.
SEM_DECL = "typedef struct { int a; int b; } S; int i; int j; bool bb; double d; clock x; clock y; chan c; broadcast chan bc; urgent chan uc; const int N = 2; int arr[3]; S s; typedef scalar[3] sc_t; sc_t sv; void noret() { } int f1(int q) { return q; }\n"
SEM_DECLS = [
    "int q1 = forall (b : bool) b;", "bool q2 = exists (dd : double) dd > 0.0;", "int q3 = sum (cl : clock) 1;", "bool q4 = forall (st : S) st.a > 0;", "bool q5 = forall (k : int) k > 0;",
    "int[d, 3] r1;", "int[0, x] r2;", "int ar1[bb];", "int ar2[d];", "int ar3[-1];", "int ar4[S];", "int ar5[i];", "scalar[i] s1;", "scalar[d] s2; ", "scalar[0] s3;",
    "const clock cx;", "meta clock mx;", "const chan cc1;", "meta chan mc1;", "urgent int ui;", "broadcast int bi;", "hybrid int hi;", "committed int ci;", "urgent clock ux;", "broadcast clock bx;", "const int nc;",
    "struct { clock k1; } sk;", "struct { chan k2; } sch;", "struct { const int k3; } sco;", "struct { int a; int a; } sdup;", "S s2 = { 1 };", "S s3 = { 1, 2, 3 };", "S s4 = { a: 1, a: 2 };", "S s5 = { zz: 1, b: 2 };",
    "int ai[2] = { a: 1, 2 };", "int ai2[2] = { 1, 2, 3 };", "int ai3[2] = 5;", "int iv = { 1, 2 };", "clock cxi = 1;", "chan chi = 1;", "int ii = bb ? s : 1;", "int i2 = s ? 1 : 2;", "int i3 = x;", "bool b3 = s;",
    "int i4 = i++;", "int i5 = (i = 2);", "int i6 = arr[i++];", "int i7 = f1(i++);", "int i8 = noret();", "int i9 = f1();", "int i10 = f1(1, 2);", "int i11 = f1(s);", "int i12 = i(1);", "int i13 = s.zz;", "int i14 = i.a;", "int i15 = arr.a;",
    "int i16 = arr[s];", "int i17 = i[0];", "int i18 = c;", "int i19 = -s;", "int i20 = !s;", "int i21 = s + 1;", "int i22 = s < s;", "int i23 = x + 1;", "bool b4 = x - y < 3 || x > 1;", "int i24 = 1 = 2;", "int i25 = (1, 2);",
    "void v1() { return 1; }", "int v2() { return; }", "int v3() { }", "int v4() { i; return 1; }", "int v5() { return v5(); }", "void v6(clock &k) { }", "void v7(chan k) { }", "clock v8() { return x; }", "S v9() { return s; }",
    "void v10() { clock lk; }", "void v11() { chan lc; }", "void v12() { d++; }", "void v13() { s++; }", "void v14() { d += 1; d %= 2; }", "void v15() { bb &= 1; x += 1; }", "void v16() { N = 3; }", "void v17() { 5 = i; }", "void v18() { s = 1; }", "void v19() { arr = 1; }",
    "void v20() { assert(i++); }", "void v21() { if (s) i = 1; }", "void v22() { while (x) i = 1; }", "void v23() { for (k : S) i = 1; }", "void v24() { for (k : int) i = 1; }", "void v25() { for (i = 0; s; i++) i = 1; }", "void v26(int &r, const int &cr) { v26(1, 2); v26(N, i); }",
    "typedef int[0,1] tt; typedef int tt;", "int i; int i;", "void dupf() { } void dupf() { }", "int dupv; void dupv() { }", "typedef nosuch_t q9;", "nosuch_t q10;", "int q11 = nosuch;", "string str1 = \"abc\"; const string str2 = \"abc\";",
    "progress { s; } progress { x: i; }", "before_update { i++ } after_update { s }", "chan priority c < nosuch; chan priority i < c;", "double dd1 = 1.5 % 2;", "int sh = 1 << d;", "int mn = s <? 1;", "bool im = s imply 1;", "int cm = (s, 1);",
]
SEM_XTA = [
    "process E1() { state A; init A; } process E2() { state A; init A; } process E3() { int q; state A; init A; } const int K = 1; Q = E1(); system Q, E2, E3;",
    "process P() { state A { i++ > 0 }, B { x >= 3 }, C { x < 3 || x > 5 }, D { s }, E { x' == 2 && y' == 3 }; commit A; urgent A; init A; trans A -> B { guard i++ > 0; }, A -> B { guard s; }, A -> B { sync c!; guard x > 1; }, A -> B { sync uc!; guard x > 1; }, A -> B { sync bc?; guard x > 1; }, A -> B { sync i!; }, A -> B { sync c[0]!; }, A -> B { assign 5; }, A -> B { assign i == 1; }, A -> B { select k : S; }, A -> B { select k : int; }, A -> B { select k : clock; }, A -> B { probability s; }, A -> B { probability i++; }, A -> Z { }, Z -> A { }; } system P;",
    "process P() { state A; branchpoint Bp; init Bp; trans A -> Bp { }, Bp -> A { guard i > 0; }, Bp -> A { sync c!; }; } system P;",
    "process P() { state A; init A; init A; state A; } process P() { state A; init A; } system P, P;",
    "process P(int &r, const int v, clock &k, chan &ch, S st, int[0,1] b1, scalar[2] b2, double b3) { state A; init A; } Q1 = P(1, 1, x, c, s, 0, 0, 0.5); Q2 = P(i); Q3 = P(i, i, i, i, i, i, i, i); Q4 = P(i, j, y, c, s, 2, 0, 1.0, 7); Q5 = Nosuch(1); Q6 = i(1); system P, Q1, Q5, nosuch, i;",
    "process P() { state A; init A; trans A -> A { sync c!; }, A -> A { sync c; }; } process R() { state A; init A; trans A -> A { sync c?; }; } system P < R, P;",
    "process P() { state A; } system P;", "process P() { state A; init B; } system P;", "system ;", "process P() { state A; init A; } system P; system P;",
    "process P() { state A; init A; } IO P { c!, c?, nosuch! } system P;", "process P() { state A; init A; } system P; gantt { G(k : S) : s -> 1, i > 0 -> s; G2 : for (k : clock) true -> 1; }",
    "dynamic D(int a); dynamic D(int a); process D() { state A; init A; } process P() { state A; init A; trans A -> A { assign spawn D(1), spawn P(), spawn Nosuch(1), exit(), i = numOf(D) + numOf(i); }; } system P;",
]
SEM_QUERIES = ["A[] i++ > 0", "A[] s", "E<> (A[] i > 0)", "A[] x", "sup: s", "inf: c", "bounds: s, x", "Pr[<=10](<> s)", "Pr[s<=10](<> i > 0)", "Pr[<=s](<> i > 0)", "E[<=10; 5](min: s)", "E[<=10; 5](avg: i)", "simulate[<=10]{s}", "simulate[<=10; s]{i}",
               "control: A[] s", "control: E<> i > 0", "control_t*(s, 1): A<> i > 0", "E<> control: E<> i > 0", "control: A[ s U i > 0 ]", "minE(s)[<=10] : <> i > 0", "minE(i)[<=10] {s} -> {x} : <> i > 0", "A[] i > 0 under Nosuch", "minE(i)[<=10] : <> i > 0 imitate Nosuch",
               "saveStrategy(i, Nosuch)", "saveStrategy(\"f\", Nosuch)", "strategy Q = loadStrategy {i} -> {s} (i)", "A<> deadlock", "A[] deadlock imply i > 0", "E<> i > 0 && deadlock", "sat: Nosuch", "sat: i", "Pr(<>[0,s] i > 0)", "Pr(X s)", "A[] forall (k : S) true",
               "A[] P.nosuch", "A[] Nosuch.A", "A[] i.A", "A[] P.A.B", "A[] f1(i++) > 0", "A[] noret()", "E<> arr[5] > 0", "E<> arr[s] > 0", "Pr[<=10](<> i > 0) >= s", "Pr[<=10](<> i > 0) >= Pr[<=10](<> s)"]
# one faulted location invariant / edge label per model: the type checker runs only on a document without parse errors
SEM_INVS = ["i++ > 0", "x >= 3", "x < 3 || x > 5", "s", "x' == 2 && y' == 3", "x' == 2 && x' == 3", "x <= 5 && x - y < 3", "x + 1 < 3", "x < d", "forall (k : int[0,1]) x < 3", "exists (k : int[0,1]) x < 3", "x == 3", "!(x < 3)", "arr[i++] > 0", "f1(i++) > 0", "d < 1.5", "x' == i", "x' == d"]
SEM_EDGES = ["guard i++ > 0;", "guard s;", "guard x;", "guard x - y < i;", "guard x + y < 3;", "guard x - y - x < 3;", "guard x < 3 || y > 2;", "guard !(x < 3);", "guard (x < 3) == (y > 2);", "guard x < 3 imply y > 2;", "guard x != 3;",
             "sync c!; guard x > 1;", "sync uc!; guard x > 1;", "sync uc!; guard x >= 1 && i > 0;", "sync bc?; guard x > 1;", "sync bc!; guard x > 1;", "sync i!;", "sync c[0]!;", "sync s!;", "sync c;", "sync arr[0]?;", "sync c[i++]!;",
             "assign 5;", "assign i == 1;", "assign x = d;", "assign x = 2.5;", "assign d = x;", "assign i = x;", "assign c = 1;", "assign s = 1, i = s;", "assign x++;", "assign x += 1;", "assign N = 1;", "assign (bb ? i : j) = 1;", "assign i = (x > 1 ? 1 : 0);",
             "select k : S;", "select k : int;", "select k : clock;", "select k : int[0,1], k : int[0,2];", "select k : int[0,i];", "select k : sc_t; guard k == sv;", "probability s;", "probability i++;", "probability 2;", "probability d;", "probability x;", "guard i > 0; probability 1;"]
SEM_LSC = []
