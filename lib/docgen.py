"""Shared by C04/C05/C08/C16/C20: run DocGen.tla (TLC as generator of abstract models M with their mirror Expected(M)),
render M to UPPAAL XML / XTA text, and project a canonical document dump (harness/dump.hpp) onto the mirror's fields."""
import json
import os
import vf
from xml.sax.saxutils import escape

PREAMBLE = ("int i;\nint j = 1;\nclock x;\nchan c;\nbroadcast chan b;\nconst int N = 2;\nint a[3];\n"
            "typedef int[0,2] id_t;\nbool pos(int v) { return v > 0; }\n")
BASE_FUNS = ["pos"]
ACTIONS = ["GDecl", "OpenTemplate", "LDecl", "AddLoc", "AddBp", "SetInit", "AddEdge", "Label", "StartSystem", "AddInst", "AddProc", "AddSysX", "Finish"]
BUILTIN_TYPES = ["int8_t", "uint8_t", "int16_t", "uint16_t", "int32_t"]      # replaced by what an empty model declares (builtin_vars)
BUILTIN_FUNS = []

PROFILES = {
    # name: constants of DocGen.tla ; different profiles balance the random walk toward different parts of the universe
    "struct": dict(MaxTempl=2, MaxLoc=3, MaxBp=1, MaxEdge=4, MaxInst=1, MaxProc=2, Budget=18, PoolCap=13),
    "labels": dict(MaxTempl=1, MaxLoc=2, MaxBp=1, MaxEdge=2, MaxInst=1, MaxProc=1, Budget=14, PoolCap=13),
    "system": dict(MaxTempl=2, MaxLoc=1, MaxBp=0, MaxEdge=1, MaxInst=4, MaxProc=3, Budget=9, PoolCap=2),
    "mixed": dict(MaxTempl=3, MaxLoc=3, MaxBp=1, MaxEdge=4, MaxInst=3, MaxProc=3, Budget=26, PoolCap=13),
}
BFS = dict(MaxTempl=1, MaxLoc=2, MaxBp=1, MaxEdge=2, MaxInst=1, MaxProc=1, Budget=2, PoolCap=1)


def _cfg(path, consts, invariants=("WellFormed", "EmitDone")):
    with open(path, "w") as f:
        f.write("CONSTANTS\n" + "".join("  %s = %s\n" % kv for kv in consts.items()))
        f.write("INIT Init\nNEXT Next\nINVARIANTS %s\nCHECK_DEADLOCK FALSE\n" % " ".join(invariants))


def generate(c, profiles, num, seed, bfs=True, module="DocGen", bfs_budget=2, invariants=("WellFormed", "EmitDone")):
    """-> list of distinct {"m":..., "exp":...}; adds the TLC runs to the evidence of check c"""
    seen, out = set(), []
    env = {"LR_TABLES": os.path.join(vf.lib_dir("plain"), "gen", "lr_tables.json")} if module == "Mirror" else None       # Mirror.tla instantiates LR.tla

    cov_on = module == "DocGen"          # (the composed modules carry the LR tables as constants: coverage instrumentation exhausts the heap there)
    taken = {}

    def take(r):
        for a, (tk, gen) in r.coverage.items():
            taken[a] = taken.get(a, 0) + tk
        if r.violated == "WellFormed":
            raise vf.MachineryError("the model generator violates its own sanity invariant WellFormed")
        if r.violated:
            # a design-level invariant (Mirror!MirrorDesign, XmlWriter!WriterMirrors ...) fails on some model: the specifications disagree with
            # each other or with the tables extracted from the working tree; the comparison with the real document decides the property
            print("DRIFT property=%s %s: invariant %s is violated on a generated model (see the TLC run in the evidence)" % (c.prop, module, r.violated))
            c.cov.setdefault("spec_invariants_violated", []).append(r.violated)
        for e in r.emitted:
            k = json.dumps(e["m"], sort_keys=True)
            if k not in seen:
                seen.add(k)
                out.append(e)
    if bfs:
        cfg = os.path.join(c.run_dir, "DocGen_bfs.cfg")
        _cfg(cfg, dict(BFS, Budget=bfs_budget), invariants)
        r = vf.run_tlc(module, cfg, c.run_dir, timeout=1500, xmx="12g", keep_out=False, env=env, coverage=cov_on)
        c.add_tlc("DocGen_bfs", r, "exhaustive: every model of 1 template reachable with %d budgeted elements beyond the first location (first pool entries)" % bfs_budget)
        take(r)
        c.cov["bfs_models"] = len(out)
    for p in profiles:
        cfg = os.path.join(c.run_dir, "DocGen_%s.cfg" % p)
        _cfg(cfg, PROFILES[p], invariants)
        r = vf.run_tlc(module, cfg, c.run_dir, simulate=max(1, num // 8), depth=60, seed=seed, workers=8, timeout=1500, keep_out=False, env=env, coverage=cov_on)
        c.add_tlc("DocGen_sim_" + p, r, "random walks of the author state machine, profile " + p)
        take(r)
    if cov_on:
        # vacuity: every action of the author state machine was taken in some run (TLC -coverage)
        never = sorted(a for a in ACTIONS if taken.get(a, 0) == 0)
        c.cov["docgen_actions_taken"] = {a: taken.get(a, 0) for a in ACTIONS}
        if never:
            raise vf.MachineryError("DocGen.tla: actions never taken in any run: %s" % never)
    return out


# ------------------------------------------------------------------------------------------------ rendering

def to_xmlgen(m, preamble=PREAMBLE):
    """resolved model (DocGen.Resolved) -> dict for xmlgen.render_xml"""
    templates = []
    for t in m["templs"]:
        locs = [{"id": l["id"], "name": l["name"] or None, "inv": l["inv"] or None, "rate": l["rate"] or None,
                 "urgent": l["flag"] == "urgent", "committed": l["flag"] == "committed"} for l in t["locs"]]
        edges = []
        for e in t["edges"]:
            edges.append({"src": e["src"], "dst": e["dst"], "controllable": None if e["ctrl"] == "" else e["ctrl"] == "true",
                          "select": e["sel"] or None, "guard": e["guard"] or None, "sync": e["sync"] or None,
                          "assign": e["asg"] or None, "prob": e["prob"] or None})
        templates.append({"name": t["name"], "params": t.get("_params_text", ", ".join(t["params"]) if t["params"] else None),
                          "decl": t.get("_ldecl_text", "\n".join(t["ldecl"]) if t["ldecl"] else None), "locations": locs,
                          "branchpoints": [{"id": b} for b in t["bps"]], "init": t["init"] or None, "edges": edges})
    return {"decl": m.get("_decl_text", preamble + "".join(d + "\n" for d in m["gdecl"])), "templates": templates, "system": m.get("_system_text", system_text(m))}


SYS_PREAMBLE = "typedef int[0,1] sys_t;\nint sysv;"


def system_text(m):
    lines = [SYS_PREAMBLE]
    for i in m["insts"]:
        own = "(%s)" % ", ".join(i["own"]) if i["own"] else ""
        lines.append("%s%s = %s(%s);" % (i["name"], own, i["base"], ", ".join(i["args"])))
    s = "system "
    for k, p in enumerate(m["procs"]):
        if k:
            s += " < " if m["seps"][k - 1] == "<" else ", "
        s += p
    lines.append(s + ";")
    lines += list(m.get("sysx", []))          # progress measures, gantt charts: after the process list
    return "\n".join(lines)


def render_xta(m, preamble=PREAMBLE, abbreviate=False):
    """the same model as .xta text (common subset: no branchpoints, no probability labels, no rates on locations is NOT required:
    XTA has `{inv ; rate}`); locations get their document names (anonymous ones `_id<k>`)"""
    out = [preamble]
    out += [d + "\n" for d in m["gdecl"]]
    for t in m["templs"]:
        name = {l["id"]: (l["name"] or "_" + l["id"]) for l in t["locs"]}
        name.update({b: "_" + b for b in t["bps"]})
        out.append("process %s(%s) {\n" % (t["name"], ", ".join(t["params"])))
        out += ["  " + d + "\n" for d in t["ldecl"]]
        states = []
        for l in t["locs"]:
            s = name[l["id"]]
            if l["inv"] and l["rate"]:
                s += " { %s ; %s }" % (l["inv"], l["rate"])
            elif l["inv"]:
                s += " { %s }" % l["inv"]
            elif l["rate"]:
                s += " { ; %s }" % l["rate"]
            states.append(s)
        out.append("  state " + ", ".join(states) + ";\n")
        if t["bps"]:
            out.append("  branchpoint " + ", ".join(name[b] for b in t["bps"]) + ";\n")
        com = [name[l["id"]] for l in t["locs"] if l["flag"] == "committed"]
        urg = [name[l["id"]] for l in t["locs"] if l["flag"] == "urgent"]
        if com:
            out.append("  commit " + ", ".join(com) + ";\n")
        if urg:
            out.append("  urgent " + ", ".join(urg) + ";\n")
        if t["init"]:
            out.append("  init %s;\n" % name.get(t["init"], t["init"]))
        if t["edges"]:
            es = []
            prev_src = None
            for e in t["edges"]:
                arrow = "-u->" if e["ctrl"] == "false" else "->"
                parts = []
                if e["sel"]:
                    parts.append("select %s;" % e["sel"])
                if e["guard"]:
                    parts.append("guard %s;" % e["guard"])
                if e["sync"]:
                    parts.append("sync %s;" % e["sync"])
                if e["asg"]:
                    parts.append("assign %s;" % e["asg"])
                if e["prob"]:
                    parts.append("probability %s;" % e["prob"])
                # `A -> B { }, -> C { }`: an edge may omit its source when it is that of the edge before it (it cannot carry a probability then)
                if abbreviate and prev_src == e["src"] and not e["prob"]:
                    es.append("    %s %s { %s }" % (arrow, name.get(e["dst"], e["dst"]), " ".join(parts)))
                else:
                    es.append("    %s %s %s { %s }" % (name.get(e["src"], e["src"]), arrow, name.get(e["dst"], e["dst"]), " ".join(parts)))
                prev_src = e["src"]
            out.append("  trans\n" + ",\n".join(es) + ";\n")
        out.append("}\n")
    out.append(system_text(m) + "\n")
    return "".join(out)


# ------------------------------------------------------------------------------------------------ projection of a dump

def _s(x):
    """expression text of a dump field (string, or {"s":..,"t":..} when trees are on)"""
    if x is None:
        return ""
    if isinstance(x, dict):
        return x.get("s", "")
    return x


def _inv(x):
    """the type checker stores an accepted invariant as `1 && <invariant>` (RateDecomposer); same constraint, not a difference"""
    s = _s(x)
    if s.startswith("1 && "):
        s = s[5:]
        if s.startswith("(") and s.endswith(")") and s.count("(") == 1:
            s = s[1:-1]
    return s


def _inst(i):
    return {"name": i["name"], "templ": i["templ"], "params": [p["name"] for p in i["params"]], "unbound": i["unbound"],
            "mapping": [{"param": x["param"], "arg": _s(x["arg"])} for x in i["mapping"]]}


def project(doc, builtin_vars):
    """dump["doc"] -> the mirror's fields (same shape as DocGen.Expected)"""
    gv = [v["name"] for v in doc["globals"]["vars"]]
    gv = gv[len(builtin_vars):] if gv[:len(builtin_vars)] == builtin_vars else ["<<builtin prefix differs>>"] + gv
    ts = []
    for t in doc["templates"]:
        ts.append({"name": t["name"], "params": [p["name"] for p in t["params"]], "unbound": t["unbound"],
                   "locals": [v["name"] for v in t["decls"]["vars"]],
                   "locs": [{"name": l["name"], "nr": l["nr"], "inv": _inv(l["inv"]), "rate": _s(l["exp_rate"]), "urgent": l["urgent"],
                             "committed": l["committed"]} for l in t["locations"]],
                   "bps": [b["name"] for b in t["branchpoints"]],
                   "init": t["init"] or "",
                   "edges": [{"nr": e["nr"], "src": e["src"], "dst": e["dst"], "control": e["control"],
                              "select": [s["name"] for s in e["select"]], "guard": _s(e["guard"]), "sync": _s(e["sync"]),
                              "assign": _s(e["assign"]), "prob": _s(e["prob"])} for e in t["edges"]]})
    g = doc["globals"]
    feats = []
    if _s(doc.get("before_update")):
        feats.append({"k": "before_update", "v": _s(doc["before_update"])})
    if _s(doc.get("after_update")):
        feats.append({"k": "after_update", "v": _s(doc["after_update"])})
    for cp in doc.get("chan_priorities", []):
        feats.append({"k": "chan_priority", "v": _s(cp["head"]) + "".join(x["sep"] + _s(x["chan"]) for x in cp["tail"])})
    for pm in g.get("progress", []):
        feats.append({"k": "progress", "v": (_s(pm["guard"]) + ":" if pm.get("guard") else "") + _s(pm["measure"])})
    for gn in g.get("gantt", []):
        feats.append({"k": "gantt", "v": gn})
    ntd = len(BUILTIN_TYPES)
    tds = [x["name"] for x in g["typedefs"]]
    return {"gvars": gv, "templates": ts, "instances": [_inst(i) for i in doc["instances"]],
            "processes": [_inst(p) for p in doc["processes"]], "priorities": doc["has_priorities"],
            "gfuns": [f["name"] for f in g["funs"]][len(BUILTIN_FUNS):], "gtypes": tds[ntd:] if tds[:ntd] == BUILTIN_TYPES else ["<<builtin types differ>>"] + tds, "features": feats}


def diff(exp, got, path=""):
    """first few differences between two JSON values, as (path, expected, got)"""
    out = []
    if isinstance(exp, dict) and isinstance(got, dict):
        for k in sorted(set(exp) | set(got)):
            if k not in exp:
                out.append((path + "/" + k, None, got[k]))
            elif k not in got:
                out.append((path + "/" + k, exp[k], None))
            else:
                out += diff(exp[k], got[k], path + "/" + k)
    elif isinstance(exp, list) and isinstance(got, list):
        if len(exp) != len(got):
            out.append((path + "#len", len(exp), len(got)))
        for i, (a, b) in enumerate(zip(exp, got)):
            out += diff(a, b, "%s[%d]" % (path, i))
    elif exp != got:
        out.append((path, exp, got))
    return out[:12]


def diff_class(d):
    """coarse class of a difference path, used in finding keys: indices removed"""
    import re
    return re.sub(r"\[\d+\]", "[]", d[0])


_BUILTINS = None


def builtin_vars(c):
    """names of the built-in global constants, from an empty model parsed by the library under test"""
    global _BUILTINS
    if _BUILTINS is None:
        import xmlgen
        j = {"id": "builtin", "entry": "xml_buffer", "structure": True,
             "text": xmlgen.render_xml({"decl": "", "templates": [{"name": "T", "locations": [{"id": "id0"}], "init": "id0"}], "system": "system T;"})}
        r = vf.run_jobs([j], c.run_dir, variant="plain", name="builtin")["builtin"]
        _BUILTINS = [v["name"] for v in r["dump"]["doc"]["globals"]["vars"]]
        BUILTIN_TYPES[:] = [x["name"] for x in r["dump"]["doc"]["globals"]["typedefs"]]        # likewise the built-in type names, whatever they are in this tree
        BUILTIN_FUNS[:] = [x["name"] for x in r["dump"]["doc"]["globals"]["funs"]]
    return _BUILTINS
