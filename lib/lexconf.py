"""The scanner at specification level and its binding (Lex.tla / LexMC.tla over the rule tables extracted from the working
tree's lexer.l; harness/scan_run.cpp = the real scanner through the hook utap_verif_scan).

run(c, quick, prop) explores every text up to a bound in four universes (comment bodies, line-comment bodies, lexeme
strings under every separator, all strings over a mixed alphabet), TLC checking Total / Offsets / CommentOpaque / LineOpaque /
LayoutFree on each; every text is then scanned by the real scanner and
  * the property-level relations are evaluated on the REAL token strings (a comment body / a separator must not matter),
  * the real token string is compared with the one Lex.tla derives (names, lexemes, values, offsets, diagnostics,
    expectations, line count, start condition left behind): a disagreement is reported as DRIFT and counted - the relations
    on the real tokens decide."""
import json, os
import vf

CH = lambda xs: [list(x) for x in xs]
PRE, POST = list("a "), list(" b")


NAMES = ["A", "U", "W", "R", "E", "M", "X", "sup", "inf", "bounds", "simulation", "control", "Pr", "under", "strategy", "deadlock", "x", "t1", "AU", "A1", "E_", "int", "const", "imply"]


def universes(quick, idlike):
    return [
        ("names_typed", {"mode": "names", "alphabet": CH(NAMES), "maxlen": 1, "syntax": "new", "typenames": NAMES, "pre": [], "post": [], "idlike": idlike}),
        ("names_plain", {"mode": "names", "alphabet": CH(NAMES), "maxlen": 2, "syntax": "new", "typenames": [], "pre": [], "post": [], "idlike": idlike}),
        ("names_old", {"mode": "names", "alphabet": CH(NAMES), "maxlen": 1, "syntax": "old", "typenames": NAMES, "pre": [], "post": [], "idlike": idlike}),
        ("names_query", {"mode": "names", "alphabet": CH(NAMES), "maxlen": 1, "syntax": "property", "typenames": NAMES, "pre": [], "post": [], "idlike": idlike}),
        ("comment", {"mode": "comment", "alphabet": CH(["*", "/", " ", "\n", "x", ":"]) + [list("EXPECT:")], "maxlen": 4 if quick else 6, "syntax": "new", "typenames": [], "pre": PRE, "post": POST}),
        ("line", {"mode": "line", "alphabet": CH(["*", "/", " ", "x", "\\", "\r", "\t"]) + [list("EXPECT:")], "maxlen": 4 if quick else 5, "syntax": "new", "typenames": [], "pre": PRE, "post": POST}),
        ("layout", {"mode": "layout", "alphabet": CH(["a", "int", "1", "1.5", "+", "++", "<=", "<", "=", "A[]", "A", "[", "]", "-->", "-", "->", "<?", "&&", "&", "\"s\"", "2147483648", "imply", "const", "t"]),
                    "maxlen": 2 if quick else 3, "syntax": "new", "typenames": ["t"], "pre": [], "post": []}),
        ("layout_query", {"mode": "layout", "alphabet": CH(["a", "A[]", "E<>", "A", "U", "[", "]", "<>", "-->", "control", ":", "Pr", "<=", "1", "0.5", "and", "&&", "imply"]),
                          "maxlen": 2 if quick else 3, "syntax": "property", "typenames": [], "pre": [], "post": []}),
        ("numbers", {"mode": "all", "alphabet": CH(["0", "00", "1", "7", "2147483647", "2147483648", "2147483649", "4294967296", "4294967297", "99999999999", "214748364", ".", "e", "E", "+", "-", " ", "x"]),
                     "maxlen": 3 if quick else 4, "syntax": "new", "typenames": [], "pre": [], "post": []}),
        ("all", {"mode": "all", "alphabet": CH(["a", "A", "1", "0", ".", "e", "+", "-", "<", "=", ">", "[", "]", " ", "\n", "/", "*", "\"", "\\", "!", "&", "|", ":", "?", "U", "#", "$", "@", "\r", "\t", "_", "(", ")"]),
                 "maxlen": 3 if quick else 4, "syntax": "new", "typenames": ["a"], "pre": [], "post": []}),
        ("all_old", {"mode": "all", "alphabet": CH(["a", "1", "<", "=", ">", ":", " ", "\n", "/", "*", "c", "o", "n", "s", "t"]), "maxlen": 3 if quick else 5, "syntax": "old", "typenames": [], "pre": [], "post": []}),
        ("all_query", {"mode": "all", "alphabet": CH(["A", "E", "U", "W", "R", "[", "]", "<", ">", "-", "+", "*", " ", "\n", "\r", "a", "1", "P", "r", "#"]), "maxlen": 3 if quick else 4, "syntax": "property", "typenames": [], "pre": [], "post": []}),
    ]


SEPS = [" ", "  ", "\t", "\n", "\r\n", " /**/ ", " //x\n", " \\\n", " \\ \t\n "]


def norm_real(r):
    toks = []
    for tk in r["toks"]:
        name, text, a, b = tk[:4]
        s, n = "", 0
        if name in ("T_ID", "T_TYPENAME", "T_FLOATING", "T_CHARARR"):
            s = text
        if name == "T_NAT":
            n = tk[4]                 # the semantic value the scanner computed (utap_lval.number)
        toks.append({"t": name, "s": s, "n": n, "a": a, "b": b})
    return {"toks": toks, "errs": list(r["errs"]), "expect": list(r["expect"]), "lines": r["lines"], "cond": "INITIAL" if r["after"] == 2 else "other"}


def shape(x):
    return [(t["t"], t["s"], t["n"]) for t in x["toks"]], x["errs"], x["cond"]


def run(c, quick, prop, only=None, variant="plain"):
    gen = os.path.join(vf.lib_dir(variant), "gen")
    env0 = {"LEX_RULES": os.path.join(gen, "lexer_rules.json"), "LEXEMES": os.path.join(gen, "lexemes.json")}
    n_texts = n_rel = drift = 0
    grammar_tokens = set(json.load(open(os.path.join(gen, "lr_tables.json")))["tokens"])
    c.cov["scanner_universes"] = []
    lr = json.load(open(os.path.join(gen, "lr_tables.json")))
    idlike = sorted({r["rhs"][0] for r in lr["rules"] if r["lhs"] == "NonTypeId" and len(r["rhs"]) == 1} - {"T_ID"})       # the tokens the grammar re-admits as identifiers
    if len(idlike) < 5:
        raise vf.MachineryError("the extracted grammar has no NonTypeId alternatives: %s" % idlike)
    for name, params in universes(quick, idlike):
        if only and name not in only:
            continue
        params.setdefault("idlike", idlike)
        pf = os.path.join(c.run_dir, "lex_%s.json" % name)
        json.dump(params, open(pf, "w"))
        mc = vf.run_tlc("LexMC", "LexMC.cfg", c.run_dir, env=dict(env0, LEX_PARAMS=pf), timeout=3000, xmx="8g", keep_out=False)
        c.add_tlc("LexMC_" + name, mc, "the scanner of the working tree (extracted rules, flex semantics) on every text of the universe `%s`: Total, LeavesInitial, Offsets, CommentOpaque, LineOpaque, LayoutFree, NamesAreNames" % name)
        if mc.violated:
            c.finding("%s:scanner:%s:%s" % (prop.lower(), name, mc.violated), "on the scanner rules of the working tree, %s fails in the universe `%s` (Lex.tla: longest match over the rules of lexer.l)" % (mc.violated, name),
                      {"entry": "LexMC", "universe": name, "params": params, "invariant": mc.violated, "tlc_trace_tail": mc.out[-2500:] if getattr(mc, "out", None) else ""})
        emitted = mc.emitted
        c.cov["scanner_universes"].append({"name": name, "texts": len(emitted)})
        if not emitted:
            raise vf.MachineryError("LexMC produced no texts for %s" % name)
        # the real scanner on every text (and, for the relations, on the reference texts)
        texts = ["".join(e["text"]) if isinstance(e["text"], list) else e["text"] for e in emitted]
        extra = []
        if params["mode"] in ("comment", "line"):
            ref = "".join(PRE) + (" " if params["mode"] == "comment" else "\n") + "".join(POST)
            extra = [ref]
        per = 2000
        jobs = [{"id": "%s_%d" % (name, k), "syntax": params["syntax"], "types": params["typenames"], "texts": (extra + texts)[k:k + per], "timeout": 300} for k in range(0, len(texts) + len(extra), per)]
        res = vf.run_jobs(jobs, c.run_dir, variant=variant, harness="scan_run", name="scan_" + name)
        real = []
        for j in jobs:
            r = res[j["id"]]
            if "results" not in r:
                c.finding("%s:scanner:%s:crash" % (prop.lower(), name), "the scanner ends the process (%s) on one of %d texts of the universe `%s`" % (r.get("outcome"), len(j["texts"]), name),
                          {"entry": "scan_run", "universe": name, "texts": j["texts"][:50], "stderr": (r.get("stderr") or "")[-1200:]})
                real += [None] * len(j["texts"])
            else:
                real += r["results"]
        ref_real = norm_real(real[0]) if extra and real[0] else None
        real = real[len(extra):]
        for e, txt, rr in zip(emitted, texts, real):
            if rr is None:
                continue
            n_texts += 1
            got = norm_real(rr)
            if rr["after"] != 2:
                c.finding("%s:scanner:start-condition-left-behind" % prop.lower(), "after the real scanner has scanned %s to its end, the next text `x y` is read as %d tokens instead of 2: the start condition outlives the call" % (json.dumps(txt), rr["after"]),
                          {"entry": "scan_run", "universe": name, "text": txt, "syntax": params["syntax"]})
            # a token the grammar does not declare (the scanner returns a backslash and a double quote as character tokens) is bison's `invalid token`
            want = {"toks": [dict(t, t=(t["t"] if t["t"] in grammar_tokens else "invalid token")) for t in e["toks"]], "errs": list(e["errs"]), "expect": list(e["expect"]), "lines": e["lines"], "cond": e["cond"] if e["cond"] == "INITIAL" else "other"}
            if got != want:
                drift += 1
                if drift <= 3:
                    print("DRIFT Lex.tla and the real scanner disagree on %s (%s): spec %s, real %s" % (json.dumps(txt), name, json.dumps(want)[:300], json.dumps(got)[:300]))
            # literals: the value handed to the parser is the decimal value of the lexeme / the nearest double (python's float() as the oracle)
            for tk in rr["toks"]:
                if tk[0] == "T_NAT" and tk[4] != int(tk[1]):
                    c.finding("%s:scanner:literal-value:nat" % prop.lower(), "the scanner hands the parser the value %d for the integer literal `%s` in %s" % (tk[4], tk[1], json.dumps(txt)),
                              {"entry": "scan_run", "universe": name, "text": txt, "syntax": params["syntax"]})
                if tk[0] == "T_FLOATING":
                    import struct
                    want_bits = struct.unpack("<Q", struct.pack("<d", float(tk[1])))[0]
                    if int(tk[4]) != want_bits:
                        c.finding("%s:scanner:literal-value:float" % prop.lower(), "the scanner hands the parser the double with bits %s for the floating literal `%s` (nearest double: %d) in %s" % (tk[4], tk[1], want_bits, json.dumps(txt)),
                                  {"entry": "scan_run", "universe": name, "text": txt, "syntax": params["syntax"]})
            # the relations on the real token strings
            if ref_real is not None:
                body = txt[len("".join(PRE)) + 2: len(txt) - len("".join(POST)) - (2 if params["mode"] == "comment" else 1)]
                applies = ("*/" not in body) if params["mode"] == "comment" else ("\n" not in body)
                if applies:
                    n_rel += 1
                    if shape(got) != shape(ref_real) or (params["mode"] == "line" and got["lines"] != ref_real["lines"]):
                        c.finding("%s:scanner:%s-body-matters" % (prop.lower(), params["mode"]),
                                  "the real scanner reads %s differently from the same text with the comment replaced by a %s: %s vs %s" % (
                                      json.dumps(txt), "blank" if params["mode"] == "comment" else "line break", json.dumps(shape(got))[:200], json.dumps(shape(ref_real))[:200]),
                                  {"entry": "scan_run", "universe": name, "text": txt, "syntax": params["syntax"]})
        if params["mode"] == "layout":
            # every separator, on the real scanner
            words = [e["text"] for e in emitted]
            lj, lmeta = [], []
            alpha = ["".join(l) for l in params["alphabet"]]
            import itertools
            seqs = [w for n in range(1, params["maxlen"] + 1) for w in itertools.product(alpha, repeat=n)]
            step = max(1, len(seqs) // (400 if quick else 4000))
            chosen = seqs[::step]
            tl = []
            for w in chosen:
                for s in SEPS:
                    if params["syntax"] == "property" and "\n" in s and "\\" not in s:
                        continue          # in a query text a line break separates queries (a continuation line is layout)
                    tl.append(s.join(w))
                    lmeta.append((w, s))
            jobs = [{"id": "lay_%s_%d" % (name, k), "syntax": params["syntax"], "types": params["typenames"], "texts": tl[k:k + per], "timeout": 300} for k in range(0, len(tl), per)]
            res = vf.run_jobs(jobs, c.run_dir, variant=variant, harness="scan_run", name="scanlay_" + name)
            out = []
            for j in jobs:
                out += res[j["id"]].get("results") or [None] * len(j["texts"])
            base = {}
            for (w, s), rr in zip(lmeta, out):
                if rr is not None and s == " ":
                    base[w] = shape(norm_real(rr))
            for (w, s), rr, txt in zip(lmeta, out, tl):
                if rr is None or w not in base:
                    continue
                n_rel += 1
                if shape(norm_real(rr)) != base[w]:
                    c.finding("%s:scanner:separator-matters:%s" % (prop.lower(), json.dumps(s)),
                              "the real scanner reads the lexemes %s joined by %s differently than joined by a blank: %s vs %s" % (json.dumps(w), json.dumps(s), json.dumps(shape(norm_real(rr)))[:200], json.dumps(base[w])[:200]),
                              {"entry": "scan_run", "universe": name, "text": txt, "syntax": params["syntax"]})
    c.cov["scanner_texts_compared_with_spec"] = n_texts
    c.cov["scanner_relations_on_real_tokens"] = n_rel
    c.cov["scanner_spec_disagreements"] = drift
    return n_texts + n_rel


def replay(c, rec):
    r = vf.run_jobs([{"id": "r", "syntax": rec.get("syntax", "new"), "types": [], "texts": [rec["text"]] if "text" in rec else rec.get("texts", [])[:5]}], c.run_dir, variant="plain", harness="scan_run")["r"]
    print(json.dumps(r.get("results"), indent=1)[:3000])
    return 1
