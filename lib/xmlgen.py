"""Rendering of abstract models (dicts, as the TLA+ modules export them) to UPPAAL XML and XTA text.

Model M (all fields optional unless noted):
  {"decl": str, "templates": [T...], "system": str, "queries": [{"formula":..,"comment":..}]}
  T = {"name": str, "params": str, "decl": str,
       "locations": [{"id": str, "name": str|None, "inv": str|None, "rate": str|None, "urgent": bool, "committed": bool}],
       "branchpoints": [{"id": str}], "init": id|None,
       "edges": [{"src": id, "dst": id, "select": str|None, "guard":..., "sync":..., "assign":..., "prob":..., "controllable": bool|None}]}
"""
from xml.sax.saxutils import escape


_CDATA = False


def _txt(text):
    """element text: escaped, or - the other spelling XML offers for the same characters - a CDATA section"""
    if _CDATA and text and "]]>" not in text:
        return "<![CDATA[" + text + "]]>"
    return escape(text)


def _label(kind, text, indent="      "):
    if text is None:
        return ""
    return '%s<label kind="%s">%s</label>\n' % (indent, kind, _txt(text))


def render_xml(m, header=True, cdata=False, rate_first=False, comments=0):
    """cdata: write every text block as a CDATA section; rate_first: write a location's exponentialrate label before its invariant label;
    comments: every location and transition begins with a comments label - 1: an empty element `<label kind="comments"/>`, 2: one with text"""
    global _CDATA, _COMMENTS
    _CDATA = cdata
    _COMMENTS = comments
    try:
        return _render_xml(m, header, rate_first)
    finally:
        _CDATA = False
        _COMMENTS = 0


_COMMENTS = 0


def _comments():
    return {0: "", 1: '      <label kind="comments"/>\n', 2: '      <label kind="comments">a note, not a text of the model</label>\n'}[_COMMENTS]


def _render_xml(m, header, rate_first):
    out = []
    if header:
        out.append('<?xml version="1.0" encoding="utf-8"?>\n')
        out.append("<!DOCTYPE nta PUBLIC '-//Uppaal Team//DTD Flat System 1.1//EN' 'http://www.it.uu.se/research/group/darts/uppaal/flat-1_2.dtd'>\n")
    out.append("<nta>\n")
    out.append("  <declaration>%s</declaration>\n" % _txt(m.get("decl", "")))
    for t in m.get("templates", []):
        out.append("  <template>\n")
        out.append("    <name>%s</name>\n" % escape(t["name"]))
        if t.get("params") is not None:
            out.append("    <parameter>%s</parameter>\n" % _txt(t["params"]))
        if t.get("decl") is not None:
            out.append("    <declaration>%s</declaration>\n" % _txt(t["decl"]))
        for l in t.get("locations", []):
            out.append('    <location id="%s">\n' % l["id"])
            if l.get("name") is not None:
                out.append("      <name>%s</name>\n" % escape(l["name"]))
            out.append(_comments())
            if rate_first:
                out.append(_label("exponentialrate", l.get("rate")))
                out.append(_label("invariant", l.get("inv")))
            else:
                out.append(_label("invariant", l.get("inv")))
                out.append(_label("exponentialrate", l.get("rate")))
            if l.get("urgent"):
                out.append("      <urgent/>\n")
            if l.get("committed"):
                out.append("      <committed/>\n")
            out.append("    </location>\n")
        for b in t.get("branchpoints", []):
            out.append('    <branchpoint id="%s"></branchpoint>\n' % b["id"])
        if t.get("init") is not None:
            out.append('    <init ref="%s"/>\n' % t["init"])
        for e in t.get("edges", []):
            attrs = ""
            if e.get("controllable") is not None:
                attrs = ' controllable="%s"' % ("true" if e["controllable"] else "false")
            out.append("    <transition%s>\n" % attrs)
            out.append('      <source ref="%s"/>\n      <target ref="%s"/>\n' % (e["src"], e["dst"]))
            out.append(_comments())
            for kind, key in (("select", "select"), ("guard", "guard"), ("synchronisation", "sync"),
                              ("assignment", "assign"), ("probability", "prob")):
                out.append(_label(kind, e.get(key)))
            out.append("    </transition>\n")
        out.append("  </template>\n")
    out.append("  <system>%s</system>\n" % _txt(m.get("system", "")))
    if m.get("queries"):
        out.append("  <queries>\n")
        for q in m["queries"]:
            out.append("    <query>\n      <formula>%s</formula>\n      <comment>%s</comment>\n    </query>\n" % (
                escape(q.get("formula", "")), escape(q.get("comment", ""))))
        out.append("  </queries>\n")
    out.append("</nta>\n")
    return "".join(out)


def loc_path(ti, li, label=1):
    return "/nta/template[%d]/location[%d]/label[%d]" % (ti, li, label)


def edge_path(ti, ei, label=1):
    return "/nta/template[%d]/transition[%d]/label[%d]" % (ti, ei, label)
