"""B2 for XmlReader.tla: abstract XML documents (base document + every single structural mutation, with and without whitespace
nodes) are run through the transcribed reader by TLC and, serialised to bytes, through the real XMLReader with a traced
DocumentBuilder; the reader-level events (structural callbacks with their key arguments, every setPath with its XPath) and the
outcome class must agree. Used by C01 (termination / outcome classes / no crash) and C06 (every setPath path is the XPath of an
element) - a disagreement that is not a property violation is reported as DRIFT."""
import json, os, re
import xml.etree.ElementTree as ET
import vf, xmltree

SKIP = object()


def _b(x):
    return "true" if x else "false"


CB_ARG = {"proc_begin": lambda a: a[0] if (len(a) < 2 or a[1]) else "%s:%s:%s" % (a[0], a[2], a[3]),
          "proc_instance_line": lambda a: "", "prechart_set": lambda a: _b(a[0]),
          "proc_message": lambda a: SKIP if len(a) < 4 else "%s->%s:%d:%s" % (a[0], a[1], a[2], _b(a[3])),           # the one-argument overloads are grammar callbacks
          "proc_condition": lambda a: SKIP if len(a) < 4 else "%s:%d:%s:%s" % (",".join(a[0]), a[1], _b(a[2]), _b(a[3])),
          "proc_LSC_update": lambda a: SKIP if len(a) < 3 else "%s:%d:%s" % (a[0], a[1], _b(a[2])), "proc_location": lambda a: a[0], "proc_location_commit": lambda a: a[0], "proc_location_urgent": lambda a: a[0],
          "proc_branchpoint": lambda a: a[0], "proc_location_init": lambda a: a[0], "proc_edge_begin": lambda a: "%s->%s:%s" % (a[0], a[1], "true" if a[2] else "false"),
          "proc_edge_end": lambda a: "", "proc_end": lambda a: "", "model_option": lambda a: a[0], "query_begin": lambda a: "", "query_formula": lambda a: a[1],
          "query_comment": lambda a: "", "query_options": lambda a: a[0], "expectation_begin": lambda a: "", "expectation_value": lambda a: "", "expectation_end": lambda a: "",
          "expect_resource": lambda a: "", "query_end": lambda a: "", "done": lambda a: ""}
EXC = [("xpath_corrupt_error", "logic_error"), ("TypeException", "TypeException"), ("XMLDocError", "XMLDocError"), ("XMLReaderError", "XMLReaderError"), ("logic_error", "logic_error"),
       ("DuplicateDefinitionError", "TypeException"), ("Error", "TypeException")]


def real_events(r):
    out = []
    for e in r.get("events", []):
        cb, a = e["cb"], e["a"]
        if cb == "add_position" and a[1] == 0 and a[2] == 1:
            out.append(("path", a[3] or ""))
        elif cb in CB_ARG:
            v = CB_ARG[cb](a)
            if v is not SKIP:
                out.append((cb, v or ""))
    return out


def spec_events(run):
    out = []
    for e in run["out"]:
        if e["e"] == "path":
            out.append(("path", e["n"]))
        elif e["n"] in CB_ARG:
            out.append((e["n"], e["a"]))
    return out


def real_outcome(r):
    if r.get("outcome") == "return":
        return "return"
    if r.get("outcome") == "throw":
        for pat, cls in EXC:
            if pat in (r.get("exc") or ""):
                return "throw:" + cls
        return "throw:" + str(r.get("exc"))
    return "crash:" + str(r.get("outcome"))


def run(c, quick, variant="asan"):
    """-> list of dicts {id, what, ws, xml, spec, real, spec_outcome, real_outcome, agree}"""
    muts = xmltree.mutations(xmltree.base_doc())
    lsc = xmltree.base_lsc_doc()
    lmuts = [(w, t) for w, t in xmltree.mutations(lsc) if w == "none" or w.split(" ", 1)[1].startswith("3")]       # mutations of the <lsc> element (child 3 of <nta>) and of everything below it
    lmuts += xmltree.lsc_text_variants(lsc)
    docs = []
    for k, (what, tree) in enumerate(muts):
        for ws in (False, True):
            docs.append({"id": "d%d%s" % (k, "w" if ws else "n"), "what": what, "ws": ws, "tree": tree})
    for k, (what, tree) in enumerate(lmuts):
        for ws in (False, True):
            docs.append({"id": "l%d%s" % (k, "w" if ws else "n"), "what": "lsc: " + what, "ws": ws, "tree": tree})
    return compare(c, docs, variant, "reader")


def model_tree(m):
    """a resolved DocGen model as an abstract XML tree (the element order libutap's DTD prescribes; what Mirror!XmlEvents writes)"""
    n = xmltree.n
    import docgen
    kids = [n("declaration", text=docgen.PREAMBLE + "".join(d + "\n" for d in m["gdecl"]))]
    for t in m["templs"]:
        tk = [n("name", text=t["name"])]
        if t["params"]:
            tk.append(n("parameter", text=", ".join(t["params"])))
        if t["ldecl"]:
            tk.append(n("declaration", text="\n".join(t["ldecl"])))
        for l in t["locs"]:
            lk = ([n("name", text=l["name"])] if l["name"] else []) + ([n("label", {"kind": "invariant"}, text=l["inv"])] if l["inv"] else []) \
                + ([n("label", {"kind": "exponentialrate"}, text=l["rate"])] if l["rate"] else []) + ([n(l["flag"])] if l["flag"] else [])
            tk.append(n("location", {"id": l["id"]}, kids=lk, open=not lk))
        for b in t["bps"]:
            tk.append(n("branchpoint", {"id": b}, open=True))
        if t["init"]:
            tk.append(n("init", {"ref": t["init"]}))
        for e in t["edges"]:
            ek = [n("source", {"ref": e["src"]}), n("target", {"ref": e["dst"]})]
            for kind, key in (("select", "sel"), ("guard", "guard"), ("synchronisation", "sync"), ("assignment", "asg"), ("probability", "prob")):
                if e[key]:
                    ek.append(n("label", {"kind": kind}, text=e[key]))
            tk.append(n("transition", {"controllable": e["ctrl"]} if e["ctrl"] else {}, kids=ek))
        kids.append(n("template", kids=tk))
    kids.append(n("system", text=docgen.system_text(m)))
    return n("nta", kids=kids)


def compare(c, docs, variant, name):
    """docs: [{id, what, ws, tree}] through XmlReader.tla (TLC) and through the real reader (record harness); event-by-event comparison"""
    path = os.path.join(c.run_dir, "xmldocs_%s.ndjson" % name)
    vf.write_ndjson(path, [{"id": d["id"], "events": xmltree.events(d["tree"], d["ws"])} for d in docs])
    mc = vf.run_tlc("XmlReader", "XmlReader.cfg", c.run_dir, env={"XML_DOCS": path}, timeout=3000, xmx="16g", workers=1, keep_out=False)
    c.add_tlc("XmlReader(%s)" % name, mc, "the transcribed reader on %d documents" % len(docs))
    runs = {e["id"]: e for e in mc.emitted}
    jobs = [{"id": d["id"], "entry": "xml_buffer", "positions": True, "analysis": False, "walk": False,
             "text": '<?xml version="1.0" encoding="utf-8"?>' + ("\n" if d["ws"] else "") + xmltree.serialise(d["tree"], d["ws"]), "timeout": 30} for d in docs]
    res = vf.run_jobs(jobs, c.run_dir, variant=variant, harness="record", name=name)
    out = []
    for d, j in zip(docs, jobs):
        r = res[d["id"]]
        sp = runs[d["id"]]
        se, re_ = spec_events(sp), real_events(r)
        so, ro = sp["outcome"], real_outcome(r)
        # the reader model treats the builder as opaque: when a builder callback itself throws (duplicate names ...), the reader's catch
        # block changes its course; those documents are compared up to that callback only
        threw = next((k for k, e in enumerate(r.get("events", [])) if e.get("threw") and e["cb"] in CB_ARG and e["cb"] not in ("model_option", "query_options")), None)
        if threw is not None:
            cut = len(real_events({"events": r["events"][:threw + 1]}))
            se, re_ = se[:cut], re_[:cut]
            so = ro
        out.append({"id": d["id"], "what": d["what"], "ws": d["ws"], "xml": j["text"], "spec": se, "real": re_, "spec_outcome": so, "real_outcome": ro,
                    "agree": se == re_ and so == ro, "builder_threw": threw is not None, "terminates": sp["terminates"], "allowed": sp["allowed"], "result": r})
    return out


def xpath_selects_one(xml_text, path):
    """evaluate an XPath of the reader's subset on an independent DOM"""
    if path == "":
        return True
    root = ET.fromstring(xml_text.split("?>", 1)[1] if xml_text.startswith("<?xml") else xml_text)
    segs = path.strip("/").split("/")
    cur = [root] if re.sub(r"\[\d+\]", "", segs[0]) == root.tag else []
    for s in segs[1:]:
        m = re.match(r"^(\w+)(?:\[(\d+)\])?$", s)
        if not m:
            return False
        nxt = []
        for el in cur:
            kids = [ch for ch in el if ch.tag == m.group(1)]
            nxt += kids[int(m.group(2)) - 1:int(m.group(2))] if m.group(2) else kids[:1] if len(kids) == 1 else kids
        cur = nxt
    return len(cur) == 1
