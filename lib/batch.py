"""Batches of labelled expressions: many independent cases are placed as labels of one scaffold model
(one edge / location per case) so that one parse decides many cases; the XPath of each diagnostic
identifies the case it belongs to."""
import re
import xmlgen

EDGE_ROLES = {"guard": "guard", "assign": "assign", "sync": "sync", "prob": "prob", "select": "select"}


def make_batches(cases, decl, tdecl="", per=120, params=None, system="system T;", extra_templates=None, tname="T"):
    """cases: [{"id":..,"role": guard|inv|assign|sync|prob|select|rate, "text":.., (optional) "with": {role: text}}]
    returns (jobs, index) where index[job_id] = {path-prefix: case id}"""
    jobs, index = [], {}
    for bi in range(0, len(cases), per):
        chunk = cases[bi:bi + per]
        locs = [{"id": "id0", "name": "L0"}]
        edges = []
        pmap = {}
        for c in chunk:
            role = c["role"]
            if role in ("inv", "rate"):
                l = {"id": "id%d" % len(locs), "name": "L%d" % len(locs)}
                l["inv" if role == "inv" else "rate"] = c["text"]
                locs.append(l)
                pmap["/nta/template[1]/location[%d]" % len(locs)] = c["id"]
            else:
                e = {"src": "id0", "dst": "id0", EDGE_ROLES[role]: c["text"]}
                for k, v in (c.get("with") or {}).items():
                    e[k] = v
                edges.append(e)
                pmap["/nta/template[1]/transition[%d]" % len(edges)] = c["id"]
        t = {"name": tname, "decl": tdecl, "locations": locs, "init": "id0", "edges": edges}
        if params is not None:
            t["params"] = params
        m = {"decl": decl, "templates": [t] + (extra_templates or []), "system": system}
        jid = "b%d" % (bi // per)
        jobs.append({"id": jid, "entry": "xml_buffer", "text": xmlgen.render_xml(m), "structure": False})
        index[jid] = pmap
    return jobs, index


_PFX = re.compile(r"^(/nta/template\[\d+\]/(?:location|transition)\[\d+\])")


def verdicts(results, index, cases):
    """returns ({case id: [error msgs]}, stray) where stray are errors not attributable to a case"""
    v = {c["id"]: [] for c in cases}
    crashed = {}
    stray = []
    for jid, r in results.items():
        if r.get("outcome") in ("signal", "timeout", "abnormal-exit", "harness-error") or r.get("main", {}).get("outcome") != "return" \
                or r.get("dump", {}).get("outcome") != "return":
            crashed[jid] = r
            continue
        for e in r["dump"]["doc"]["errors"]:
            m = _PFX.match(e.get("path", ""))
            cid = index[jid].get(m.group(1)) if m else None
            if cid is None:
                stray.append((jid, e))
            else:
                v[cid].append(e["msg"])
    return v, stray, crashed
