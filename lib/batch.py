"""Batches of labelled expressions: many independent cases are placed as labels of one scaffold model
(one edge / location per case) so that one parse decides many cases; the XPath of each diagnostic
identifies the case it belongs to."""
import re
import xmlgen

EDGE_ROLES = {"guard": "guard", "assign": "assign", "sync": "sync", "prob": "prob", "select": "select"}


def make_batches(cases, decl, tdecl="", per=120, params=None, system="system T;", extra_templates=None, tname="T"):
    """cases: [{"id":..,"role": guard|inv|assign|sync|prob|select|rate, "text":.., (optional) "with": {role: text}}]
    returns (jobs, index) where index[job_id] = {path-prefix: case id}"""
    jobs, index = [], {}
    for bi in range(0, len(cases), per):
        chunk = cases[bi:bi + per]
        locs = [{"id": "id0", "name": "L0"}]
        edges = []
        pmap = {}
        for c in chunk:
            role = c["role"]
            if role in ("inv", "rate"):
                l = {"id": "id%d" % len(locs), "name": "L%d" % len(locs)}
                l["inv" if role == "inv" else "rate"] = c["text"]
                if c.get("flag"):
                    l[c["flag"]] = True
                locs.append(l)
                pmap["/nta/template[1]/location[%d]" % len(locs)] = c["id"]
            else:
                e = {"src": "id0", "dst": "id0", EDGE_ROLES[role]: c["text"]}
                for k, v in (c.get("with") or {}).items():
                    e[k] = v
                edges.append(e)
                pmap["/nta/template[1]/transition[%d]" % len(edges)] = c["id"]
        t = {"name": tname, "decl": tdecl, "locations": locs, "init": "id0", "edges": edges}
        if params is not None:
            t["params"] = params
        m = {"decl": decl, "templates": [t] + (extra_templates or []), "system": system}
        jid = "b%d" % (bi // per)
        jobs.append({"id": jid, "entry": "xml_buffer", "text": xmlgen.render_xml(m), "structure": False})
        index[jid] = pmap
    return jobs, index


_PFX = re.compile(r"^(/nta/template\[\d+\]/(?:location|transition)\[\d+\])")


def verdicts(results, index, cases):
    """returns ({case id: [error msgs]}, stray) where stray are errors not attributable to a case"""
    v = {c["id"]: [] for c in cases}
    crashed = {}
    stray = []
    for jid, r in results.items():
        if r.get("outcome") in ("signal", "timeout", "abnormal-exit", "harness-error") or r.get("main", {}).get("outcome") != "return" \
                or r.get("dump", {}).get("outcome") != "return":
            crashed[jid] = r
            continue
        for e in r["dump"]["doc"]["errors"]:
            m = _PFX.match(e.get("path", ""))
            cid = index[jid].get(m.group(1)) if m else None
            if cid is None:
                stray.append((jid, e))
            else:
                v[cid].append(e["msg"])
    return v, stray, crashed


# ----------------------------------------------------------------------------------------------
# general placement batches: a case consists of "pre" global-declaration lines (e.g. a family of
# functions) and one expression/declaration placed in a context; diagnostics are attributed to the
# case through (XPath, line).

class Placer:
    """builds one model holding many cases; remembers which (path, line) belongs to which case"""

    def __init__(self, base_decl, tname="T", tdecl="", tparams=None, extra_templates=None, extra_system="", job_extra=None):
        self.job_extra = job_extra or {}
        self.gl = base_decl.rstrip("\n").split("\n")      # global declaration lines
        self.tl = tdecl.rstrip("\n").split("\n") if tdecl else []
        self.sl = []                                         # system lines
        self.locs = [{"id": "id0", "name": "L0"}]
        self.bps = [{"id": "bp0"}]
        self.edges = [{"src": "id0", "dst": "bp0"}]          # edge into the branchpoint (carries no case)
        self.pmap = {}                                       # (path prefix, line or None) -> case id
        self.queries = []
        self.qmap = []
        self.tname, self.tparams = tname, tparams
        self.extra_templates = extra_templates or []
        self.extra_system = extra_system
        self.n = 0

    def _lines(self, store, path, text, cid):
        for ln in text.split("\n"):
            store.append(ln)
            self.pmap[(path, len(store))] = cid

    def add(self, case):
        cid, role, text = case["id"], case["role"], case["text"]
        self.n += 1
        for ln in case.get("pre", []):
            self._lines(self.gl, "/nta/declaration", ln, cid)
        for ln in case.get("tpre", []):
            self._lines(self.tl, "/nta/template[1]/declaration", ln, cid)
        if role == "gdecl":
            self._lines(self.gl, "/nta/declaration", text, cid)
        elif role == "tdecl":
            self._lines(self.tl, "/nta/template[1]/declaration", text, cid)
        elif role == "system":
            self._lines(self.sl, "/nta/system", text, cid)
        elif role in ("inv", "rate"):
            l = {"id": "id%d" % len(self.locs), "name": "L%d" % len(self.locs)}
            l["inv" if role == "inv" else "rate"] = text
            if case.get("flag"):
                l[case["flag"]] = True          # the label sits on an urgent / committed location
            self.locs.append(l)
            self.pmap[("/nta/template[1]/location[%d]" % len(self.locs), None)] = cid
        elif role == "prob":
            self.edges.append({"src": "bp0", "dst": "id0", "prob": text})
            self.pmap[("/nta/template[1]/transition[%d]" % len(self.edges), None)] = cid
        elif role == "query":
            self.queries.append(text)
            self.qmap.append(cid)
        else:
            e = {"src": "id0", "dst": "id0", EDGE_ROLES[role]: text}
            for k, v in (case.get("with") or {}).items():
                e[k] = v
            self.edges.append(e)
            self.pmap[("/nta/template[1]/transition[%d]" % len(self.edges), None)] = cid

    def job(self, jid, **kw):
        t = {"name": self.tname, "decl": "\n".join(self.tl), "locations": self.locs, "branchpoints": self.bps,
             "init": "id0", "edges": self.edges}
        if self.tparams is not None:
            t["params"] = self.tparams
        system = "\n".join(self.sl + [self.extra_system or ("system %s;" % self.tname)])
        m = {"decl": "\n".join(self.gl), "templates": [t] + self.extra_templates, "system": system}
        j = {"id": jid, "entry": "xml_buffer", "text": xmlgen.render_xml(m), "structure": False}
        if self.queries:
            j["queries"] = self.queries
        j.update(self.job_extra)
        j.update(kw)
        return j

    def attribute(self, result):
        """-> ({cid: [msgs]}, stray) for one model_run result"""
        v, stray = {}, []
        for e in result["dump"]["doc"]["errors"][:result.get("nerr_main", 10**9)]:
            path = e.get("path", "")
            m = _PFX.match(path)
            cid = None
            if m:
                cid = self.pmap.get((m.group(1), None))
            if cid is None:
                cid = self.pmap.get((path, e.get("sl")))
            if cid is None:
                stray.append(e)
            else:
                v.setdefault(cid, []).append(e["msg"])
        for k, q in enumerate(result.get("queries", [])):
            cid = self.qmap[k]
            msgs = [x["msg"] for x in q.get("errors", [])]
            if q.get("outcome") != "return":
                msgs.append("THROW:" + str(q.get("exc")) + ":" + str(q.get("what")))
            if msgs:
                v.setdefault(cid, []).extend(msgs)
        return v, stray


def _run_round(vf, cases, make_placer, run_dir, per, variant, name):
    placers, jobs = {}, []
    for bi in range(0, len(cases), per):
        p = make_placer()
        for c in cases[bi:bi + per]:
            p.add(c)
        jid = "%s%d" % (name, bi // per)
        placers[jid] = p
        jobs.append(p.job(jid))
    res = vf.run_jobs(jobs, run_dir, variant=variant, name=name) if jobs else {}
    verdict = {c["id"]: [] for c in cases}
    import json as _json
    for jid, r in res.items():
        if r.get("outcome") in ("signal", "timeout", "abnormal-exit", "harness-error") or r.get("main", {}).get("outcome") != "return" \
                or r.get("dump", {}).get("outcome") != "return":
            raise vf.MachineryError("batch %s failed: %s" % (jid, _json.dumps(r)[:1500]))
        v, stray = placers[jid].attribute(r)
        if stray:
            raise vf.MachineryError("batch %s: diagnostics not attributable to a case: %s" % (jid, stray[:2]))
        for cid, msgs in v.items():
            verdict[cid].extend(msgs)
    return verdict


def run_placed(vf, cases, make_placer, run_dir, per=60, variant="plain", name="pl"):
    """cases -> {cid: [msgs]} (empty list = accepted).
    libutap runs the type checker only when parsing reported no error, so a batch containing a rejected case says
    nothing about the others. Therefore: rejected cases are removed and the rest re-run until a round is clean
    (those cases are accepted by the complete pipeline); every rejected case is then decided alone."""
    remaining = list(cases)
    rejected = []
    for rnd in range(12):
        v = _run_round(vf, remaining, make_placer, run_dir, per, variant, "%s_r%d_" % (name, rnd))
        bad = [c for c in remaining if v[c["id"]]]
        if not bad:
            break
        rejected += bad
        bad_ids = {c["id"] for c in bad}
        remaining = [c for c in remaining if c["id"] not in bad_ids]
    else:
        raise vf.MachineryError("batches did not stabilise")
    verdict = {c["id"]: [] for c in remaining}
    verdict.update(_run_round(vf, rejected, make_placer, run_dir, 1, variant, name + "_single_"))
    return verdict
