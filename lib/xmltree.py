"""Abstract XML documents for XmlReader.tla: a tree of nodes {tag, attrs, text, kids, open}, its mutations, its serialisation to
real XML bytes, and its flattening to the event stream libxml2's xmlTextReader delivers (with / without whitespace nodes)."""
import copy
from xml.sax.saxutils import escape, quoteattr


def n(tag, attrs=None, text=None, kids=None, open=False):
    return {"tag": tag, "attrs": attrs or {}, "text": text, "kids": kids or [], "open": open}


def base_doc():
    return n("nta", kids=[
        n("declaration", text="int i; clock x; chan c;"),
        n("template", kids=[
            n("name", text="T"),
            n("parameter", text="const int[0,1] p"),
            n("declaration", text="int l;"),
            n("location", {"id": "id0"}, kids=[n("name", text="A"), n("label", {"kind": "invariant"}, text="x <= 5"), n("label", {"kind": "exponentialrate"}, text="2")]),
            n("location", {"id": "id1"}, kids=[n("urgent")]),
            n("location", {"id": "id4"}, kids=[n("name", text="B"), n("committed")]),
            n("branchpoint", {"id": "id2"}, open=True),
            n("init", {"ref": "id0"}),
            n("transition", kids=[n("source", {"ref": "id0"}), n("target", {"ref": "id1"}), n("label", {"kind": "guard"}, text="i < 2"),
                                  n("label", {"kind": "assignment"}, text="i = 1"), n("nail")]),
            n("transition", {"controllable": "false"}, kids=[n("source", {"ref": "id1"}), n("target", {"ref": "id2"})]),
            n("transition", kids=[n("source", {"ref": "id2"}), n("target", {"ref": "id4"}), n("label", {"kind": "probability"}, text="3")]),
        ]),
        n("template", kids=[n("name", text="U"), n("location", {"id": "id3"}, kids=[n("name", text="C")]), n("init", {"ref": "id3"}),
                            n("transition", kids=[n("source", {"ref": "id3"}), n("target", {"ref": "id3"}), n("label", {"kind": "synchronisation"}, text="c?")])]),
        n("instantiation", text="P = T(1);"),
        n("system", text="system P, U;"),
        n("queries", kids=[
            n("option", {"key": "--diagnostic", "value": "0"}),
            n("query", kids=[n("formula", text="A[] not deadlock"), n("comment", text="no deadlock"), n("option", {"key": "--search-order", "value": "1"}),
                             n("expect", {"outcome": "success", "type": "probability", "value": "1"}, kids=[n("resource", {"type": "time", "value": "0.1", "unit": "s"})]),
                             n("result", {"outcome": "success"}, kids=[n("details", text="x")])]),
            n("query", kids=[n("formula", text="E<> P.A"), n("comment")]),
        ]),
    ])


def base_lsc_doc():
    """timed automata A, B plus one LSC template with every kind of chart element (the shape of test/models/lsc_example.xml)"""
    def ta(name, lid):
        return n("template", kids=[n("name", text=name), n("location", {"id": lid}), n("init", {"ref": lid}),
                                   n("transition", kids=[n("source", {"ref": lid}), n("target", {"ref": lid}), n("label", {"kind": "synchronisation"}, text="m1?")])])
    return n("nta", kids=[
        n("declaration", text="chan m1, m2; clock x; int v;"),
        ta("A", "id0"), ta("B", "id1"),
        n("lsc", kids=[
            n("name", text="Sc"), n("parameter", text="int a"), n("type", text="Universal"), n("mode", text="Invariant"),
            n("declaration", text="int l;"),
            n("yloccoord", {"number": "0", "y": "0"}), n("yloccoord", {"number": "1", "y": "50"}),
            n("instance", {"id": "id8"}, kids=[n("name", text="A")]),
            n("instance", {"id": "id9"}, kids=[n("name", text="B")]),
            n("prechart", kids=[n("lsclocation", text="2")]),
            n("message", kids=[n("source", {"ref": "id8"}), n("target", {"ref": "id9"}), n("lsclocation", text="1"), n("label", {"kind": "message"}, text="m1")]),
            n("message", kids=[n("source", {"ref": "id9"}), n("target", {"ref": "id8"}), n("lsclocation", text="3"), n("label", {"kind": "message"}, text="m2")]),
            n("condition", kids=[n("anchor", {"instanceid": "id8"}), n("anchor", {"instanceid": "id9"}), n("lsclocation", text="1"), n("temperature", text="hot"),
                                 n("label", {"kind": "condition"}, text="x >= a")]),
            n("condition", kids=[n("anchor", {"instanceid": "id9"}), n("lsclocation", text="4"), n("temperature", text="cold"), n("label", {"kind": "condition"}, text="x >= 1")]),
            n("update", kids=[n("anchor", {"instanceid": "id8"}), n("lsclocation", text="3"), n("label", {"kind": "update"}, text="v = 1")]),
        ]),
        n("system", text="S = Sc(2);\nsystem A, B;"),
        n("queries", kids=[n("query", kids=[n("formula", text="sat: S"), n("comment")])]),
    ])


def lsc_text_variants(base):
    """the same chart with other element texts: existential type, non-numeric / negative / missing location numbers"""
    out = []
    def variant(what, fn):
        t = copy.deepcopy(base)
        fn(t)
        out.append((what, t))
    lsc = lambda t: [k for k in t["kids"] if k["tag"] == "lsc"][0]
    variant("type existential", lambda t: [k for k in lsc(t)["kids"] if k["tag"] == "type"][0].update(text="existential"))
    variant("type Existential", lambda t: [k for k in lsc(t)["kids"] if k["tag"] == "type"][0].update(text="Existential"))
    for txt in ("abc", "-1", "0", "5"):
        variant("prechart lsclocation " + txt, lambda t, txt=txt: [k for k in lsc(t)["kids"] if k["tag"] == "prechart"][0]["kids"][0].update(text=txt))
        variant("message lsclocation " + txt, lambda t, txt=txt: [k for k in lsc(t)["kids"] if k["tag"] == "message"][0]["kids"][2].update(text=txt))
    variant("temperature other", lambda t: [k for k in lsc(t)["kids"] if k["tag"] == "condition"][0]["kids"][3].update(text="warm"))
    variant("instance name blank", lambda t: [k for k in lsc(t)["kids"] if k["tag"] == "instance"][0]["kids"][0].update(text=None, kids=[]))
    variant("second lsc", lambda t: t["kids"].insert(4, copy.deepcopy(lsc(t))))
    return out


def nodes(t, path=()):
    """preorder list of (path, node)"""
    out = [(path, t)]
    for i, k in enumerate(t["kids"]):
        out += nodes(k, path + (i,))
    return out


def at(t, path):
    for i in path:
        t = t["kids"][i]
    return t


def mutations(base):
    """-> [(description, tree)] single structural mutations of the base document"""
    out = [("none", copy.deepcopy(base))]
    for path, nd in nodes(base):
        if not path:
            continue
        where = "/".join(str(i) for i in path) + ":" + nd["tag"]
        parent_path, idx = path[:-1], path[-1]

        def mut(fn):
            t = copy.deepcopy(base)
            fn(at(t, parent_path), idx)
            return t
        out.append(("delete " + where, mut(lambda p, i: p["kids"].pop(i))))
        out.append(("duplicate " + where, mut(lambda p, i: p["kids"].insert(i + 1, copy.deepcopy(p["kids"][i])))))
        out.append(("unknown-tag " + where, mut(lambda p, i: p["kids"][i].update(tag="zz" + p["kids"][i]["tag"]))))
        out.append(("empty " + where, mut(lambda p, i: p["kids"][i].update(kids=[], text=None, open=False))))
        out.append(("blank-text " + where, mut(lambda p, i: p["kids"][i].update(kids=[], text=" "))))
        out.append(("move-last " + where, mut(lambda p, i: p["kids"].append(p["kids"].pop(i)))))
        out.append(("move-first " + where, mut(lambda p, i: p["kids"].insert(0, p["kids"].pop(i)))))
        out.append(("open-form " + where, mut(lambda p, i: p["kids"][i].update(open=True))))
        out.append(("wrap-unknown " + where, mut(lambda p, i: p["kids"].__setitem__(i, n("zzwrap", kids=[p["kids"][i]])))))
        for a in list(nd["attrs"]):
            out.append(("drop-attr %s@%s" % (where, a), mut(lambda p, i, a=a: p["kids"][i]["attrs"].pop(a))))
            out.append(("blank-attr %s@%s" % (where, a), mut(lambda p, i, a=a: p["kids"][i]["attrs"].__setitem__(a, ""))))
            out.append(("bad-attr %s@%s" % (where, a), mut(lambda p, i, a=a: p["kids"][i]["attrs"].__setitem__(a, "id99"))))
    return out


def serialise(t, ws, indent=0):
    a = "".join(" %s=%s" % (k, quoteattr(v)) for k, v in t["attrs"].items())
    pad = ("\n" + "  " * indent) if ws else ""
    if not t["kids"] and t["text"] is None and not t["open"]:
        return "<%s%s/>" % (t["tag"], a)
    s = "<%s%s>" % (t["tag"], a)
    if t["text"] is not None:
        s += escape(t["text"])
    for k in t["kids"]:
        s += (("\n" + "  " * (indent + 1)) if ws else "") + serialise(k, ws, indent + 1)
    if t["kids"]:
        s += pad
    return s + "</%s>" % t["tag"]


def events(t, ws):
    """the xmlTextReader node stream of serialise(t, ws)"""
    e = {"ty": "elem", "tag": t["tag"], "empty": (not t["kids"] and t["text"] is None and not t["open"]), "attrs": dict(t["attrs"]), "txt": ""}
    out = [e]
    if e["empty"]:
        return out
    if t["text"] is not None:
        if t["text"].strip() == "":
            out.append({"ty": "ws", "tag": "", "empty": False, "attrs": {}, "txt": t["text"]})
        else:
            out.append({"ty": "text", "tag": "", "empty": False, "attrs": {}, "txt": t["text"]})
    for k in t["kids"]:
        if ws:
            out.append({"ty": "ws", "tag": "", "empty": False, "attrs": {}, "txt": ""})
        out += events(k, ws)
    if t["kids"] and ws:
        out.append({"ty": "ws", "tag": "", "empty": False, "attrs": {}, "txt": ""})
    out.append({"ty": "end", "tag": t["tag"], "empty": False, "attrs": dict(t["attrs"]), "txt": ""})     # xmlTextReaderGetAttribute also answers on the end tag
    return out
