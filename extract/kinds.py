#!/usr/bin/env python3
"""extract Constants::kind_t enumerator names from the working tree's common.h -> kind_names.inc"""
import re, sys
src, out = sys.argv[1], sys.argv[2]
s = open(src).read()
m = re.search(r"enum\s+kind_t\s*\{(.*?)\};", s, re.S)
body = re.sub(r"//[^\n]*|/\*.*?\*/", "", m.group(1), flags=re.S)
names = [x.strip().split("=")[0].strip() for x in body.split(",") if x.strip()]
with open(out, "w") as f:
    for n in names:
        f.write('KIND(%s)\n' % n)
print(len(names), "kinds")
