#!/usr/bin/env python3
"""The scanner of the working tree as data: every rule of lexer.l (start condition, pattern, what its action does) and,
per start condition, the rules' patterns compiled into ONE epsilon-free NFA whose accepting states carry the rule index -
the tables Lex.tla interprets with flex's semantics (longest match, earliest rule on ties).
  lexer_rules.py <lexer.l> <out.json> [<libparser.h>]
Nothing is transcribed by hand: definitions ({alpha} ...), quoted strings, classes, escapes, | * + ? ( ) . are compiled by the
small regex compiler below; an action is classified by what it mentions (return <token>, BEGIN(..), tracker.newline(..),
find_keyword, atoi / atof, handle_expect, utap_error / yyerror, the syntax switch). A rule this file does not understand makes
the extraction fail loudly (machinery failure), never silently drops it."""
import json, re, sys


class Rx:
    def __init__(self, s, defs):
        self.s, self.i, self.defs = s, 0, defs

    def peek(self):
        return self.s[self.i] if self.i < len(self.s) else ""

    def alt(self):
        parts = [self.cat()]
        while self.peek() == "|":
            self.i += 1
            parts.append(self.cat())
        return parts[0] if len(parts) == 1 else ("alt", parts)

    def cat(self):
        items = []
        while self.peek() and self.peek() not in "|)":
            items.append(self.rep())
        return ("cat", items)

    def rep(self):
        a = self.atom()
        while self.peek() and self.peek() in "*+?":
            a = ({"*": "star", "+": "plus", "?": "opt"}[self.peek()], a)
            self.i += 1
        return a

    def esc(self):
        c = self.s[self.i]
        self.i += 1
        return {"n": "\n", "t": "\t", "r": "\r", "f": "\f", "v": "\v", "0": "\0"}.get(c, c)

    def atom(self):
        c = self.peek()
        if c == "(":
            self.i += 1
            a = self.alt()
            assert self.peek() == ")", "unbalanced ( in %r" % self.s
            self.i += 1
            return a
        if c == '"':
            self.i += 1
            chars = []
            while self.peek() != '"':
                assert self.peek(), "unterminated string in %r" % self.s
                if self.peek() == "\\":
                    self.i += 1
                    chars.append(self.esc())
                else:
                    chars.append(self.peek())
                    self.i += 1
            self.i += 1
            return ("cat", [("set", False, [ch]) for ch in chars])
        if c == "[":
            self.i += 1
            neg = False
            if self.peek() == "^":
                neg = True
                self.i += 1
            chars = []
            first = True
            while self.peek() != "]" or first:
                assert self.peek(), "unterminated class in %r" % self.s
                first = False
                if self.peek() == "\\":
                    self.i += 1
                    lo = self.esc()
                else:
                    lo = self.peek()
                    self.i += 1
                if self.peek() == "-" and self.s[self.i + 1:self.i + 2] not in ("]", ""):
                    self.i += 1
                    if self.peek() == "\\":
                        self.i += 1
                        hi = self.esc()
                    else:
                        hi = self.peek()
                        self.i += 1
                    chars += [chr(k) for k in range(ord(lo), ord(hi) + 1)]
                else:
                    chars.append(lo)
            self.i += 1
            return ("set", neg, sorted(set(chars)))
        if c == "{":
            j = self.s.index("}", self.i)
            name = self.s[self.i + 1:j]
            assert name in self.defs, "unknown definition {%s}" % name
            self.i = j + 1
            return Rx(self.defs[name], self.defs).alt()
        if c == ".":
            self.i += 1
            return ("set", True, ["\n"])
        if c == "\\":
            self.i += 1
            return ("set", False, [self.esc()])
        self.i += 1
        return ("set", False, [c])


class Nfa:
    def __init__(self):
        self.n = 0
        self.eps = {}
        self.tr = []

    def new(self):
        self.n += 1
        return self.n

    def e(self, a, b):
        self.eps.setdefault(a, set()).add(b)

    def build(self, node):
        """-> (start, end)"""
        k = node[0]
        if k == "set":
            a, b = self.new(), self.new()
            self.tr.append((a, {"neg": node[1], "set": node[2]}, b))
            return a, b
        if k == "cat":
            a = self.new()
            cur = a
            for it in node[1]:
                s, t = self.build(it)
                self.e(cur, s)
                cur = t
            return a, cur
        if k == "alt":
            a, b = self.new(), self.new()
            for it in node[1]:
                s, t = self.build(it)
                self.e(a, s)
                self.e(t, b)
            return a, b
        s, t = self.build(node[1])
        a, b = self.new(), self.new()
        self.e(a, s)
        self.e(t, b)
        if k in ("star", "opt"):
            self.e(a, b)
        if k in ("star", "plus"):
            self.e(t, s)
        return a, b

    def closure(self, states):
        out, todo = set(states), list(states)
        while todo:
            x = todo.pop()
            for y in self.eps.get(x, ()):
                if y not in out:
                    out.add(y)
                    todo.append(y)
        return out


def split_pattern(line):
    """the pattern of a rule line ends at the first blank outside quotes and brackets"""
    i, q, b = 0, False, False
    while i < len(line):
        c = line[i]
        if c == "\\":
            i += 2
            continue
        if q:
            q = c != '"'
        elif b:
            b = c != "]"
        elif c == '"':
            q = True
        elif c == "[":
            b = True
        elif c in " \t":
            break
        i += 1
    return line[:i], line[i:].strip()


def depth_of(s):
    """brace balance of a piece of C++ outside character and string literals"""
    s = re.sub(r"'(?:[^'\\]|\\.)'", "", s)
    s = re.sub(r'"(?:[^"\\]|\\.)*"', "", s)
    return s.count("{") - s.count("}")


def macros_of(head):
    """function-like macros of the prologue: name -> (parameter, body)"""
    out = {}
    for m in re.finditer(r"^#define\s+(\w+)\((\w+)\)((?:.*\\\n)*.*)$", head, re.M):
        out[m.group(1)] = (m.group(2), m.group(3).replace("\\\n", "\n"))
    return out


def expand(act, macros):
    for name, (par, body) in macros.items():
        act = re.sub(r"\b%s\(([^()]*)\)" % name, lambda m: re.sub(r"\b%s\b" % par, lambda _: m.group(1), body), act)
    return act


def classify(act):
    a = re.sub(r"/\*.*?\*/", " ", act, flags=re.S)
    a = re.sub(r"//[^\n]*", " ", a)
    rets = re.findall(r"return\s+('(?:[^'\\]|\\.)'|[A-Za-z_0-9]+)\s*;", a)
    begin = re.findall(r"BEGIN\((\w+)\)", a)
    if "find_keyword" in a:
        return {"k": "word"}
    if "is_type" in a and "T_TYPENAME" in rets and len(rets) == 2:
        return {"k": "letter", "tok": [r for r in rets if r != "T_TYPENAME"][0], "unless_property": "syntax_t::PROPERTY" in a}          # a letter token that is a type name when the builder says so
    if "T_POS_NEG_MAX" in a or "atoi" in a:
        return {"k": "nat"}
    if "atof" in a:
        return {"k": "float"}
    if "T_CHARARR" in a:
        return {"k": "chararr"}
    if "handle_expect" in a:
        return {"k": "expect"}
    if "tracker.newline" in a:
        m = re.search(r"tracker\.newline\(ch,\s*([^)]*)\)", a)
        per = {"yyleng": 1, "yyleng / 2": 2, "yyleng/2": 2, "1": 0}.get(m.group(1).strip())
        assert per is not None, "newline count %r" % m.group(1)
        return {"k": "newline", "per": per, "tok": rets[0] if rets else ""}          # per: characters per line break (0: exactly one break)
    if begin and ("yyerror" in a or "utap_error" in a):
        m = re.search(r'(?:yyerror|utap_error)\("([^"]*)"\)', a)
        return {"k": "eoferror", "to": begin[0], "msg": m.group(1)}
    if begin:
        return {"k": "begin", "to": begin[0]}
    if "syntax_t::OLD" in a and len(rets) == 2:
        return {"k": "oldop", "tok": rets[0], "else": rets[1]}
    if ("utap_error" in a or "yyerror" in a) and rets:
        m = re.search(r'(?:yyerror|utap_error)\("([^"]*)"\)', a)
        return {"k": "error", "msg": m.group(1) if m else "", "tok": rets[0]}
    if len(rets) == 1:
        return {"k": "tok", "tok": rets[0]}
    if not rets and not re.search(r"[A-Za-z_]", a.replace("{", "").replace("}", "")):
        return {"k": "skip"}
    raise SystemExit("lexer_rules: cannot classify the action %r" % act[:200])


def rule_lines(src):
    """-> (conds, defs, [(cond, pattern, action text with the prologue's macros expanded)])"""
    text = open(src).read()
    head, body = text.split("\n%%\n", 1)
    body = body.split("\n%%", 1)[0]
    macros = macros_of(head)
    defs, conds = {}, ["INITIAL"]
    in_code = False
    for ln in head.split("\n"):
        if ln.startswith("%{"):
            in_code = True
        elif ln.startswith("%}"):
            in_code = False
        elif in_code:
            continue
        elif ln.startswith(("%x", "%s")):
            conds += ln.split()[1:]
        else:
            m = re.match(r"^([A-Za-z_]\w*)\s+(\S.*)$", ln)
            if m and not ln.startswith(("%", "/", " ")):
                defs[m.group(1)] = m.group(2).strip()
    # rule lines: (cond, pattern, action text)
    rules, cond, lines, i = [], "INITIAL", body.split("\n"), 0
    while i < len(lines):
        ln = lines[i]
        st = ln.strip()
        i += 1
        if not st or (st.startswith("/*") and st.endswith("*/")):
            continue
        m = re.match(r"^<(\w+)>\{$", st)
        if m:
            cond = m.group(1)
            continue
        if st == "}" and cond != "INITIAL":
            cond = "INITIAL"
            continue
        pat, act = split_pattern(st)
        # a multi-line action: collect up to the balancing brace
        if act.startswith("{"):
            depth = depth_of(act)
            while depth > 0:
                act += "\n" + lines[i]
                depth += depth_of(lines[i])
                i += 1
        rules.append((cond, pat, expand(act, macros)))
    return conds, defs, rules


def main():
    src, out = sys.argv[1:3]
    conds, defs, rules = rule_lines(src)
    res = {"conds": {}, "rules": [], "eof": {}}
    per = {c: [] for c in conds}
    for cnd, pat, act in rules:
        a = classify(act)
        if pat == "<<EOF>>":
            res["eof"][cnd] = a if a["k"] != "tok" else {"k": "end"}
            continue
        idx = len(res["rules"]) + 1
        res["rules"].append({"idx": idx, "cond": cnd, "pattern": pat, "act": a})
        per[cnd].append((idx, pat))
    for cnd in conds:
        nfa = Nfa()
        start = nfa.new()
        acc = {}
        for idx, pat in per[cnd]:
            rx = Rx(pat, defs)
            tree = rx.alt()
            assert rx.i == len(pat), "trailing %r in pattern %r" % (pat[rx.i:], pat)
            s, t = nfa.build(tree)
            nfa.e(start, s)
            acc[t] = idx
        # epsilon-free: transitions leave from closures; a state accepts the earliest rule in its closure
        clo = {s: nfa.closure([s]) for s in range(1, nfa.n + 1)}
        accept = [0] * nfa.n
        for s in range(1, nfa.n + 1):
            hits = [acc[x] for x in clo[s] if x in acc]
            accept[s - 1] = min(hits) if hits else 0
        out_tr = [[] for _ in range(nfa.n)]
        for (a, cls, b) in nfa.tr:
            out_tr[a - 1].append({"neg": cls["neg"], "set": cls["set"], "to": b})
        # keep only the states that matter: targets of character transitions and the start; their outgoing edges are those of their closure
        keep = sorted({start} | {b for (_, _, b) in nfa.tr})
        ren = {s: k + 1 for k, s in enumerate(keep)}
        states = []
        for s in keep:
            edges = []
            for x in sorted(clo[s]):
                for e in out_tr[x - 1]:
                    edges.append({"neg": e["neg"], "set": e["set"], "to": ren[e["to"]]})
            states.append({"acc": accept[s - 1], "out": edges})
        res["conds"][cnd] = {"start": ren[start], "states": states}
    for cnd in conds:
        res["eof"].setdefault(cnd, {"k": "end"})
    # the syntax masks (libparser.h: enum class syntax_t) as sets of their bits, and whether the PROB keywords are compiled in
    if len(sys.argv) > 3:
        import os
        enum = re.search(r"enum class syntax_t[^{]*\{(.*?)\};", open(sys.argv[3]).read(), re.S).group(1)
        masks = {}
        for m in re.finditer(r"(\w+)\s*=\s*([^,\n]+)", enum):
            name, rhs = m.group(1), m.group(2).strip()
            if "<<" in rhs:
                masks[name] = [name]
            elif rhs.startswith("0"):
                masks[name] = []
            else:
                masks[name] = sorted({b for part in rhs.split("|") for b in masks[part.strip()]})
        res["masks"] = masks
        root = os.path.dirname(os.path.dirname(os.path.abspath(sys.argv[3])))
        defined = False
        for dp, dn, fn in os.walk(root):
            dn[:] = [d for d in dn if not d.startswith(("_build", ".", "build"))]
            for f in fn:
                if f == "CMakeLists.txt" or f.endswith(".cmake"):
                    if re.search(r"ENABLE_PROB", open(os.path.join(dp, f), errors="replace").read()):
                        defined = True
        res["enable_prob"] = defined
    json.dump(res, open(out, "w"), indent=0, sort_keys=True)
    print("lexer_rules: %d rules, %s" % (len(res["rules"]), {c: len(res["conds"][c]["states"]) for c in conds}))


if __name__ == "__main__":
    main()
