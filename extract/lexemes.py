#!/usr/bin/env python3
"""token -> lexeme table of the working tree: literal rules of lexer.l and the keyword table of keywords.cpp.
  lexemes.py <lexer.l> <keywords.cpp> <out.json>
out: {"lit": {token: [texts]}, "kw": {text: {"tok": token, "syntax": mask-name}}}"""
import json, os, re, sys
lex, kw, out = sys.argv[1:4]
lit = {}
sys.path.insert(0, os.path.dirname(os.path.abspath(__file__)))
import lexer_rules
for cond, pat, act in lexer_rules.rule_lines(lex)[2]:
    # literal rules: the pattern is one quoted string, the action returns one token (or, for the path-quantifier letters, that token unless the text names a type)
    m = re.fullmatch(r'"((?:[^"\\]|\\.)+)"', pat)
    if not m or cond != "INITIAL":
        continue
    a = lexer_rules.classify(act)
    if a["k"] in ("tok", "letter"):
        lit.setdefault(a["tok"], []).append(m.group(1).encode().decode("unicode_escape"))
kws = {}
for m in re.finditer(r'\{"(\w+)",\s*Keyword\{(\w+),\s*syntax_t::(\w+)\}\}', open(kw).read()):
    kws[m.group(1)] = {"tok": m.group(2), "syntax": m.group(3)}
json.dump({"lit": lit, "kw": kws}, open(out, "w"), indent=0, sort_keys=True)
print("lexemes: %d literal tokens, %d keywords" % (len(lit), len(kws)))
