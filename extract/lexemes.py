#!/usr/bin/env python3
"""token -> lexeme table of the working tree: literal rules of lexer.l and the keyword table of keywords.cpp.
  lexemes.py <lexer.l> <keywords.cpp> <out.json>
out: {"lit": {token: [texts]}, "kw": {text: {"tok": token, "syntax": mask-name}}}"""
import json, re, sys
lex, kw, out = sys.argv[1:4]
lit = {}
for m in re.finditer(r"""^"((?:[^"\\]|\\.)+)"\s*\{\s*return\s+('(?:[^'\\]|\\.)'|[^;']+);\s*\}""", open(lex).read(), re.M):
    text = m.group(1).encode().decode("unicode_escape")
    tok = m.group(2).strip()
    if tok.startswith("'"):
        tok = tok          # character tokens keep their quotes, as in the bison report ('(' etc.)
    lit.setdefault(tok, []).append(text)
kws = {}
for m in re.finditer(r'\{"(\w+)",\s*Keyword\{(\w+),\s*syntax_t::(\w+)\}\}', open(kw).read()):
    kws[m.group(1)] = {"tok": m.group(2), "syntax": m.group(3)}
json.dump({"lit": lit, "kw": kws}, open(out, "w"), indent=0, sort_keys=True)
print("lexemes: %d literal tokens, %d keywords" % (len(lit), len(kws)))
