#!/usr/bin/env python3
"""B1 extraction: the LALR automaton and the rule -> callback map of the WORKING TREE's parser.y.

  lr_tables.py <parser.y> <outdir>

runs `bison --xml` (the report describes the tables bison emits) and scans the generated parser.cpp for the
semantic actions. Nothing is transcribed by hand: precedence/associativity declarations, %prec, error productions and
actions are whatever the working tree says. Output <outdir>/lr_tables.json:

  {"states": [{"sh": {token: state}, "go": {nonterminal: state}, "rd": {token: rule}, "def": rule|-1, "acc": bool,
               "la": bool (state consults the lookahead)}],
   "rules":  [{"lhs": nt, "len": n, "rhs": [...], "stmts": [stmt...]}],   index = bison rule number (0 = $accept)
   "tokens": [...], "entry": {start token: ...}}
  stmt = {"op":"call","cb":name,"args":[arg...],"first":i,"last":j}   (i, j: RHS offsets as in yylsp[i])
       | {"op":"set","val":arg} | {"op":"setplus","a":arg,"b":arg} | {"op":"types0"} | {"op":"typesinc"} | {"op":"setroot","val":arg}
  arg  = {"k":"val","i":offset,"f":field} | {"k":"c","v":text} | {"k":"root"} | {"k":"types"} | {"k":"typesdec"}
"""
import json
import os
import re
import subprocess
import sys
import xml.etree.ElementTree as ET


def split_args(s):
    out, depth, cur = [], 0, ""
    instr = None
    for ch in s:
        if instr:
            cur += ch
            if ch == instr:
                instr = None
            continue
        if ch in "\"'":
            instr = ch
            cur += ch
        elif ch in "(<":
            depth += 1; cur += ch
        elif ch in ")>":
            depth -= 1; cur += ch
        elif ch == "," and depth == 0:
            out.append(cur.strip()); cur = ""
        else:
            cur += ch
    if cur.strip():
        out.append(cur.strip())
    return out


VAL = re.compile(r"^\(yyvsp\[(-?\d+)\]\.(\w+)\)$")


def parse_arg(a):
    a = a.strip()
    m = VAL.match(a)
    if m:
        return {"k": "val", "i": int(m.group(1)), "f": m.group(2)}
    if a == "rootTransId":
        return {"k": "root"}
    if a == "types":
        return {"k": "types"}
    if a == "types--":
        return {"k": "typesdec"}
    a = a.replace("ParserBuilder::", "")
    if a == "std::numeric_limits<int>::min()":
        a = "INT_MIN"
    return {"k": "c", "v": a}


CALL = re.compile(r"CALL\(\(yylsp\[(-?\d+)\]\), ?\(yylsp\[(-?\d+)\]\), ?(\w+)\((.*)\)\)$", re.S)


def parse_body(body, rule):
    """body: text between the outer braces of one semantic action -> list of stmts"""
    body = body.strip()
    assert body.startswith("{") and body.endswith("}"), (rule, body)
    body = body[1:-1]
    body = re.sub(r"//[^\n]*", "", body)            # comments inside actions
    body = re.sub(r"/\*.*?\*/", "", body, flags=re.S)
    stmts = []
    for st in [x.strip() for x in re.split(r";(?![^()]*\))", body) if x.strip()]:
        st = re.sub(r"\s+", " ", st)
        m = CALL.match(st)
        if m:
            stmts.append({"op": "call", "cb": m.group(3), "args": [parse_arg(a) for a in split_args(m.group(4))],
                          "first": int(m.group(1)), "last": int(m.group(2))})
            continue
        m = re.match(r"^\(yyval\.(\w+)\) ?= ?(.*)$", st)
        if m:
            rhs = m.group(2).strip()
            mp = re.match(r"^(\(yyvsp\[-?\d+\]\.\w+\)) ?\+ ?(.+)$", rhs)
            if mp:
                stmts.append({"op": "setplus", "a": parse_arg(mp.group(1)), "b": parse_arg(mp.group(2))})
            else:
                stmts.append({"op": "set", "val": parse_arg(rhs)})
            continue
        m = re.match(r"^strn?cpy\(\(yyval\.string\), (.*?)(?: ?, ?\w+)?\)$", st)
        if m:
            stmts.append({"op": "set", "val": parse_arg(m.group(1))})
            continue
        m = re.match(r"^strn?cpy\(rootTransId, (.*?)(?: ?, ?[A-Z_0-9]+)?\)$", st)
        if m:
            stmts.append({"op": "setroot", "val": parse_arg(m.group(1))})
            continue
        if st == "types = 0":
            stmts.append({"op": "types0"}); continue
        if st == "types++":
            stmts.append({"op": "typesinc"}); continue
        if not re.search(r"CALL|yyval|yyvsp|rootTransId|\btypes\b|ch->|YYABORT|YYERROR|YYACCEPT|yyclearin|yyerrok", st):
            # a statement that touches neither the builder, the semantic values nor the parser's control state: no effect on the callback trace
            stmts.append({"op": "opaque", "text": st})
            sys.stderr.write("lr_tables: note: statement %r in action of rule %s treated as having no effect on the callbacks\n" % (st, rule))
            continue
        raise SystemExit("lr_tables: cannot interpret statement %r in action of rule %s; extend extract/lr_tables.py" % (st, rule))
    return stmts


def main():
    y, outdir = sys.argv[1], sys.argv[2]
    os.makedirs(outdir, exist_ok=True)
    xmlp, cpp = os.path.join(outdir, "parser.xml"), os.path.join(outdir, "parser_extract.cpp")
    subprocess.run(["bison", "-putap_", "-bparser", y, "--xml=" + xmlp, "--output=" + cpp,
                    "--defines=" + os.path.join(outdir, "parser_extract.hpp")], check=True, stdout=subprocess.DEVNULL, stderr=subprocess.DEVNULL)
    root = ET.parse(xmlp).getroot()
    g = root.find("grammar")
    rules = []
    for r in g.find("rules"):
        rhs = [s.text for s in r.find("rhs") if s.tag == "symbol"]
        rules.append({"lhs": r.find("lhs").text, "len": len(rhs), "rhs": rhs, "stmts": []})
    terminals = {t.get("name"): {"prec": int(t.get("prec") or 0), "assoc": t.get("assoc") or ""} for t in g.find("terminals")}
    src = open(cpp).read()
    for m in re.finditer(r'  case (\d+): /\* (.*?)  \*/\n#line \d+ "[^"]*"\n(.*?)\n#line \d+ "[^"]*"\n    break;', src, re.S):
        n = int(m.group(1)) - 1          # `case N` is XML rule number + 1
        rules[n]["stmts"] = parse_body(m.group(3), n)
    states = []
    for st in root.find("automaton"):
        acts = st.find("actions")
        s = {"sh": {}, "go": {}, "rd": {}, "def": -1, "acc": False}
        for t in acts.find("transitions"):
            (s["sh"] if t.get("type") == "shift" else s["go"])[t.get("symbol")] = int(t.get("state"))
        for rd in acts.find("reductions"):
            if rd.get("enabled") != "true":
                continue
            if rd.get("rule") == "accept":
                s["acc"] = True
            elif rd.get("symbol") == "$default":
                s["def"] = int(rd.get("rule"))
            else:
                s["rd"][rd.get("symbol")] = int(rd.get("rule"))
        # bison consults the lookahead unless the state's only action is its default reduction (yypact_value_is_default)
        term_shifts = [k for k in s["sh"]]
        s["la"] = bool(term_shifts) or bool(s["rd"])
        states.append(s)
    entry = {}
    for r in rules:
        if r["lhs"] == "Uppaal":
            entry[r["rhs"][0]] = r["rhs"][1] if len(r["rhs"]) > 1 else ""
    out = {"states": states, "rules": rules, "tokens": sorted(terminals), "entry": entry, "prec": terminals}
    tmp = os.path.join(outdir, "lr_tables.json.new")
    with open(tmp, "w") as f:
        json.dump(out, f, separators=(",", ":"))
    final = os.path.join(outdir, "lr_tables.json")
    if os.path.exists(final) and open(final).read() == open(tmp).read():
        os.unlink(tmp)
    else:
        os.replace(tmp, final)
    for f in (xmlp, cpp, os.path.join(outdir, "parser_extract.hpp")):
        if os.path.exists(f):
            os.unlink(f)
    ncalls = sum(1 for r in rules for s in r["stmts"] if s["op"] == "call")
    print("lr_tables: %d states, %d rules, %d calls, %d tokens" % (len(states), len(rules), ncalls, len(terminals)))


main()
