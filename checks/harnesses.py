"""registry of harness executables: name -> (variants, extra link flags)"""
import vf
HARNESSES = {
    "lr_replay": (["plain", "asan"], None),
    "scan_run": (["plain", "asan"], None),
    "model_run": (["plain", "asan"], None),
    "replay_range": (["asan"], None),
    "record": (["plain", "asan"], None),
    "replay_cb": (["asan"], None),
    "replay_history": (["plain"], None),
    "replay_heap": (["asan"], None),
    "replay_frame": (["asan"], None),
}
def build_all():
    for name, (variants, extra) in HARNESSES.items():
        for v in variants:
            vf.build_harness(name, v, extra=extra)
