"""registry of harness executables: name -> (variants, extra link flags)"""
import vf
HARNESSES = {
    "replay_range": (["asan"], None),
}
def build_all():
    for name, (variants, extra) in HARNESSES.items():
        for v in variants:
            vf.build_harness(name, v, extra=extra)
