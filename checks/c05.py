"""C05 — XML and XTA renderings of the same model yield equivalent documents.
DocGen.tla generates the abstract models (the whole universe is expressible in both formats: branchpoints, probability
weights, `-u->`, `{inv ; rate}`, commit/urgent sections); each is rendered to .xml and to .xta, both parsed by the real
entry points, and the canonical dumps are compared: declarations, templates, locations, flags, edges, labels, processes,
instances, priorities, diagnostics (multiset of messages; positions are format specific) and supported-analysis verdict.
Also for rejected models: one semantic fault injected into the same label/declaration of both renderings."""
import json, os, random, re
import vf, docgen, xmlgen

POS_KEYS = {"sp", "ps", "pe", "path", "epath", "sl", "el", "sc", "ec", "so", "eo", "str", "known", "ctx"}


def strip_pos(x):
    if isinstance(x, dict):
        return {k: strip_pos(v) for k, v in x.items() if k not in POS_KEYS}
    if isinstance(x, list):
        return [strip_pos(v) for v in x]
    return x


def canon(doc):
    d = strip_pos(doc)
    d["errors"] = sorted(e["msg"] for e in d["errors"])
    d["warnings"] = sorted(e["msg"] for e in d["warnings"])
    d.pop("c08", None)
    return d


FAULTS = [  # (what, field, text) : the same ill-typed / ill-scoped text goes into both renderings
    ("type error in guard", "guard", "x + c"),
    ("undeclared identifier in guard", "guard", "nosuch > 0"),
    ("side effect in guard", "guard", "i++ > 0"),
    ("assignment to constant", "asg", "N = 1"),
    ("clock difference in invariant", "inv", "x - i < 3 || x > 2"),
    ("non-channel sync", "sync", "i!"),
]


def inject(m, fault, rnd):
    what, field, text = fault
    m = json.loads(json.dumps(m))
    if field == "inv":
        locs = [l for t in m["templs"] for l in t["locs"]]
        rnd.choice(locs)["inv"] = text
        return m
    edges = [e for t in m["templs"] for e in t["edges"] if not (field == "sync" and e["src"] in t["bps"])]
    if not edges:
        return None
    rnd.choice(edges)[field] = text
    return m


def run(tier):
    c = vf.Check("C05", tier)
    quick = tier == "quick"
    vf.build_lib("plain")
    models = docgen.generate(c, ["struct", "labels", "system", "mixed"], 1200 if quick else 12000, c.seed, bfs_budget=2 if quick else 3)
    rnd = random.Random(c.seed)
    models = [e for e in models if not e["m"].get("localids")]      # ids (and the warning about reused ones) exist in the XML format only
    cases = [("ok", e["m"], None) for e in models]
    pool = [e["m"] for e in models if any(t["edges"] for t in e["m"]["templs"])]
    for k in range(300 if quick else 3000):
        f = FAULTS[k % len(FAULTS)]
        mm = inject(rnd.choice(pool), f, rnd)
        if mm is not None:
            cases.append(("fault:" + f[0], mm, f))
    jobs = []
    for n, (kind, m, f) in enumerate(cases):
        # both formats offer alternative spellings of the same model: CDATA sections / escaped text, abbreviated / full edges
        jobs.append({"id": "x%d" % n, "entry": "xml_buffer", "text": xmlgen.render_xml(docgen.to_xmlgen(m), cdata=(n % 3 == 1))})
        jobs.append({"id": "t%d" % n, "entry": "xta", "text": docgen.render_xta(m, abbreviate=(n % 2 == 0))})
    res = vf.run_jobs(jobs, c.run_dir, variant="plain", name="c05")
    ncmp = nrej = 0
    for n, (kind, m, f) in enumerate(cases):
        rx, rt = res["x%d" % n], res["t%d" % n]
        rep = {"model": m, "xml": jobs[2 * n]["text"], "xta": jobs[2 * n + 1]["text"]}
        ox = (rx.get("outcome"), rx.get("main", {}).get("outcome"), rx.get("main", {}).get("exc"))
        ot = (rt.get("outcome"), rt.get("main", {}).get("outcome"), rt.get("main", {}).get("exc"))
        if ox != ot or ox[1] != "return":
            c.finding("c05:%s:outcome:%s/%s" % (kind, ox, ot), "the two renderings end differently: xml %s, xta %s" % (ox, ot), dict(rep, xml_result=rx.get("main"), xta_result=rt.get("main")))
            continue
        dx, dt = canon(rx["dump"]["doc"]), canon(rt["dump"]["doc"])
        if kind == "ok" and (dx["errors"] or dt["errors"]):
            # C04 decides acceptance of the XML rendering; here only agreement matters, but an XTA-only rejection is a difference
            pass
        ncmp += 1
        nrej += bool(dx["errors"])
        d = docgen.diff(dx, dt)
        if d:
            c.finding("c05:%s:%s" % (kind, docgen.diff_class(d[0])),
                      "documents differ at %s: xml %s, xta %s" % (d[0][0], json.dumps(d[0][1])[:200], json.dumps(d[0][2])[:200]), dict(rep, differences=d))
    c.cov["traces_validated_against_impl"] = ncmp
    c.cov["evaluations"] = 2 * ncmp
    c.cov["distinct_nontrivial"] = sum(1 for k, m, f in cases if any(t["edges"] for t in m["templs"]))
    c.cov.update({"models": len(models), "pairs_compared": ncmp, "rejected_pairs_compared": nrej})
    c.cov["rule"] = "models = distinct 'done' states of DocGen.tla (+ one injected semantic fault for a sample); every model rendered as .xml and .xta and both documents compared; non-trivial = has edges"
    c.sample({"model": models[len(models) // 3]["m"], "xta": docgen.render_xta(models[len(models) // 3]["m"])})
    c.assumptions += ["TLC 1.8.0", "renderers lib/docgen.py (XTA) and lib/xmlgen.py (XML) write the same abstract model", "positions are format specific and excluded"]
    return c.finish()


def replay(path):
    rec = json.load(open(path))["replay"]
    c = vf.Check("C05", "quick")
    res = vf.run_jobs([{"id": "x", "entry": "xml_buffer", "text": rec["xml"]}, {"id": "t", "entry": "xta", "text": rec["xta"]}], c.run_dir, variant="plain")
    print(json.dumps(docgen.diff(canon(res["x"]["dump"]["doc"]), canon(res["t"]["dump"]["doc"])), indent=1))
    return 1
