"""C05 — XML and XTA renderings of the same model yield equivalent documents.
DocGen.tla generates the abstract models (the whole universe is expressible in both formats: branchpoints, probability
weights, `-u->`, `{inv ; rate}`, commit/urgent sections); each is rendered to .xml and to .xta, both parsed by the real
entry points, and the canonical dumps are compared: declarations, templates, locations, flags, edges, labels, processes,
instances, priorities, diagnostics (multiset of messages; positions are format specific) and supported-analysis verdict.
Also for rejected models: one semantic fault injected into the same label/declaration of both renderings."""
import json, os, random, re
import vf, docgen, xmlgen

POS_KEYS = {"sp", "ps", "pe", "path", "epath", "sl", "el", "sc", "ec", "so", "eo", "str", "known", "ctx"}


def strip_pos(x):
    if isinstance(x, dict):
        return {k: strip_pos(v) for k, v in x.items() if k not in POS_KEYS}
    if isinstance(x, list):
        return [strip_pos(v) for v in x]
    return x


def canon(doc):
    d = strip_pos(doc)
    d["errors"] = sorted(e["msg"] for e in d["errors"])
    d["warnings"] = sorted(e["msg"] for e in d["warnings"])
    d.pop("c08", None)
    return d


FAULTS = [  # (what, field, text) : the same ill-typed / ill-scoped text goes into both renderings
    ("type error in guard", "guard", "x + c"),
    ("undeclared identifier in guard", "guard", "nosuch > 0"),
    ("side effect in guard", "guard", "i++ > 0"),
    ("assignment to constant", "asg", "N = 1"),
    ("clock difference in invariant", "inv", "x - i < 3 || x > 2"),
    ("non-channel sync", "sync", "i!"),
]


def inject(m, fault, rnd):
    what, field, text = fault
    m = json.loads(json.dumps(m))
    if field == "inv":
        locs = [l for t in m["templs"] for l in t["locs"]]
        rnd.choice(locs)["inv"] = text
        return m
    edges = [e for t in m["templs"] for e in t["edges"] if not (field == "sync" and e["src"] in t["bps"])]
    if not edges:
        return None
    rnd.choice(edges)[field] = text
    return m


TYPENAMES = {"id_t", "rec_t", "sys_t", "int8_t", "uint8_t", "int16_t", "uint16_t", "int32_t"}
NOT_GRAMMAR = {"add_position", "set_position", "is_type", "handle_warning"}       # callbacks the lexer / tracker make, not the grammar's actions


# the 3.x syntax is an input format too: a model written in it and its 4.x twin must give the same document (what differs by design:
# 4.x parses the built-in declarations first; 3.x parameters are references unless `const`)
SYNTAX_TWINS = [
    ("""const N 2, M2 3; int i; int j; int[0,3] r := 1; clock x; chan c; urgent chan u; broadcast chan b;
process P(int p, p2; const q, q2, q3; clock z; chan d) {
    int l := 0; const K 1;
    state A { x <= 5 }, B { x < 3, x <= 4 }, C;
    commit C; urgent B;
    init A;
    trans A -> B { guard i < 2, x >= 1; sync c!; assign i := 1, x := 0; },
          B -> C { guard i == 0; }, C -> A { sync d?; }, -> B { assign l := q + q2 + q3 + K; };
}
process R(const a) { state S; init S; }
Q := P(i, j, 1, 2, 3, x, c);
system Q, R;
""", """const int N = 2, M2 = 3; int i; int j; int[0,3] r = 1; clock x; chan c; urgent chan u; broadcast chan b;
process P(int &p, int &p2, const int q, const int q2, const int q3, clock &z, chan &d) {
    int l = 0; const int K = 1;
    state A { x <= 5 }, B { x < 3 && x <= 4 }, C;
    commit C; urgent B;
    init A;
    trans A -> B { guard i < 2 && x >= 1; sync c!; assign i = 1, x = 0; },
          B -> C { guard i == 0; }, C -> A { sync d?; }, -> B { assign l = q + q2 + q3 + K; };
}
process R(const int a) { state S; init S; }
Q = P(i, j, 1, 2, 3, x, c);
system Q, R;
"""),
    ("""int a[3]; int a2[2]; int b2[2][2]; const SZ 2; int v; clock x, y; chan cs[2]; broadcast chan bc;
process T(const k, m; int w[2]; chan e[2]; const n) {
    const L 3; int t[2] := {0, 1};
    state S0 { x <= L, y <= k + m + n }, S1;
    init S0;
    trans S0 -> S1 { guard a[0] < SZ, w[1] == t[0]; sync e[0]!; assign a[1] := k, v := m + n; },
          S1 -> S0 { sync bc?; assign w[0] := t[1], x := 0, y := 0; };
}
process U() { state Z; init Z; }
T1 := T(1, 2, a2, cs, 3);
system T1, U;
""", """int a[3]; int a2[2]; int b2[2][2]; const int SZ = 2; int v; clock x, y; chan cs[2]; broadcast chan bc;
process T(const int k, const int m, int &w[2], chan &e[2], const int n) {
    const int L = 3; int t[2] = {0, 1};
    state S0 { x <= L && y <= k + m + n }, S1;
    init S0;
    trans S0 -> S1 { guard a[0] < SZ && w[1] == t[0]; sync e[0]!; assign a[1] = k, v = m + n; },
          S1 -> S0 { sync bc?; assign w[0] = t[1], x = 0, y = 0; };
}
process U() { state Z; init Z; }
T1 = T(1, 2, a2, cs, 3);
system T1, U;
"""),
    # constant arrays with initialiser lists, a process without a parameter list, three-fold guard and invariant lists, transitions that
    # share their source over several continuation entries, constant array parameters, declarations after the first `const`
    ("""const A[2] {1, 2}, Z 0; int g; clock x, y, z; chan c; const B[2][2] {{1, 2}, {3, 4}};
process V { const K 2, K2[2] {5, 6}; int h := 1; clock w;
    state S0 { x <= 5, y <= 6, w <= K }, S1 { z <= A[1] }, S2, S3;
    commit S3; urgent S2;
    init S0;
    trans S0 -> S1 { guard g < 2, x >= 1, y >= A[0]; assign g := K2[1], x := 0, h := B[1][0]; },
          -> S2 { guard h == 1, g == 0, w > 1; sync c!; }, -> S3 { },
          S1 -> S0 { sync c?; assign w := 0; }, -> S3 { guard z >= 1; };
}
process W(const q[2], r; int s[2], t; const u) { int o := 3;
    state L0 { x <= q[0] + r + u }, L1;
    init L0;
    trans L0 -> L1 { guard s[0] == q[1], t < o; assign s[1] := u, t := r; };
}
int m[2]; int n;
W1 := W(A, 1, m, n, 2);
system V, W1;
""", """const int A[2] = {1, 2}, Z = 0; int g; clock x, y, z; chan c; const int B[2][2] = {{1, 2}, {3, 4}};
process V() { const int K = 2, K2[2] = {5, 6}; int h = 1; clock w;
    state S0 { x <= 5 && y <= 6 && w <= K }, S1 { z <= A[1] }, S2, S3;
    commit S3; urgent S2;
    init S0;
    trans S0 -> S1 { guard g < 2 && x >= 1 && y >= A[0]; assign g = K2[1], x = 0, h = B[1][0]; },
          -> S2 { guard h == 1 && g == 0 && w > 1; sync c!; }, -> S3 { },
          S1 -> S0 { sync c?; assign w = 0; }, -> S3 { guard z >= 1; };
}
process W(const int q[2], const int r, int &s[2], int &t, const int u) { int o = 3;
    state L0 { x <= q[0] + r + u }, L1;
    init L0;
    trans L0 -> L1 { guard s[0] == q[1] && t < o; assign s[1] = u, t = r; };
}
int m[2]; int n;
W1 = W(A, 1, m, n, 2);
system V, W1;
"""),
]


def _twin_xml(old):
    loc = lambda i, name, inv=None, **kw: dict({"id": "id%d" % i, "name": name}, **({"inv": inv} if inv else {}), **kw)
    if old:
        return {"decl": "const N 2; int i; int j; clock x; chan c; broadcast chan b;",
                "templates": [{"name": "T", "params": "int p; const q, q2; chan d", "decl": "int l := 0; const K 1;",
                               "locations": [loc(0, "A", "x <= 5, x < 7"), loc(1, "B", urgent=True), loc(2, "C", committed=True)], "init": "id0",
                               "edges": [{"src": "id0", "dst": "id1", "guard": "i < 2, x >= 1", "sync": "c!", "assign": "i := 1, l := q + q2 + K"},
                                         {"src": "id1", "dst": "id2", "guard": "p == N"}, {"src": "id2", "dst": "id0", "sync": "d?", "assign": "p := 0, x := 0"}]}],
                "system": "Q := T(j, 1, 2, c);\nsystem Q;"}
    return {"decl": "const int N = 2; int i; int j; clock x; chan c; broadcast chan b;",
            "templates": [{"name": "T", "params": "int &p, const int q, const int q2, chan &d", "decl": "int l = 0; const int K = 1;",
                           "locations": [loc(0, "A", "x <= 5 && x < 7"), loc(1, "B", urgent=True), loc(2, "C", committed=True)], "init": "id0",
                           "edges": [{"src": "id0", "dst": "id1", "guard": "i < 2 && x >= 1", "sync": "c!", "assign": "i = 1, l = q + q2 + K"},
                                     {"src": "id1", "dst": "id2", "guard": "p == N"}, {"src": "id2", "dst": "id0", "sync": "d?", "assign": "p = 0, x = 0"}]}],
            "system": "Q = T(j, 1, 2, c);\nsystem Q;"}


def syntax_twins(c):
    jobs = []
    for k, (old, new) in enumerate(SYNTAX_TWINS):
        jobs.append({"id": "o%d" % k, "entry": "xta", "text": old, "newxta": False})
        jobs.append({"id": "n%d" % k, "entry": "xta", "text": new})
    k = len(SYNTAX_TWINS)          # the same through the XML reader: labels, parameters and declarations in 3.x spelling with newxta = false
    xo, xn = xmlgen.render_xml(_twin_xml(True)), xmlgen.render_xml(_twin_xml(False))
    jobs.append({"id": "o%d" % k, "entry": "xml_buffer", "text": xo, "newxta": False})
    jobs.append({"id": "n%d" % k, "entry": "xml_buffer", "text": xn})
    pairs = list(SYNTAX_TWINS) + [(xo, xn)]
    res = vf.run_jobs(jobs, c.run_dir, variant="plain", name="twins")
    bv, bt = set(docgen.builtin_vars(c)), set(docgen.BUILTIN_TYPES)
    n = 0
    for k, (old, new) in enumerate(pairs):
        ro, rn = res["o%d" % k], res["n%d" % k]
        if ro.get("main", {}).get("outcome") != "return" or rn.get("main", {}).get("outcome") != "return":
            c.finding("c05:syntax-twin:outcome", "the 3.x and 4.x spellings of one model end differently: %s / %s" % (ro.get("main"), rn.get("main")), {"old": old, "new": new})
            continue
        do, dn = canon(ro["dump"]["doc"]), canon(rn["dump"]["doc"])
        g = dn["globals"]
        g["vars"] = [v for v in g["vars"] if v["name"] not in bv]
        g["typedefs"] = [v for v in g["typedefs"] if v["name"] not in bt]
        g["symbols"] = [s for s in g["symbols"] if s not in bv and s not in bt]
        n += 1
        d = docgen.diff(do, dn)
        if d:
            c.finding("c05:syntax-twin:%s" % docgen.diff_class(d[0]), "the 3.x and the 4.x spelling of one model give different documents at %s: 3.x %s, 4.x %s" % (d[0][0], json.dumps(d[0][1])[:160], json.dumps(d[0][2])[:160]),
                      {"old": old, "new": new, "differences": d})
    return n


def spec_level(c, models, quick, rnd):
    """MirrorXTA.tla: the .xta token string of a sample of models through LR.tla (extracted automaton) and Builder.tla must give
    Expected(M); the callbacks LR.tla emits are compared with those recorded from the real parser on the same text"""
    import xtalex
    gen = os.path.join(vf.lib_dir("plain"), "gen")
    sc = xtalex.Scanner(os.path.join(gen, "lexemes.json"))
    vf.build_harness("record", "plain")
    sample = list(models)
    rnd.shuffle(sample)
    nsmp = 250 if quick else 2500
    # half at random, half the structurally largest (edges, instances, features): where the grammar's list rules iterate
    big = sorted(sample[nsmp // 2:], key=lambda e: -(sum(len(t["edges"]) + len(t["locs"]) for t in e["m"]["templs"]) + 2 * len(e["m"]["insts"]) + len(e["m"]["gdecl"]) + len(e["m"].get("sysx", []))))
    sample = sorted(sample[:nsmp // 2] + big[:nsmp - nsmp // 2], key=lambda e: json.dumps(e["m"], sort_keys=True))
    docs, jobs = [], []
    for k, e in enumerate(sample):
        text = docgen.render_xta(e["m"], abbreviate=(k % 2 == 0))
        docs.append({"id": "s%d" % k, "toks": sc.scan(text, TYPENAMES), "exp": e["exp"]})
        if k % (5 if quick else 8) == 0:
            docs[-1].update(text=list(text), types=sorted(TYPENAMES))        # these are scanned by Lex.tla itself: characters -> tokens -> callbacks -> document, all at spec level
        jobs.append({"id": "s%d" % k, "entry": "xta", "text": text, "positions": True, "analysis": False, "walk": False, "timeout": 60})
    path = os.path.join(c.run_dir, "xtadocs.ndjson")
    vf.write_ndjson(path, docs)
    mc = vf.run_tlc("MirrorXTA", "XmlReader.cfg", c.run_dir, env={"LR_TABLES": os.path.join(gen, "lr_tables.json"), "XTA_DOCS": path, "LEX_RULES": os.path.join(gen, "lexer_rules.json"), "LEXEMES": os.path.join(gen, "lexemes.json")}, timeout=3000, xmx="16g", workers=1, keep_out=False)
    c.add_tlc("MirrorXTA", mc, "whole .xta files of %d models through the extracted automaton and the transcribed builder: Accepted, MirrorsM" % len(docs))
    out = {e["id"]: e for e in mc.emitted if "graphs" in e}
    if len(out) != len(docs):
        raise vf.MachineryError("MirrorXTA evaluated %d of %d documents" % (len(out), len(docs)))
    bad = [o["id"] for o in out.values() if not o["lexagree"]]
    if bad:
        raise vf.MachineryError("Lex.tla (the scanner over the rules extracted from lexer.l) and lib/xtalex.py make different token strings of the .xta text of %s" % bad[:3])
    c.cov["spec_level_xta_documents_scanned_by_Lex_tla"] = len([o for o in out.values() if o["scanned"]])
    res = vf.run_jobs(jobs, c.run_dir, variant="plain", harness="record", name="xtarec")
    ndrift = ncb = 0
    for d, j in zip(docs, jobs):
        o, r = out[d["id"]], res[d["id"]]
        if not (o["accepted"] and o["graphs"] and o["system"] and o["docinv"]):
            ndrift += 1
            if ndrift <= 5:
                print("DRIFT property=C05 MirrorXTA.tla: the specifications do not yield Expected(M) for %s: %s" % (d["id"], json.dumps({k: o[k] for k in o if k not in ("cbs", "id")})[:300]))
                open(os.path.join(c.run_dir, "mirrorxta-%s.xta" % d["id"]), "w").write(j["text"])
        evs = r.get("events", [])
        starts = [i for i, ev in enumerate(evs) if ev["cb"] == "add_position" and ev["a"][1] == 0 and ev["a"][2] == 1]
        if len(starts) < 2:
            raise vf.MachineryError("recorded trace of %s has no second text block: %s" % (d["id"], json.dumps(r)[:300]))
        real = [ev["cb"] for ev in evs[starts[1]:] if ev["cb"] not in NOT_GRAMMAR and "d" not in ev]        # d: a callback the builder made on itself
        spec = [x for x in o["cbs"] if x not in NOT_GRAMMAR]
        ncb += len(real)
        if real != spec:
            k = next((i for i, (a, b) in enumerate(zip(real, spec)) if a != b), min(len(real), len(spec)))
            raise vf.MachineryError("LR.tla and the real parser disagree on the .xta text of %s at callback %d: real %s, spec %s (scanner lib/xtalex.py or the extracted tables are stale)" % (
                d["id"], k, real[k:k + 3], spec[k:k + 3]))
    c.cov["spec_level_xta_documents"] = len(docs)
    c.cov["spec_level_xta_callbacks_agreeing_with_real_parser"] = ncb
    c.cov["spec_level_xta_not_mirroring"] = ndrift
    return len(docs)


def run(tier):
    c = vf.Check("C05", tier)
    quick = tier == "quick"
    vf.build_lib("plain")
    models = docgen.generate(c, ["struct", "labels", "system", "mixed"], 1200 if quick else 12000, c.seed, bfs_budget=2 if quick else 3)
    rnd = random.Random(c.seed)
    models = [e for e in models if not e["m"].get("localids")]      # ids (and the warning about reused ones) exist in the XML format only
    cases = [("ok", e["m"], None) for e in models]
    pool = [e["m"] for e in models if any(t["edges"] for t in e["m"]["templs"])]
    for k in range(300 if quick else 3000):
        f = FAULTS[k % len(FAULTS)]
        mm = inject(rnd.choice(pool), f, rnd)
        if mm is not None:
            cases.append(("fault:" + f[0], mm, f))
    jobs = []
    for n, (kind, m, f) in enumerate(cases):
        # both formats offer alternative spellings of the same model: CDATA sections / escaped text, abbreviated / full edges
        jobs.append({"id": "x%d" % n, "entry": "xml_buffer", "text": xmlgen.render_xml(docgen.to_xmlgen(m), cdata=(n % 3 == 1))})
        jobs.append({"id": "t%d" % n, "entry": "xta", "text": docgen.render_xta(m, abbreviate=(n % 2 == 0))})
    res = vf.run_jobs(jobs, c.run_dir, variant="plain", name="c05")
    ncmp = nrej = 0
    for n, (kind, m, f) in enumerate(cases):
        rx, rt = res["x%d" % n], res["t%d" % n]
        rep = {"model": m, "xml": jobs[2 * n]["text"], "xta": jobs[2 * n + 1]["text"]}
        ox = (rx.get("outcome"), rx.get("main", {}).get("outcome"), rx.get("main", {}).get("exc"))
        ot = (rt.get("outcome"), rt.get("main", {}).get("outcome"), rt.get("main", {}).get("exc"))
        if ox != ot or ox[1] != "return":
            c.finding("c05:%s:outcome:%s/%s" % (kind, ox, ot), "the two renderings end differently: xml %s, xta %s" % (ox, ot), dict(rep, xml_result=rx.get("main"), xta_result=rt.get("main")))
            continue
        dx, dt = canon(rx["dump"]["doc"]), canon(rt["dump"]["doc"])
        if kind == "ok" and (dx["errors"] or dt["errors"]):
            # C04 decides acceptance of the XML rendering; here only agreement matters, but an XTA-only rejection is a difference
            pass
        ncmp += 1
        nrej += bool(dx["errors"])
        d = docgen.diff(dx, dt)
        if d:
            c.finding("c05:%s:%s" % (kind, docgen.diff_class(d[0])),
                      "documents differ at %s: xml %s, xta %s" % (d[0][0], json.dumps(d[0][1])[:200], json.dumps(d[0][2])[:200]), dict(rep, differences=d))
    nspec = spec_level(c, models, quick, rnd) + syntax_twins(c)
    c.cov["traces_validated_against_impl"] = ncmp + nspec
    c.cov["evaluations"] = 2 * ncmp + nspec
    c.cov["distinct_nontrivial"] = sum(1 for k, m, f in cases if any(t["edges"] for t in m["templs"]))
    c.cov.update({"models": len(models), "pairs_compared": ncmp, "rejected_pairs_compared": nrej})
    c.cov["rule"] = "models = distinct 'done' states of DocGen.tla (+ one injected semantic fault for a sample); every model rendered as .xml and .xta and both documents compared; non-trivial = has edges"
    c.sample({"model": models[len(models) // 3]["m"], "xta": docgen.render_xta(models[len(models) // 3]["m"])})
    c.assumptions += ["TLC 1.8.0", "renderers lib/docgen.py (XTA) and lib/xmlgen.py (XML) write the same abstract model", "positions are format specific and excluded"]
    return c.finish()


def replay(path):
    rec = json.load(open(path))["replay"]
    c = vf.Check("C05", "quick")
    res = vf.run_jobs([{"id": "x", "entry": "xml_buffer", "text": rec["xml"]}, {"id": "t", "entry": "xta", "text": rec["xta"]}], c.run_dir, variant="plain")
    print(json.dumps(docgen.diff(canon(res["x"]["dump"]["doc"]), canon(res["t"]["dump"]["doc"])), indent=1))
    return 1
