"""Single source for MANIFEST.json: run `bin/manifest` after editing."""
CHECKS = {
 "C18": dict(
    category="model_checking", design_ref="DESIGN.md section 5 (C18), 2.7",
    technique="TLA+ state machine Range.tla (set semantics vs header formulas) model-checked by TLC; every transition of the exported state graph replayed on the real range_t<T>",
    text="TLC proves Members(lo,hi)=r for the header's formulas on all behaviours within bounds; each TLC transition is then executed on the real template at the ends of int8/int16/int32 and on double (ulp/infinity embeddings) under ASan/UBSan, so a changed formula in range.h disagrees with the spec's set and is reported.",
    note="Trusts TLC and the order/adjacency-preserving embeddings in harness/replay_range.cpp; operands bounded to -4..4 (quick) / -6..6 (thorough), results overflowing T excluded as the statement says."),
}
NOT_APPLICABLE = {}
PENDING_REASON = "check not built yet (work in progress; see DESIGN.md section 5 for the plan)"
HOOK_COMMITS = []
