"""Single source for MANIFEST.json: run `bin/manifest` after editing."""
CHECKS = {
 "C18": dict(
    category="model_checking", design_ref="DESIGN.md section 5 (C18), 2.7",
    technique="TLA+ state machine Range.tla (set semantics vs header formulas) model-checked by TLC; every transition of the exported state graph replayed on the real range_t<T>",
    text="TLC proves Members(lo,hi)=r for the header's formulas on all behaviours within bounds; each TLC transition is then executed on the real template at the ends of int8/int16/int32 and on double (ulp/infinity embeddings) under ASan/UBSan, so a changed formula in range.h disagrees with the spec's set and is reported.",
    note="Trusts TLC and the order/adjacency-preserving embeddings in harness/replay_range.cpp; operands bounded to -4..4 (quick) / -6..6 (thorough), results overflowing T excluded as the statement says."),
 "C10": dict(
    category="model_checking", design_ref="DESIGN.md section 5 (C10), 2.6",
    technique="TLA+ module TypeClass.tla: abstract formula-building stack machine (TLC fixpoint, all depths) + exhaustive concrete trees to depth 2 replayed as guards and invariants through the real type checker",
    text="TLC checks accepted=>convex and conjunction completeness on the transcription of typechecker.cpp's rules over an abstract domain that covers formulas of every depth; every tree to depth 2 is rendered into a model and the real verdict is compared with the property's Convex predicate (violation) and with the transcription (drift note).",
    note="Trusts TLC, the Convex definition written from the statement, and the python renderer; replay bound depth 2 (75k trees x 2 roles quick, 620k x 2 thorough); deeper formulas only through the abstract machine."),
 "C14": dict(
    category="model_checking", design_ref="DESIGN.md section 5 (C14), 2.6",
    technique="TLA+ module SymTyping.tla (transcribed typing rules over an operand-type universe; Sym evaluated by TLC on all ordered pairs); every case replayed in both operand orders through TypeChecker::checkExpression",
    text="TLC evaluates Rule(op,a,b)=Rule(op,b,a) for 11 commutative operators, inline-if and reference-parameter compatibility over 17 operand type classes and exports all cases; the real checker's acceptance and result kind are compared between the two operand orders (the property) and with the transcription (drift note).",
    note="Function-shaped module: TLC's role is exhaustive evaluation over the finite universe, not state exploration (states = exported cases). Trusts the scaffold declarations in checks/c14.py; const-int parameters have no default range (documented drift)."),
 "C11": dict(
    category="model_checking", design_ref="DESIGN.md section 5 (C11), 2.6",
    technique="TLA+ state machine Effects.tla (function families declared in order; least-fixpoint may-write semantics vs transcribed changes-summary) checked by TLC; every family rendered and called from 16 side-effect-free contexts in the real type checker",
    text="TLC checks MayWrite=>Rejects after every declaration step for all families (write target x lvalue shape x write form x statement form x wrapper chain x argument mode) and exports them; libutap must reject every context whose semantics says it can write and accept the write-free twin.",
    note="Trusts TLC, the may-write semantics in Effects.tla, the python renderer; wrapper chains to depth 2; twin = write removed and reference parameters by value (libutap is deliberately conservative for reference arguments)."),
 "C12": dict(
    category="model_checking", design_ref="DESIGN.md section 5 (C12), 2.6",
    technique="TLA+ module Constness.tla (type terms, lvalue terms, transcribed is_mutable/isModifiableLValue vs semantic ConstTarget) evaluated by TLC on the whole universe; each case rendered in every scope that can name it and type-checked by libutap",
    text="TLC checks ConstTarget=>~modifiable and twin acceptance for 24 declared sources x access paths x 16 write forms (+conditional/comma lvalues, reference arguments to functions and template instantiations) and exports the cases; libutap must reject every write whose target is const or a binder and accept the mutable twin.",
    note="Function-shaped module (states = exported cases). Trusts the rendering in checks/c12.py and that the type terms mirror the builder's composition (observed via the canonical dump)."),
 "C13": dict(
    category="model_checking", design_ref="DESIGN.md section 5 (C13), 2.6",
    technique="TLA+ state machine Computable.tla (dependence chains declared link by link; semantic computability vs transcribed depends/compileTimeComputableValues) checked by TLC; every chain rendered into 14 compile-time contexts plus template-parameter instantiation chains and checked by libutap",
    text="TLC checks Sound (not computable => rejected) and Complete (computable => accepted) after every declaration step for all chains of length<=3 (quick) / 4 (thorough) and exports them; libutap's verdict on each rendered model must equal the semantic computability; free/bound process parameters through partial instantiations are covered by 24 instantiation chains.",
    note="Trusts TLC, the semantics in Computable.tla and the python renderer; function-local consts and external functions are outside the universe."),
 "C17": dict(
    category="model_checking", design_ref="DESIGN.md section 5 (C17), 2.6",
    technique="TLA+ module Features.tla (one restricting-feature placement per model; Sem from the statement vs Impl transcribing FeatureChecker) evaluated by TLC on the whole universe; every model rendered, parsed and get_supported_methods() compared with Sem",
    text="TLC evaluates Impl=>Sem for 1114 placements (fp comparison: role x operator x operand order x position; fp assignment; clock initialiser; rate incl. fp rate; channel kind x scope x shape; dynamic templates; priorities) x 5 instantiation modes and exports them; libutap must not report a method the semantics forbids, in either declaration order.",
    note="Function-shaped module (states = exported placements). One feature per model; non-constant rates count as permitted (pinned by the repository's own test)."),
 "C02": dict(
    category="model_checking", design_ref="DESIGN.md section 5 (C02), 2.1, 2.2",
    technique="TLA+: Lang.tla (operator table, trees, minimal/full rendering, RPN) composed with LR.tla, the bison automaton extracted from the working tree's parser.y; TLC checks Parse(Render(t)).out = RPN(t) on all trees; the same strings replayed through the real lexer/parser (callback sequence = RPN(t)) and ExpressionBuilder (tree = t)",
    text="Every operator at every operand position of every operator (5830 trees quick, +38k depth-3 thorough) is rendered with minimal and full parentheses; TLC runs the extracted LALR tables on the token strings and compares the emitted callbacks with RPN(t); the real parser must emit the same callbacks, build the same tree, also when embedded in guards/updates/invariants/initialisers/statements/queries; integer and floating literal boundaries are checked on the real lexer.",
    note="Trusts TLC, bison's XML report (cross-checked by replay), the operator table in Lang.tla (from the language documentation), python float() for decimal->binary64. Known finding: `x ? y : z = b` (inline-if rule carries %prec T_ASSIGNMENT)."),
 "C03": dict(
    category="model_checking", design_ref="DESIGN.md section 5 (C03), 2.1",
    technique="TLA+: Printer.tla (transcription of expression_t::print/get_precedence on Lang trees) composed with LR.tla: TLC checks Parse(StrT(Canon(t))) = Canon(t) on the extracted grammar; Queries.tla enumerates the query forms; every accepted tree/query is printed, re-parsed and compared in the real library",
    text="For 25k typed expression trees (entered minimally and fully parenthesised) and 270 query forms (A[] E<> A<> E[] -->, A[U]/A[W], sup/inf/bounds, Pr quantitative/qualitative/compare/until with time/step/clock bounds and run counts, E[..], simulate x3, control forms, minE/maxE/minPr/maxPr with features and `under`, load/saveStrategy, MITL) the library's own str() output is re-parsed in the same scope; canonical trees (incl. double bit patterns) and the second print must be identical and str() must not throw. The spec-level check says which side (printer or grammar) is wrong.",
    note="Scope = inputs the library accepts without diagnostics in the scaffold. Binder symbols are compared by name (expression_t::equal is by identity). Known findings: MITL query forms print in an internal notation."),
}
CHECKS.update({
 "C04": dict(
    category="model_checking", design_ref="DESIGN.md section 5 (C04), 2.4",
    technique="TLA+ state machine DocGen.tla (an author writing a model element by element; every 'done' state is a model M with its mirror Expected(M) from the statement); TLC enumerates the small universe exhaustively and samples the large one by random walks; every M rendered to XML, parsed, and the canonical document dump compared field by field with Expected(M)",
    text="TLC generates abstract models (templates with value/reference/bounded parameters, local declarations, named/anonymous locations with invariant/rate/urgent/committed, branchpoints, init, edges incl. self loops, parallel edges and branchpoint edges with every label kind incl. shadowing selects, full/partial/chained/zero-argument instantiations, system lines with ',' and '<') and the mirror document the statement prescribes; libutap's document after parse_XML_buffer / parse_XML_file must equal the mirror: order, nothing added/dropped/duplicated/re-attached, endpoints via ids, argument i bound to parameter i.",
    note="Trusts TLC, the renderer (lib/docgen.py, lib/xmlgen.py) and the canonical dump (harness/dump.hpp). Labels are compared as printed text (pool texts are in the printer's canonical spelling); an accepted invariant is stored as `1 && (inv)` by the type checker, which is compared as inv."),
 "C20": dict(
    category="model_checking", design_ref="DESIGN.md section 5 (C20), 2.7",
    technique="TLA+ module XmlWriter.tla (EXTENDS DocGen): ExpXml(M) from the statement vs Written(M), a transcription of XMLWriter's procedures; TLC checks Written = ExpXml on the DocGen universe; every model parsed, written by write_XML_file under ASan/UBSan, read back with an independent XML parser (python expat) and compared with ExpXml(M)",
    text="For every generated accepted model (incl. self loops, parallel edges, edges through branchpoints, XML-special characters in labels, trivially true guards, several templates reusing location names) the written file must be well-formed and hold, per template, one location element per location with an id unique in the template, name, invariant/rate labels, urgent/committed, exactly one init reference, one transition per edge in order with resolving source/target references, the controllable attribute and the five label kinds; writing must not crash (sanitizer build).",
    note="Trusts TLC, python's xml.etree (expat) as the independent parser, the renderer. Select binder types are compared as text modulo blanks/implicit const; one redundant outer pair of parentheses around an invariant is not a difference. The <system> text is only required not to crash the writer."),
 "C05": dict(
    category="model_checking", design_ref="DESIGN.md section 5 (C05)",
    technique="TLA+ state machine DocGen.tla generates the abstract models (exhaustive small universe + random walks); every model is rendered both as .xml and as .xta, both parsed by libutap and the canonical dumps compared (metamorphic replay of TLC-generated models); rejected models by injecting one semantic fault into the same label of both renderings",
    text="For every generated model (branchpoints, probability weights, uncontrollable edges, {inv ; rate}, commit/urgent, shadowing selects, partial/chained instantiations, priorities) the documents built from the XML and from the XTA rendering must have the same declarations, templates, locations, flags, edges, labels, instances, processes, multiset of diagnostics and supported-analysis verdict; also for models rejected because of an injected type/scope/side-effect fault.",
    note="Trusts TLC, the two renderers (lib/docgen.py render_xta, lib/xmlgen.py) and the canonical dump; positions are format specific and excluded. The XTA grammar path is otherwise unexercised by the repository's tests."),
 "C08": dict(
    category="model_checking", design_ref="DESIGN.md section 5 (C08), 2.4",
    technique="TLA+ Builder.tla (structural ParserBuilder callbacks of DocumentBuilder/Document with their error paths; DocInv = the property) model-checked by TLC over ALL callback sequences up to a bound (BuilderMC.tla); conformance both ways: every distinct spec state's history replayed into the real DocumentBuilder (projection must be equal), and callback traces recorded from real parses validated by TLC against Builder!Apply (BuilderTrace.tla); the statement's relations are evaluated by a walker over every object reachable from every document produced",
    text="TLC proves DocInv (back pointers by construction, one source/one target in the edge's own template, dense numbering, unbound-first, arity = unbound, mapping = bound parameters, init among own locations) on every state reachable by structural callback sequences incl. duplicates, unresolved names, kind clashes and arity mismatches; the real builder must reach the same states; every document produced by any parse of the check (valid models as XML and XTA, 15 kinds of structural faults, parses ending in exceptions, the repository's models) is walked object by object.",
    note="Trusts TLC, harness/proj.hpp (projection) and the walker in harness/dump.hpp. Expression-level callbacks are abstracted to fragment counts. A spec/implementation disagreement without an observed property violation is printed as DRIFT and recorded in the evidence, not reported as a violation."),
})
NOT_APPLICABLE = {}
PENDING_REASON = "check not built yet (work in progress; see DESIGN.md section 5 for the plan)"
HOOK_COMMITS = []
