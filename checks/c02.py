"""C02 — parsed expression trees follow the language's precedence and associativity.
Lang.tla (operator table, trees, minimal/full rendering, RPN) x LR.tla (bison automaton from the working tree's
parser.y): TLC checks Parse(Render(t)).out = RPN(t) for every tree of the universe (B1); the same token strings are
rendered to text and parsed by the real lexer+parser: (i) the callback sequence must equal RPN(t), (ii) the tree built
by ExpressionBuilder must equal t, (iii) also embedded in guards, updates, invariants, initialisers, statements and
queries; literal boundary values are checked against LitOK."""
import json, os, re, struct
import vf, lrconf
from xmlgen import render_xml

SCAFFOLD_DECL = """typedef struct { int fld; int g; } S;
S a, x;
int b, c, y, z, p, q;
int f(int u, int w) { return u; }
int h(int u, int w) { return u; }
clock ck;
"""
BINK = {"T_POWOP": "POW", "T_MULT": "MULT", "T_DIV": "DIV", "T_MOD": "MOD", "T_PLUS": "PLUS", "T_MINUS": "MINUS", "T_LSHIFT": "BIT_LSHIFT",
        "T_RSHIFT": "BIT_RSHIFT", "T_MIN": "MIN", "T_MAX": "MAX", "T_LT": "LT", "T_LEQ": "LE", "T_GEQ": "GE", "T_GT": "GT", "T_EQ": "EQ",
        "T_NEQ": "NEQ", "AMP": "BIT_AND", "T_XOR": "BIT_XOR", "T_OR": "BIT_OR", "T_BOOL_AND": "AND", "T_KW_AND": "AND", "T_BOOL_OR": "OR",
        "T_KW_OR": "OR", "T_KW_XOR": "XOR"}
ASGK = {"T_ASSIGNMENT": "ASSIGN", "T_ASSPLUS": "ASS_PLUS", "T_ASSMINUS": "ASS_MINUS", "T_ASSMULT": "ASS_MULT", "T_ASSDIV": "ASS_DIV",
        "T_ASSMOD": "ASS_MOD", "T_ASSOR": "ASS_OR", "T_ASSAND": "ASS_AND", "T_ASSXOR": "ASS_XOR", "T_ASSLSHIFT": "ASS_LSHIFT", "T_ASSRSHIFT": "ASS_RSHIFT"}
BF = {"T_ABS": "ABS_F", "T_FABS": "FABS_F", "T_SQRT": "SQRT_F", "T_ISNAN": "IS_NAN_F", "T_FMAX": "FMAX_F", "T_POW": "POW_F", "T_ATAN2": "ATAN2_F"}
FIELDS = {"fld": 0, "g": 1}


def dbits(x):
    return "%016x" % struct.unpack("<Q", struct.pack("<d", x))[0]


def expected(t):
    """Lang tree -> canonical kind tree as harness/dump.hpp prints it (k, c, v/d/sym/i)"""
    k = t[0]
    if k == "id":
        return {"k": "IDENTIFIER", "sym": t[1]}
    if k == "nat":
        return {"k": "CONSTANT", "v": t[1]}
    if k in ("true", "false"):
        return {"k": "CONSTANT", "v": 1 if k == "true" else 0, "b": True}
    if k == "dbl":
        return {"k": "CONSTANT", "d": dbits(float(t[1]))}
    if k == "bin":
        if t[1] == "T_KW_IMPLY":
            return {"k": "OR", "c": [{"k": "NOT", "c": [expected(t[2])]}, expected(t[3])]}
        return {"k": BINK[t[1]], "c": [expected(t[2]), expected(t[3])]}
    if k == "pre":
        if t[1] == "T_PLUS":
            return expected(t[2])                      # unary plus is the identity
        kk = {"T_MINUS": "UNARY_MINUS", "T_EXCLAM": "NOT", "T_KW_NOT": "NOT", "T_INCREMENT": "PRE_INCREMENT", "T_DECREMENT": "PRE_DECREMENT"}[t[1]]
        return {"k": kk, "c": [expected(t[2])]}
    if k == "post":
        kk = {"T_INCREMENT": "POST_INCREMENT", "T_DECREMENT": "POST_DECREMENT", "RATE": "RATE"}[t[1]]
        return {"k": kk, "c": [expected(t[2])]}
    if k == "idx":
        return {"k": "ARRAY", "c": [expected(t[1]), expected(t[2])]}
    if k == "dot":
        return {"k": "DOT", "i": FIELDS[t[2]], "c": [expected(t[1])]}
    if k == "call":
        return {"k": "FUN_CALL", "c": [expected(t[1])] + [expected(a) for a in t[2]]}
    if k == "bf1":
        return {"k": BF[t[1]], "c": [expected(t[2])]}
    if k == "bf2":
        return {"k": BF[t[1]], "c": [expected(t[2]), expected(t[3])]}
    if k == "ite":
        return {"k": "INLINE_IF", "c": [expected(t[1]), expected(t[2]), expected(t[3])]}
    if k == "asg":
        return {"k": ASGK[t[1]], "c": [expected(t[2]), expected(t[3])]}
    if k == "quant":
        return {"k": {"T_FORALL": "FORALL", "T_EXISTS": "EXISTS", "T_SUM": "SUM"}[t[1]], "c": [{"k": "IDENTIFIER", "sym": t[2]}, expected(t[3])]}
    raise ValueError(t)


def strip(d):
    """dumped tree -> comparable (drop types, symbol positions)"""
    if d is None:
        return None
    o = {"k": d["k"]}
    for f in ("v", "d", "sym", "i", "b"):
        if f in d:
            o[f] = d[f]
    if "c" in d:
        o["c"] = [strip(x) for x in d["c"]]
    return o


def sig(t):
    """shape signature: top constructor and the non-atomic operand positions with their constructors"""
    def head(x):
        return x[0] + (":" + x[1] if x[0] in ("bin", "pre", "post", "asg", "quant", "bf1", "bf2") else "")
    parts = []
    for i, ch in enumerate(t[1:]):
        if isinstance(ch, list) and ch and isinstance(ch[0], str) and ch[0] in ("bin", "pre", "post", "idx", "dot", "call", "bf1", "bf2", "ite", "asg", "quant"):
            parts.append("%d=%s" % (i, head(ch)))
    return head(t) + ("[" + ",".join(parts) + "]" if parts else "")


def generic_sig(t):
    """coarser signature used as known-finding key: operator CLASSES instead of individual operators"""
    def cls(x):
        return {"bin": "bin", "pre": "pre", "post": "post", "asg": "asg", "quant": "quant"}.get(x[0], x[0])
    parts = []
    for i, ch in enumerate(t[1:]):
        if isinstance(ch, list) and ch and isinstance(ch[0], str) and ch[0] in ("bin", "pre", "post", "idx", "dot", "call", "bf1", "bf2", "ite", "asg", "quant"):
            parts.append("%d=%s" % (i, cls(ch)))
    return cls(t) + "[" + ",".join(parts) + "]"


LITERALS = [  # (text, ok, exact value or None) -- LitOK: representable in int32 (2147483648 only directly under unary minus)
    ("0", True, 0), ("00012", True, 12), ("2147483647", True, 2147483647), ("2147483648", False, None), ("-2147483648", True, -2147483648),
    ("2147483649", False, None), ("4294967296", False, None), ("4294967297", False, None), ("18446744073709551616", False, None),
    ("18446744073709551658", False, None), ("99999999999999999999", False, None), ("000000000000000000001", True, 1),
    ("- 2147483647", True, None)]
FLOATS = ["0.1", "1e308", "1.7976931348623157e308", "4.9e-324", "2.2250738585072014e-308", "0.30000000000000004", "1.5", "3.0e0", "12.5E-1",
          "123456789.123456789", "5e+2", "9007199254740993", "0.1e1"]


def run(tier):
    c = vf.Check("C02", tier)
    quick = tier == "quick"
    vf.build_lib("plain")
    gen = os.path.join(vf.lib_dir("plain"), "gen")
    lx = lrconf.Lexemes(os.path.join(gen, "lexemes.json"))
    mc = vf.run_tlc("LangLR", "LangLR.cfg", c.run_dir, env={"LR_TABLES": os.path.join(gen, "lr_tables.json"), "LANG_UNIVERSE": "2" if quick else "3"},
                    timeout=3400, xmx="16g")
    c.add_tlc("LangLR", mc, "Parse(RenderMin/Full(t)).out = RPN(t) on the extracted tables of the working tree's parser.y")
    univ = mc.emitted
    if len(univ) < 100:
        raise vf.MachineryError("LangLR produced only %d trees" % len(univ))
    # ---- replay: callback sequences
    jobs = []
    for n, e in enumerate(univ):
        jobs.append({"id": "m%d" % n, "text": lx.render(e["min"]), "part": "S_EXPRESSION"})
        jobs.append({"id": "f%d" % n, "text": lx.render(e["full"]), "part": "S_EXPRESSION"})
    res = vf.run_jobs(jobs, c.run_dir, variant="plain", harness="lr_replay", name="cb")
    n_cb = 0
    spec_bad = 0
    for n, e in enumerate(univ):
        want = lrconf.norm_spec_events(e["rpn"])
        for tag, txt_toks, okflag, specout in (("min", e["min"], e["minok"], e["minout"]), ("full", e["full"], e["fullok"], e["fullout"])):
            r = res["%s%d" % (tag[0], n)]
            text = lx.render(txt_toks)
            if r.get("outcome") != "return":
                c.finding("c02:crash:%s" % sig(e["t"]), "parser did not return on `%s`: %s" % (text, r.get("outcome")), {"text": text, "result": r})
                continue
            got = lrconf.norm_real_events(r["events"])
            ok, why = lrconf.events_equal(want, got)
            n_cb += 1
            if not okflag:
                spec_bad += 1
            if not ok or r["ret"] != 0:
                c.finding("c02:%s:%s" % (tag, generic_sig(e["t"])),
                          "`%s` (%s parentheses of %s) is not parsed as that tree: %s" % (text, "minimal" if tag == "min" else "full", sig(e["t"]), why or "rejected"),
                          {"kind": "callbacks", "text": text, "tree": e["t"], "expected_callbacks": want, "got_callbacks": got})
            if ok != okflag:
                # LR.tla (from the extracted tables) and the real parser disagree: the automaton model or the extraction is wrong
                raise vf.MachineryError("LR.tla and the real parser disagree on `%s` (spec ok=%s, real ok=%s: %s)" % (text, okflag, ok, why))
    # ---- replay: trees built by ExpressionBuilder, in a scaffold that declares the identifiers
    scaffold = render_xml({"decl": SCAFFOLD_DECL, "templates": [{"name": "T", "locations": [{"id": "id0"}], "init": "id0"}], "system": "system T;"})
    exprs, meta = [], []
    for n, e in enumerate(univ):
        for tag in ("min", "full"):
            exprs.append({"text": lx.render(e[tag]), "part": "S_EXPRESSION"}); meta.append((n, tag))
    per = 500
    jobs = [{"id": "t%d" % (k // per), "entry": "xml_buffer", "text": scaffold, "exprs": exprs[k:k + per], "structure": False} for k in range(0, len(exprs), per)]
    res2 = vf.run_jobs(jobs, c.run_dir, variant="plain", name="tree")
    n_tree = n_tree_skipped = 0
    for k in range(0, len(exprs), per):
        r = res2["t%d" % (k // per)]
        if r.get("main", {}).get("outcome") != "return" or "exprs" not in r:
            raise vf.MachineryError("scaffold failed: %s" % json.dumps(r)[:800])
        for j, er in enumerate(r["exprs"]):
            n, tag = meta[k + j]
            e = univ[n]
            if er.get("outcome") != "return" or er["errors"] or er.get("nfrag") != 1:
                n_tree_skipped += 1        # ill-typed for the builder (e.g. call of a non-function): only the callback sequence is compared
                continue
            if not (e["minok"] if tag == "min" else e["fullok"]):
                continue
            n_tree += 1
            got = strip(er["trees"][0]["t"])
            want = expected(e["t"])
            if got != want:
                c.finding("c02:tree:%s" % generic_sig(e["t"]), "ExpressionBuilder built a different tree for `%s`" % exprs[k + j]["text"],
                          {"kind": "tree", "text": exprs[k + j]["text"], "tree": e["t"], "expected": want, "got": got, "decl": SCAFFOLD_DECL})
    # ---- embedding in the other syntactic contexts (same Expression nonterminal; precedence must not depend on the context)
    ctx_jobs = []
    sample = [e for e in univ if e["minok"]][:: (7 if quick else 2)]
    for n, e in enumerate(sample):
        txt = lx.render(e["min"])
        for ctx, part, wrap in (("guard", "S_GUARD", "%s"), ("invariant", "S_INVARIANT", "%s"), ("update", "S_ASSIGN", "%s"),
                                ("initialiser", "S_DECLARATION", "int vv = %s;"), ("statement", "S_DECLARATION", "void ff() { %s; }"),
                                ("return", "S_DECLARATION", "int ff() { return %s; }"), ("query", "property", "E<> %s"), ("probability", "S_PROBABILITY", "%s")):
            ctx_jobs.append({"id": "x%d_%s" % (n, ctx), "text": wrap % txt, "part": part, "n": n, "ctx": ctx})
    res3 = vf.run_jobs(ctx_jobs, c.run_dir, variant="plain", harness="lr_replay", name="ctx")
    n_ctx = 0
    for j in ctx_jobs:
        r = res3[j["id"]]
        e = sample[j["n"]]
        if r.get("outcome") != "return":
            continue
        got = [x for x in lrconf.norm_real_events(r["events"])]
        want = lrconf.norm_spec_events(e["rpn"])
        # the expression's callbacks must appear as a contiguous block inside the context's callbacks
        names_g = [g for g in got]
        ok = any(lrconf.events_equal(want, names_g[i:i + len(want)])[0] for i in range(0, len(names_g) - len(want) + 1))
        n_ctx += 1
        if not ok and e["t"][0] != "asg" and not (j["ctx"] == "query"):
            c.finding("c02:ctx:%s:%s" % (j["ctx"], generic_sig(e["t"])), "in a %s `%s` is not parsed as the same tree" % (j["ctx"], j["text"]),
                      {"kind": "context", "text": j["text"], "part": j["part"], "tree": e["t"], "expected_block": want, "got": got})
    # ---- literals
    lit_exprs = [{"text": t, "part": "S_EXPRESSION"} for t, _, _ in LITERALS] + [{"text": t, "part": "S_EXPRESSION"} for t in FLOATS]
    rl = vf.run_jobs([{"id": "lit", "entry": "xml_buffer", "text": scaffold, "exprs": lit_exprs, "structure": False}], c.run_dir, variant="plain", name="lit")["lit"]
    for (text, ok, val), er in zip(LITERALS, rl["exprs"]):
        accepted = er.get("outcome") == "return" and not er["errors"]
        tree = strip(er["trees"][0]["t"]) if accepted and er.get("trees") else None
        if accepted != ok:
            c.finding("c02:literal:%s" % text, "integer literal %s %s" % (text, "accepted as %s" % json.dumps(tree) if accepted else "rejected: %s" % [x["msg"] for x in er["errors"]]),
                      {"kind": "literal", "text": text, "expected_ok": ok, "tree": tree})
        elif ok and val is not None:
            want = {"k": "CONSTANT", "v": val}
            if tree != want:
                c.finding("c02:literal-value:%s" % text, "integer literal %s has value %s" % (text, json.dumps(tree)), {"kind": "literal", "text": text, "expected": want, "tree": tree})
    for text, er in zip(FLOATS, rl["exprs"][len(LITERALS):]):
        accepted = er.get("outcome") == "return" and not er["errors"]
        tree = strip(er["trees"][0]["t"]) if accepted and er.get("trees") else None
        want = {"k": "CONSTANT", "d": dbits(float(text))}        # python float(): correctly rounded decimal -> binary64 (independent oracle)
        if tree != want and not (float(text) == int(float(text)) and "." not in text and "e" not in text.lower()):
            c.finding("c02:float:%s" % text, "floating literal %s is not converted to the nearest double: %s" % (text, json.dumps(tree)), {"kind": "literal", "text": text, "expected": want, "tree": tree})
    # ---- queries: the operator kind at the root (and of the first operand) of every query form of Queries.tla
    import c03
    qf = os.path.join(c.run_dir, "queries.ndjson")
    mq = vf.run_tlc("Queries", "Queries.cfg", c.run_dir, env={"OUTF": qf}, timeout=300)
    c.add_tlc("Queries", mq, "query forms with the operator kind their tree must have at the root (RootKind, ChildKind)")
    qk = vf.read_ndjson(qf + ".kinds")
    qscaffold = render_xml({"decl": c03.SCAFFOLD_DECL, "templates": [c03.P_TEMPLATE], "system": "system P;"})
    qjob = {"id": "qk", "entry": "xml_buffer", "text": qscaffold, "structure": False,
            "roundtrip": [{"text": "strategy S = control: A[] P.L1", "query": True}] + [{"text": c03.render_query(x["qq"]), "query": True} for x in qk]}
    qres = vf.run_jobs([qjob], c.run_dir, variant="plain", name="qk")["qk"]
    if "roundtrip" not in qres:
        raise vf.MachineryError("query scaffold failed: %s" % json.dumps(qres)[:400])
    n_q = 0
    for x, rt in zip(qk, qres["roundtrip"][1:]):
        tr = rt.get("t1")
        if rt["status"] == "not-accepted" or not tr:
            if x["valid"]:
                c.finding("c02:query-rejected:%s" % x["qq"]["form"], "the query `%s` is a valid instance of the form %s (Queries!Valid) and no tree is handed to clients: %s" % (
                    rt["text"], x["qq"]["form"], json.dumps(rt.get("first") or rt.get("what"))[:200]), {"kind": "query", "text": rt["text"], "form": x["qq"]})
            continue
        n_q += 1
        # no literal is silently dropped: every number written in the query is a constant of the tree handed to clients (a qualitative `<= p` is handed over as `>= 1 - p`)
        ints, dbls = set(), set()

        def consts(n):
            if isinstance(n, dict):
                if n.get("k") == "CONSTANT":
                    if "v" in n: ints.add(n["v"])
                    if "d" in n: dbls.add(n["d"])
                for ch in n.get("c") or []:
                    consts(ch)
        consts(tr)
        for lit in re.findall(r"(?<![\w.])\d+(?:\.\d+)?(?![\w.])", re.sub(r'"[^"]*"|\(\s*\w+\s*:\s*int\[[^\]]*\]\s*\)', "", rt["text"])):       # not strings, not the type of a binder
            ok = (int(lit) in ints) if lit.isdigit() else any(dbits(v) in dbls for v in (float(lit), 1 - float(lit)))
            if lit.isdigit() and not ok:
                ok = dbits(float(lit)) in dbls
            if not ok:
                c.finding("c02:query-literal-dropped:%s" % x["qq"]["form"], "the number %s written in the query `%s` is in no constant of the tree handed to clients (%s)" % (lit, rt["text"], tr.get("k")),
                          {"kind": "query", "text": rt["text"], "form": x["qq"], "tree": tr})
        kids = [k.get("k") if isinstance(k, dict) else None for k in (tr.get("c") or [])]
        if tr.get("k") != x["root"] or (x["child"] and (not kids or kids[0] != x["child"])):
            c.finding("c02:query-kind:%s" % x["qq"]["form"], "the query `%s` is handed to clients as a %s tree (first operand %s); its form prescribes %s%s" % (
                rt["text"], tr.get("k"), kids[:1], x["root"], " over " + x["child"] if x["child"] else ""), {"kind": "query", "text": rt["text"], "form": x["qq"], "tree": tr})
    c.cov["query_forms_with_kind_checked"] = n_q
    # literals at the scanner: every digit string / floating shape up to a bound (Lex.tla's NatTok on the extracted rules; the value the real scanner hands to the parser)
    import lexconf
    n_q += lexconf.run(c, quick, "C02", only=("numbers",))
    c.cov["traces_validated_against_impl"] = n_cb + n_tree + n_ctx + n_q
    c.cov["evaluations"] = n_cb + n_tree + n_ctx + len(lit_exprs)
    c.cov["distinct_nontrivial"] = len([e for e in univ if len(sig(e["t"])) > 12])
    c.cov["callback_sequences_compared"] = n_cb
    c.cov["trees_compared"] = n_tree
    c.cov["trees_skipped_builder_rejects"] = n_tree_skipped
    c.cov["context_embeddings_compared"] = n_ctx
    c.cov["spec_level_disagreements"] = spec_bad
    c.cov["rule"] = "every constructor of Lang.tla applied to every constructor at every operand position (depth 2; thorough: + representative depth 3), rendered with minimal and with full parentheses; non-trivial = nested operators"
    c.cov["exhaustive"] = True
    for e in univ[:2] + univ[len(univ) // 2: len(univ) // 2 + 2] + univ[-1:]:
        c.sample({"tree": e["t"], "min": lx.render(e["min"]), "full": lx.render(e["full"])})
    c.assumptions += ["TLC 1.8.0", "bison's XML report describes the tables it emits (cross-checked: LR.tla and the real parser agree on every replayed string)",
                      "floating literals: python float() as the correctly rounded decimal->binary64 oracle (outside TLA+)",
                      "operator table in Lang.tla written from the UPPAAL language documentation"]
    return c.finish()


def replay(path):
    rec = json.load(open(path))["replay"]
    c = vf.Check("C02", "quick")
    r = vf.run_jobs([{"id": "r", "text": rec["text"], "part": rec.get("part", "S_EXPRESSION")}], c.run_dir, variant="plain", harness="lr_replay")["r"]
    got = lrconf.norm_real_events(r.get("events", []))
    print(json.dumps({"text": rec["text"], "callbacks": got, "expected": rec.get("expected_callbacks")}))
    return 1
