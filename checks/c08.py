"""C08 — parsed documents satisfy the structural invariants clients rely on.
Builder.tla: the document-structure callbacks of DocumentBuilder/Document transcribed with their error paths; DocInv is
the property. BuilderMC.tla: TLC explores ALL structural callback sequences (duplicates, unresolved names, kind clashes,
arity mismatches) up to a length bound with DocInv as invariant and emits one history per distinct state.
 B2: every history is fed into a real DocumentBuilder; the projected real document must equal the spec state.
 B3: callback traces recorded from real parses (DocGen models as XML and XTA, structurally faulted variants, the
     repository's models) are run through Builder!Apply by TLC (BuilderTrace.tla) and must reach the real document.
 The property's own predicate (the walker of harness/dump.hpp over EVERY object reachable from the Document, after
 returns, diagnostics and exceptions alike) decides violations on all of these documents."""
import glob, json, os, random, re
import vf, docgen, xmlgen

STRUCT = {"decl_parameter", "proc_begin", "proc_end", "proc_location", "proc_branchpoint", "proc_location_init", "proc_edge_begin", "proc_edge_end",
          "instantiation_begin", "instantiation_end", "process"}
RESET = {"decl_func_begin", "decl_dynamic_template", "instance_name_begin", "gantt_decl_begin"}


def to_spec_events(events):
    """recorded events -> the alphabet of Builder!Apply"""
    h = []
    for e in events:
        cb, a = e["cb"], e["a"]
        if cb in RESET:
            h.append({"cb": "params_reset", "a": "", "b": "", "n": 0})
        if cb not in STRUCT:
            continue
        if cb == "decl_parameter":
            h.append({"cb": cb, "a": a[0], "b": "", "n": 0})
        elif cb in ("proc_begin", "proc_location", "proc_branchpoint", "proc_location_init", "process"):
            h.append({"cb": cb, "a": a[0], "b": "", "n": 0})
        elif cb == "proc_edge_begin":
            h.append({"cb": cb, "a": a[0], "b": a[1], "n": 0})
        elif cb in ("proc_end", "proc_edge_end"):
            h.append({"cb": cb, "a": "", "b": "", "n": 0})
        elif cb == "instantiation_begin":
            h.append({"cb": cb, "a": a[0], "b": a[2], "n": 0})
        elif cb == "instantiation_end":
            h += [{"cb": "expr_nat", "a": "", "b": "", "n": 0}] * a[3]
            h.append({"cb": cb, "a": a[0], "b": a[2], "n": a[3]})
    return h


def struct_faults(m, rnd):
    """structurally faulted variants of a resolved DocGen model (XML level): the error paths of reader and builder"""
    out = []

    def clone():
        return json.loads(json.dumps(m))
    ts = m["templs"]
    t0 = ts[0]
    if len(t0["locs"]) >= 2:
        x = clone(); x["templs"][0]["locs"][1]["name"] = x["templs"][0]["locs"][0]["name"] or "Dup"; x["templs"][0]["locs"][0]["name"] = x["templs"][0]["locs"][1]["name"]
        out.append(("duplicate location name", x))
        x = clone(); x["templs"][0]["locs"][1]["id"] = x["templs"][0]["locs"][0]["id"]
        out.append(("duplicate location id", x))
    if t0["edges"]:
        x = clone(); x["templs"][0]["edges"][0]["dst"] = "id999"
        out.append(("edge target refers to a missing id", x))
        if len(ts) > 1 and ts[1]["locs"]:
            x = clone(); x["templs"][0]["edges"][0]["dst"] = ts[1]["locs"][0]["id"]
            out.append(("edge target refers to a location of a later template", x))
            x = clone(); x["templs"][1]["edges"].append(dict(t0["edges"][0], src=t0["locs"][0]["id"], dst=ts[1]["locs"][0]["id"]))
            out.append(("edge source refers to a location of an earlier template", x))
    if t0["bps"]:
        x = clone(); x["templs"][0]["init"] = t0["bps"][0]
        out.append(("init refers to a branchpoint", x))
    x = clone(); x["templs"][0]["init"] = ""
    out.append(("missing init", x))
    if len(ts) > 1:
        x = clone(); x["templs"][1]["name"] = ts[0]["name"]
        out.append(("duplicate template name", x))
        x = clone(); x["templs"][0]["init"] = ts[1]["locs"][0]["id"]
        out.append(("init refers to a location of a later template", x))
    if m["insts"]:
        x = clone(); x["insts"][0]["args"] = x["insts"][0]["args"] + ["1"]
        out.append(("too many arguments", x))
        x = clone(); x["insts"][0]["base"] = "Nosuch"
        out.append(("unknown template", x))
        x = clone(); x["insts"].append(dict(x["insts"][0]))
        out.append(("duplicate instance name", x))
        if x["insts"][0]["args"]:
            x = clone(); x["insts"][0]["args"] = x["insts"][0]["args"][:-1]
            out.append(("too few arguments", x))
    x = clone(); x["procs"] = x["procs"] + [x["procs"][0]]; x["seps"] = x["seps"] + [","]
    out.append(("process listed twice", x))
    x = clone(); x["procs"] = x["procs"] + ["Ghost"]; x["seps"] = x["seps"] + [","]
    out.append(("unknown process", x))
    return out


def run(tier):
    c = vf.Check("C08", tier)
    quick = tier == "quick"
    vf.build_lib("asan")
    rnd = random.Random(c.seed)
    # ---- 1. spec: all structural callback sequences, DocInv invariant
    cfg = os.path.join(c.run_dir, "BuilderMC.cfg")
    open(cfg, "w").write("CONSTANTS\n  MaxLen = %d\n  MaxT = 2\n  MaxL = 2\n  MaxE = 2\n  MaxI = 2\n  MaxP = 2\nINIT Init\nNEXT Next\nVIEW View\nINVARIANTS Inv FramesBack EmitAll\nCHECK_DEADLOCK FALSE\n" % (7 if quick else 9))
    mc = vf.run_tlc("BuilderMC", cfg, c.run_dir, timeout=3000, xmx="16g", keep_out=False)
    c.add_tlc("BuilderMC", mc, "DocInv /\\ Balanced /\\ FramesBack on every state reachable by structural callback sequences")
    hists = mc.emitted
    if len(hists) < 1000:
        raise vf.MachineryError("BuilderMC emitted only %d histories" % len(hists))
    # the exhaustive run identifies states by the builder's abstract state (VIEW): it replays ONE callback sequence per abstract state. That an
    # implementation's state is a function of the model's is what the replay is to establish, so further paths to the same states are sampled by random walks
    cfg2 = os.path.join(c.run_dir, "BuilderMC_walks.cfg")
    open(cfg2, "w").write(open(cfg).read().replace("VIEW View\n", ""))
    ms = vf.run_tlc("BuilderMC", cfg2, c.run_dir, timeout=1500, xmx="8g", keep_out=False, simulate=400 if quick else 4000, depth=8 if quick else 10, workers=8, seed=c.seed)
    c.add_tlc("BuilderMC_walks", ms, "random callback sequences (no state identification): more than one path into the same abstract state")
    seen = {json.dumps(h["h"], sort_keys=True) for h in hists}
    extra = []
    for h in ms.emitted:
        k = json.dumps(h["h"], sort_keys=True)
        if k not in seen:
            seen.add(k)
            extra.append(h)
    c.cov["histories_from_random_walks"] = len(extra)
    hists = hists + extra
    # ---- 2. B2: replay every history into the real DocumentBuilder
    per = 2000
    jobs = [{"id": "h%d" % (k // per), "cases": hists[k:k + per], "timeout": 600} for k in range(0, len(hists), per)]
    res = vf.run_jobs(jobs, c.run_dir, variant="asan", harness="replay_cb", name="cb")
    nrep = drift = 0
    for j in jobs:
        r = res[j["id"]]
        if "n" not in r:
            c.finding("c08:replay-crash", "feeding a callback history into DocumentBuilder crashed: %s" % r.get("outcome"), {"result": {k: r.get(k) for k in ("outcome", "sig", "stderr")}})
            continue
        nrep += r["n"]
        for v in r["c08"]:
            c.finding("c08:cb:%s" % v["violations"][0]["inv"], "after the callback sequence %s: %s (%s)" % ([e["cb"] + "(" + e["a"] + ")" for e in v["h"]], v["violations"][0]["inv"], v["violations"][0]["at"]),
                      {"kind": "callbacks", "history": v["h"], "violations": v["violations"]})
        for mm in r["mismatches"]:
            drift += 1
            if drift <= 3:
                print("DRIFT property=C08 Builder.tla and DocumentBuilder disagree after %s: %s" % ([e["cb"] + "(" + e["a"] + ")" for e in mm["h"]], docgen.diff(mm["expected"], mm["got"])[:2]))
    c.cov["histories_replayed"] = nrep
    c.cov["spec_impl_mismatches"] = drift
    # ---- 3. the walker over real parses + B3 traces
    models = docgen.generate(c, ["struct", "system", "mixed"], 800 if quick else 8000, c.seed, bfs=False)
    cases = []
    for e in models:
        cases.append(("ok", e["m"]))
    pool = [e["m"] for e in models]
    for m in rnd.sample(pool, min(len(pool), 150 if quick else 1500)):
        cases += struct_faults(m, rnd)
    jobs = []
    for n, (kind, m) in enumerate(cases):
        jobs.append({"id": "x%d" % n, "entry": "xml_buffer", "text": xmlgen.render_xml(docgen.to_xmlgen(m)), "positions": False})
        jobs.append({"id": "t%d" % n, "entry": "xta", "text": docgen.render_xta(m)})
    # the production zoo (lib/zoo.py): documents with every declaration / statement / type construct, a full .xta, 3.x syntax, and the zoo's
    # accepted models; plus token-level faults (every 5th / every position) in the document-building texts: the walker on rarely built objects
    import zoo, lrconf, xtalex
    gen = os.path.join(vf.lib_dir("asan"), "gen")
    lx = lrconf.Lexemes(os.path.join(gen, "lexemes.json"))
    scn = {s: xtalex.Scanner(os.path.join(gen, "lexemes.json"), s) for s in ("new", "old")}
    zjobs = []
    for d in zoo.corpus():
        if d["job"]["entry"] == "xta" or (d["job"]["entry"] == "part" and d["job"].get("part") in ("S_DECLARATION", "S_SYSTEM")):
            zjobs.append(("zoo", dict(d["job"], text=d["text"])))
            toks = scn[d["syntax"]].scan(d["text"], zoo.TYPES)
            for pos in range(0, len(toks), 5 if quick else 1):
                for ft in (toks[:pos] + toks[pos + 1:], toks[:pos] + [{"t": "T_ERROR", "n": 0, "s": ""}] + toks[pos + 1:], toks[:pos] + [{"t": "'}'", "n": 0, "s": ""}] + toks[pos:]):
                    try:
                        zjobs.append(("zoofault", dict(d["job"], text=lx.render(ft))))
                    except KeyError:
                        pass
    for zn, zm in zoo.accepted_models():
        zjobs.append(("zoo", {"entry": "xml_buffer", "text": xmlgen.render_xml(zm)}))
    import lsczoo
    for li, lx_, le in lsczoo.docs():         # scenario documents: chart instances (also chained ones) are instances of the document like any other
        zjobs.append(("zoo", {"entry": "xml_buffer", "text": lx_}))
    zkind = {}
    for k, (kind, j) in enumerate(zjobs):
        j["id"] = "z%d" % k
        zkind[j["id"]] = kind
        jobs.append(j)
    repo_models = sorted(glob.glob(os.path.join(vf.REPO, "test/models/*.xml")))
    for f in repo_models:
        jobs.append({"id": "repo:" + os.path.basename(f), "entry": "xml_file", "file": f})
    res = vf.run_jobs(jobs, c.run_dir, variant="asan", harness="record", name="rec")
    traces = []
    nwalk = nthrow = nerrdocs = 0
    kinds = {}
    for j in jobs:
        r = res[j["id"]]
        kind = zkind[j["id"]] if j["id"] in zkind else cases[int(j["id"][1:])][0] if j["id"][0] in "xt" and not j["id"].startswith("repo") else "repo"
        if r.get("outcome") not in ("return", "throw"):
            c.finding("c08:crash:%s" % kind, "parse crashed (%s) [%s]" % (r.get("outcome"), kind), {"input": j.get("text") or j.get("file"), "entry": j["entry"], "stderr": (r.get("stderr") or "")[:1500]})
            continue
        nwalk += 1
        nthrow += r["outcome"] == "throw"
        nerrdocs += r["final"]["e"] > 0
        kinds[kind] = kinds.get(kind, 0) + 1
        for v in r.get("c08") or []:
            c.finding("c08:%s:%s" % (kind if kind in ("ok", "repo") else "fault", v["inv"]), "%s at %s after parsing a model [%s] through %s (%s)" % (v["inv"], v["at"], kind, j["entry"], r["outcome"]),
                      {"kind": "parse", "input": j.get("text") or j.get("file"), "entry": j["entry"], "violations": r["c08"], "outcome": r["outcome"]})
        if r["outcome"] == "return" and r["final"]["e"] == 0 and "facts" in r:
            for t in r["facts"]["templs"]:
                if t["ta"] and t["init"] <= 0:
                    c.finding("c08:accepted-without-init", "template %s has no initial location among its own locations although the parse reported no error" % t["name"],
                              {"kind": "parse", "input": j.get("text") or j.get("file"), "entry": j["entry"]})
        if "proj" in r and j["id"][0] in "xt" and not j["id"].startswith("repo:lsc"):
            traces.append({"id": j["id"], "h": to_spec_events(r["events"]), "p": r["proj"]})
    # B3: TLC runs the recorded callback sequences through Builder!Apply
    tpath = os.path.join(c.run_dir, "traces.ndjson")
    vf.write_ndjson(tpath, traces)
    tv = vf.run_tlc("BuilderTrace", "BuilderTrace.cfg", c.run_dir, env={"TRACES": tpath}, timeout=3000, xmx="16g", workers=1, keep_out=False)
    c.add_tlc("BuilderTrace", tv, "recorded real callback traces run through Builder!Apply")
    tr = tv.emitted[0] if tv.emitted else {"n": 0, "rejected": [], "docinv_broken": []}
    rej = list(tr["rejected"].values()) if isinstance(tr["rejected"], dict) else list(tr["rejected"])
    brk = list(tr["docinv_broken"].values()) if isinstance(tr["docinv_broken"], dict) else list(tr["docinv_broken"])
    byid = {j["id"]: j for j in jobs}
    for i in brk:
        c.finding("c08:trace-docinv", "DocInv fails in the state Builder.tla reaches on the recorded callbacks of %s" % i, {"kind": "trace", "input": byid[i].get("text"), "entry": byid[i]["entry"]})
    for i in rej[:3]:
        print("DRIFT property=C08 trace %s: Builder.tla does not reach the real document's structure" % i)
    c.cov["traces_validated_against_impl"] = tr["n"] - len(rej) + nrep - drift
    c.cov["traces_recorded"] = tr["n"]
    c.cov["traces_rejected"] = len(rej)
    c.cov["evaluations"] = nwalk + nrep
    c.cov["distinct_nontrivial"] = nwalk
    c.cov["documents_walked"] = nwalk
    c.cov["documents_from_exception"] = nthrow
    c.cov["documents_with_diagnostics"] = nerrdocs
    c.cov["by_kind"] = kinds
    c.cov["rule"] = ("histories = one per distinct state of BuilderMC.tla; parses = DocGen models as XML and XTA + 15 kinds of structural faults + the repository's models; "
                     "non-trivial = a parsed document (every reachable object walked)")
    c.sample({"history": hists[len(hists) // 2]["h"], "state": hists[len(hists) // 2]["p"]})
    c.assumptions += ["TLC 1.8.0", "the walker in harness/dump.hpp evaluates the statement's relations on the real objects", "projection harness/proj.hpp"]
    if drift or rej:
        c.assumptions.append("DRIFT: %d replayed histories and %d recorded traces are not behaviours of Builder.tla (no property violation observed on them)" % (drift, len(rej)))
    return c.finish()


def replay(path):
    rec = json.load(open(path))["replay"]
    c = vf.Check("C08", "quick")
    if rec.get("kind") == "callbacks":
        r = vf.run_jobs([{"id": "r", "cases": [{"h": rec["history"], "p": {}}]}], c.run_dir, variant="asan", harness="replay_cb")["r"]
        print(json.dumps(r.get("c08"), indent=1))
    else:
        j = {"id": "r", "entry": rec["entry"]}
        j["file" if rec["entry"] == "xml_file" else "text"] = rec["input"]
        r = vf.run_jobs([j], c.run_dir, variant="asan", harness="record")["r"]
        print(json.dumps({"outcome": r.get("outcome"), "c08": r.get("c08")}, indent=1))
    return 1
