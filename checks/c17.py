"""C17 — analysis methods are reported as supported only when the model permits them.
Features.tla: one restricting-feature placement per model; Sem (the statement) vs Impl (transcription of
FeatureChecker); TLC evaluates Impl=>Sem on the universe (pointing at the unsound clauses) and exports it; every
model is rendered and parsed, get_supported_methods() is compared with Sem (violation when a method is reported
although the semantics forbids it) and with Impl (drift); never-instantiated twins and reordered declarations too."""
import json, os
import vf
from xmlgen import render_xml

REL = {"lt": "<", "le": "<=", "eq": "==", "ge": ">=", "gt": ">"}
MIR = {"lt": ">", "le": ">=", "eq": "==", "ge": "<=", "gt": "<"}


def positioned(e, pos):
    p = "i >= 0"
    return {"alone": e, "left": "%s && %s" % (e, p), "right": "%s && %s" % (p, e), "deepleft": "(%s && %s) && b" % (e, p),
            "deepright": "b && (%s && %s)" % (p, e), "orint": "i < 0 || %s" % e, "forall": "forall (k : int[0,1]) %s" % e}[pos]


def place(m, T, gdecl, tdecl):
    """write the restricting feature m into template T / the global declarations; -> replacement system line or None"""
    system = None
    f = m["feat"]
    FP = {"lit": "1.5", "var": "d", "cvar": "cd", "mvar": "md", "carr": "cda[1]", "expr": "cd + 0.0"}[m.get("fp", "lit")]
    if f == "fpcmp":
        e = "x %s %s" % (REL[m["op"]], FP) if m["order"] == "cv" else "%s %s x" % (FP, MIR[m["op"]])
        e = positioned(e, m["pos"])
        if m["role"] == "guard":
            T["edges"][0]["guard"] = e
        else:
            T["locations"][0]["inv"] = e
            if m["role"] != "invariant":          # the same invariant on an urgent / a committed location
                T["locations"][0][m["role"].split("_")[1]] = True
    elif f == "fpassign":
        tgt = {"clock": "x = " + FP, "double": "d = " + (FP if FP != "d" else "cd"), "hybrid": "h = " + FP, "intvar": "i = 1"}[m["target"]]
        items = ["i = %d" % k for k in range(m["len"])]
        items[m["idx"] - 1] = tgt
        T["edges"][0]["assign"] = ", ".join(items)
    elif f == "clockinit":
        d = "clock c0 = %s;" % ((FP if "fp" in m else "2.5") if m["val"] == "fp" else "2")
        (gdecl if m["where"] == "global" else tdecl).append(d)
    elif f == "rate":
        clk = "x" if m["clock"] == "plain" else "h"
        val = "0.5" if m["val"] == 5 else str(m["val"])
        e = "%s' == %s" % (clk, val) if m["order"] == "cv" else "%s == %s'" % (val, clk)
        p = "x <= 5"
        e = {"alone": e, "left": "%s && %s" % (e, p), "right": "%s && %s" % (p, e), "deepleft": "(%s && %s) && i >= 0" % (e, p),
             "deepright": "i >= 0 && (%s && %s)" % (p, e)}[m["pos"]]
        T["locations"][0]["inv"] = e
    elif f == "chan":
        pre = {"plain": "", "urgent": "urgent ", "broadcast": "broadcast ", "urgentbroadcast": "urgent broadcast "}[m["kind"]]
        d = "%schan cc0%s;" % (pre, "[2]" if m["shape"] == "array" else "")
        (gdecl if m["where"] == "global" else tdecl).append(d)
    elif f == "dynamic":
        gdecl.append("dynamic Dyn(int p);")
    elif f == "chanprio":
        gdecl.append("broadcast chan pa, pb;")
        gdecl.append("chan priority pa < pb;")
    elif f == "procprio":
        system = "system T < U;"
    return system


def model_of(m, reorder=False):
    """abstract placement -> model dict. Template T carries template-scoped features; template U is clean.
    inst=FALSE: only U is listed in the system line."""
    gdecl = ["int i; bool b; double d; const double cd = 1.5; meta double md; const double cda[2] = {0.5, 1.5};", "clock x; hybrid clock h;"]
    tdecl = []
    T = {"name": "T", "locations": [{"id": "id0", "name": "A"}, {"id": "id1", "name": "B"}], "init": "id0",
         "edges": [{"src": "id0", "dst": "id1"}]}
    U = {"name": "U", "locations": [{"id": "id2", "name": "C"}], "init": "id2", "edges": []}
    system = "system T, U;"
    system = place(m, T, gdecl, tdecl) or system
    mode = m.get("inst", "yes")
    if mode == "no":
        system = "system U;"
    elif mode in ("unbound", "partial", "full"):
        T["params"] = "const int[0,1] id"
        if mode == "partial":
            system = "PT(const int[0,1] q) = T(q);\n" + system.replace("T", "PT")
        elif mode == "full":
            system = "PT = T(1);\n" + system.replace("T", "PT")
    T["decl"] = "\n".join(tdecl)
    templates = [T, U]
    if reorder:
        templates = [U, T]
        gdecl = [gdecl[0]] + gdecl[2:] + [gdecl[1]]   # the first base line stays first (a placement may refer to its constants); then the feature declarations, the clocks last
        if system == "system T, U;":
            system = "system U, T;"
    return {"decl": "\n".join(gdecl), "templates": templates, "system": system}


def pair_model(p):
    """two restricting features, a in template TA, b in template TB, declared in the order p['first'] says"""
    ga, gb, ta, tb = [], [], [], []
    def templ(name, l0, l1):
        return {"name": name, "locations": [{"id": l0, "name": "A"}, {"id": l1, "name": "B"}], "init": l0, "edges": [{"src": l0, "dst": l1}]}
    TA, TB = templ("TA", "id0", "id1"), templ("TB", "id2", "id3")
    place(p["a"], TA, ga, ta)
    place(p["b"], TB, gb, tb)
    TA["decl"], TB["decl"] = "\n".join(ta), "\n".join(tb)
    base = ["int i; bool b; double d; const double cd = 1.5; meta double md; const double cda[2] = {0.5, 1.5};", "clock x; hybrid clock h;"]
    sysl, procs = [], []
    for nm, T, m in (("TA", TA, p["a"]), ("TB", TB, p["b"])):
        if m.get("inst") == "full":
            T["params"] = "const int[0,1] id"
            sysl.append("P%s = %s(1);" % (nm, nm)); procs.append("P" + nm)
        else:
            procs.append(nm)
    a_first = p["first"] == "a"
    gdecl = base + (ga + gb if a_first else gb + ga)
    templates = [TA, TB] if a_first else [TB, TA]
    order = procs if a_first else procs[::-1]
    sep = " < " if "procprio" in (p["a"]["feat"], p["b"]["feat"]) else ", "          # process priorities live in the system line
    return {"decl": "\n".join(gdecl), "templates": templates, "system": "\n".join(sysl + ["system %s;" % sep.join(order)])}


def key_of(m):
    return ",".join("%s=%s" % (k, m[k]) for k in sorted(m))


def run(tier):
    c = vf.Check("C17", tier)
    outf = os.path.join(c.run_dir, "models.ndjson")
    mc = vf.run_tlc("FeaturesMC", "Features.cfg", c.run_dir, env={"OUTF": outf}, timeout=600)
    spec = mc.emitted[0]
    univ = vf.read_ndjson(outf)
    mc.distinct = max(mc.distinct, len(univ)); mc.generated = max(mc.generated, len(univ))
    c.add_tlc("Features", mc, "Impl=>Sem on %d placements; %d unsound at spec level" % (spec["n"], spec["unsound"]))
    jobs = []
    for n, rec in enumerate(univ):
        for ro in (False, True):
            jobs.append({"id": "m%d%s" % (n, "r" if ro else ""), "entry": "xml_buffer", "text": render_xml(model_of(rec["m"], ro)), "structure": False})
    res = vf.run_jobs(jobs, c.run_dir, variant="plain")
    nontrivial = drift = 0
    for n, rec in enumerate(univ):
        m = rec["m"]
        outs = []
        for ro in (False, True):
            r = res["m%d%s" % (n, "r" if ro else "")]
            rep = {"placement": m, "reordered": ro, "model": model_of(m, ro)}
            if r.get("main", {}).get("outcome") != "return":
                exc = r.get("main", {}).get("exc") or r.get("outcome")
                c.finding("c17:no-verdict:%s" % key_of(m), "no supported-methods verdict: parsing ended with %s (%s) for %s" % (exc, r.get("main", {}).get("what"), key_of(m)), rep)
                outs.append(None)
                continue
            d = r["dump"]["doc"]
            if d["errors"]:
                raise vf.MachineryError("scaffold for %s rejected: %s" % (key_of(m), [e["msg"] for e in d["errors"]][:3]))
            s = d["supported"]
            outs.append((s["symbolic"], s["stochastic"], s["concrete"]))
            for meth, got, sem in (("symbolic", s["symbolic"], rec["sym"]), ("stochastic", s["stochastic"], rec["sto"]), ("concrete", s["concrete"], rec["con"])):
                if got and not sem:
                    c.finding("c17:%s-reported:%s" % (meth, key_of(m)), "%s analysis reported as supported for %s%s" % (meth, key_of(m), " (reordered)" if ro else ""), rep)
            if (s["symbolic"], s["stochastic"], s["concrete"]) != (rec["isym"], rec["isto"], rec["icon"]):
                drift += 1
        if not (rec["sym"] and rec["sto"] and rec["con"]):
            nontrivial += 1
        if outs[0] is not None and outs[1] is not None and outs[0] != outs[1]:
            c.finding("c17:order-dependent:%s" % key_of(m), "declaration order changes the verdict for %s: %s vs %s" % (key_of(m), outs[0], outs[1]), {"placement": m})
        # never-instantiated twin must report everything supported (template-scoped features)
    # ---- pairs: a symbolic-restricting and a stochastic-restricting feature in one model, in both declaration orders
    pairs = vf.read_ndjson(outf + ".pairs")
    pjobs = [{"id": "p%d" % n, "entry": "xml_buffer", "text": render_xml(pair_model(rec["p"])), "structure": False} for n, rec in enumerate(pairs)]
    pres = vf.run_jobs(pjobs, c.run_dir, variant="plain", name="pairs")
    for n, rec in enumerate(pairs):
        r = pres["p%d" % n]
        p = rec["p"]
        pk = "%s+%s:first=%s" % (key_of(p["a"]), key_of(p["b"]), p["first"])
        rep = {"pair": p, "model": pair_model(p)}
        if r.get("main", {}).get("outcome") != "return":
            c.finding("c17:no-verdict:" + pk, "no supported-methods verdict: parsing ended with %s for the pair %s" % (r.get("main", {}).get("exc") or r.get("outcome"), pk), rep)
            continue
        d = r["dump"]["doc"]
        if d["errors"]:
            raise vf.MachineryError("scaffold for pair %s rejected: %s" % (pk, [e["msg"] for e in d["errors"]][:3]))
        s = d["supported"]
        nontrivial += 1
        for meth, sem in (("symbolic", rec["sem"]["sym"]), ("stochastic", rec["sem"]["sto"]), ("concrete", rec["sem"]["con"])):
            if s[meth] and not sem:
                c.finding("c17:%s-reported:pair:%s" % (meth, pk), "%s analysis reported as supported for a model with two restricting features (%s)" % (meth, pk), rep)
        if (s["symbolic"], s["stochastic"], s["concrete"]) != (rec["impl"]["sym"], rec["impl"]["sto"], rec["impl"]["con"]):
            drift += 1
    c.cov["feature_pairs"] = len(pairs)
    if not spec["allsound"] and not c.violations and not c.known_hit:
        raise vf.MachineryError("Features.tla's transcription is unsound (%d placements) but libutap's report was sound on all: transcription stale" % spec["unsound"])
    c.cov["traces_validated_against_impl"] = len(jobs) + len(pjobs)
    c.cov["evaluations"] = len(jobs) + len(pjobs)
    c.cov["distinct_nontrivial"] = nontrivial
    c.cov["rule"] = "one restricting-feature placement per model (fp comparison: role x operator x operand order x 7 positions; fp assignment: target x list position; clock initialiser; rate; channel kind x scope x shape; dynamic; priorities) x instantiated-or-not x two declaration orders; non-trivial = some method must not be reported"
    c.cov["exhaustive"] = True
    c.cov["transcription_mismatches"] = drift
    c.cov["spec_level"] = spec
    for n in (0, len(univ) // 2, len(univ) - 1):
        c.sample({"placement": univ[n]["m"], "sem": [univ[n]["sym"], univ[n]["sto"], univ[n]["con"]]})
    c.assumptions += ["TLC 1.8.0", "Sem in Features.tla written from the statement; non-constant rates are considered permitted (pinned by the repository's own test 'Clock rate expression')"]
    return c.finish()


def replay(path):
    rec = json.load(open(path))["replay"]
    c = vf.Check("C17", "quick")
    r = vf.run_jobs([{"id": "m", "entry": "xml_buffer", "text": render_xml(rec["model"]), "structure": False}], c.run_dir, variant="plain")["m"]
    print(json.dumps({"placement": rec["placement"], "main": r.get("main"), "supported": r.get("dump", {}).get("doc", {}).get("supported")}))
    return 1
