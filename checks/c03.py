"""C03 — printing an expression or query and re-parsing it reproduces the same tree.
Printer.tla transcribes expression_t::print/get_precedence on Lang trees; PrinterLR checks on the extracted grammar that
Parse(StrT(Canon(t))) gives back Canon(t) (says which side is wrong); Queries.tla enumerates the query forms. Every
tree / query that the real library accepts is printed with str(), re-parsed in the same scope and compared (structural
equality, canonical trees incl. double bit patterns, second print identical); str() must not throw."""
import json, os, re
import vf, lrconf
from xmlgen import render_xml

SCAFFOLD_DECL = """typedef struct { int f; int g[2]; } S;
int i, j, k; bool b1; double d; int arr[3]; int mat[2][2]; S s; S sa[2];
int fn(int u, int w) { return u; }
clock gx; int gv;
"""
P_TEMPLATE = {"name": "P", "decl": "clock x; int v;", "locations": [{"id": "id0", "name": "L1"}, {"id": "id1", "name": "L2"}], "init": "id0",
              "edges": [{"src": "id0", "dst": "id1", "guard": "x >= 1", "assign": "v = 1"}, {"src": "id1", "dst": "id0"}]}


BOUNDARY_EXPRS = ["-(-2147483648)", "- -2147483648", "1 - -2147483648", "-2147483648 - 1", "-(-i)", "i - -1", "-(i++)", "-(--i)", "i+++j", "i - --j", "!(!b1)", "-(-1.5)", "1.5 - -2.5",
                  '"abc"', '"a b"', '"a\\\\b"', "fn(i, 2147483647)", "(b1 && (forall (q : int[0,2]) arr[q] > 0)) || i > 0", "(i > 0 ? (exists (q : int[0,1]) arr[q] == i) : b1) && b1",
                  "(sum (q : int[0,2]) arr[q]) + 1", "b1 || (forall (q : int[0,2]) arr[q] > 0) && b1", "i * (j + k) * -(1)", "s.f + sa[1].g[0]", "arr[arr[0]]", "(i, j)", "i = (j, k)"]
# every builtin function and the operators the typed universe of Lang.tla leaves out (production zoo, lib/zoo.py)
BOUNDARY_EXPRS += ["sqrt(d) + pow(d, 2.0) + fabs(-d) + fmod(d, 2.0) + fma(d, 2.0, 1.0)", "ln(d) + exp(d) + exp2(d) + expm1(d) + log(d) + log10(d) + log2(d) + log1p(d)", "cbrt(d) + sin(d) + cos(d) + tan(d) + asin(d) + acos(d) + atan(d)",
                   "sinh(d) + cosh(d) + tanh(d) + asinh(d) + acosh(d) + atanh(d) + erf(d) + erfc(d) + tgamma(d) + lgamma(d)", "trunc(d) + round(d) + floor(d) + ceil(d) + fint(d) + logb(d)",
                   "atan2(d, 1.0) + hypot(d, 1.0) + fdim(d, 1.0) + fmax(d, 1.0) + fmin(d, 1.0) + nextafter(d, 1.0) + copysign(d, 1.0) + ldexp(d, 2)", "random(3.0) + random_normal(0.0, 1.0) + random_poisson(2.0) + random_tri(0.0, 1.0, 2.0)",
                   "random_arcsine(0.0, 1.0) + random_beta(1.0, 2.0) + random_gamma(1.0, 2.0) + random_weibull(1.0, 2.0)", "ilogb(d) + fpclassify(d) + abs(i)", "isfinite(d) && isinf(d) || isnan(d) && isnormal(d) || signbit(d) && isunordered(d)",
                   "i ** 2", "d ** 2.0 ** 3.0", "(d ** 2.0) ** 3.0", "-i ** 2", "(i <? j) >? k", "i <? j >? k", "i % 3 << 2 >> 1", "i & j | k ^ 1", "(i & j) == 0", "i & j == 0", "gx' == 2", "i >= 0 imply j > 0 imply k > 0",
                   "(i >= 0 imply j > 0) imply k > 0", "b1 xor !b1", "not b1 and b1 or b1", "s == s", "arr == arr", "(b1 ? s : sa[0]).f", "(b1 ? arr : arr)[0]", "fn(fn(1, 2), i++)", "sa[i].g[j] += 1", "i <<= 2", "i >>= j", "i ^= 1", "i |= j & k"]
BOUNDARY_QUERIES = ["Pr[<=10](P.L1 U 1)", "Pr[<=10](1 U P.L2)", "Pr[<=10](<> 1)", "Pr[<=10](P.L1 U true)", "Pr[<=10]([] true)", 'saveStrategy("a\\\\b.json", S)', 'saveStrategy("dir/x y.json", S)',
                    'loadStrategy{i}->{gx}("a\\\\b.json")', 'loadStrategy{}->{}("plain.json")', "E<> -(-2147483648) == i", "A[] -i <= -(-j)", "E<> (forall (q : int[0,2]) arr[q] >= 0) || P.L1",
                    "A[] P.L1 imply (exists (q : int[0,1]) arr[q] > i) && P.v >= 0", "sup{P.L1 && i > -1}: i, -j", "E[<=10; 3](max: -(-i))", "simulate[<=10; 2]{-i, (i > 0 ? j : k)}"]


def bound(b, runs=0):
    s = {"time": "<=10", "steps": "#<=10", "clock": "gx<=10"}[b]
    return "[%s%s]" % (s, "; %d" % runs if runs else "")


def render_query(q):
    f = q["form"]
    p, r = "P.L1", "P.L2"
    if "op" in q:
        p = {"or": "P.L1 || P.v > 1", "orkw": "P.L1 or P.v > 1", "and": "P.L1 && P.v > 1", "imply": "P.L1 imply P.v > 1", "not": "!P.L1", "ite": "P.v > 1 ? P.L1 : P.L2",
             "forall": "forall (q : int[0,1]) arr[q] >= 0", "cmp": "P.v + 1 > 2"}[q["op"]]
    path = {"box": "[]", "diamond": "<>"}
    sub = " under S" if q.get("sub") == "under" else ""
    if f == "AG": return "A[] %s" % p
    if f == "EF": return "E<> %s" % r
    if f == "AF": return "A<> P.v == 2"
    if f == "EG": return "E[] not %s" % r
    if f == "AGnot": return "A[] not (%s and P.v > 1)" % p
    if f == "EFand": return "E<> %s and P.v > 1 and gv < 3" % r
    if f == "AGimply": return "A[] %s imply P.x <= 5" % p
    if f == "AGforall": return "A[] forall (q : int[0,1]) arr[q] >= 0"
    if f == "deadlock": return "A[] not deadlock"
    if f == "leads": return "%s --> %s" % (p, r)
    if f == "until": return "A[ %s U %s ]" % (p, r)
    if f == "wuntil": return "A[ %s W %s ]" % (p, r)
    if f == "buchi": return "A[] (%s and A<> %s)" % (p, r)
    if f in ("sup", "inf", "bounds"):
        es = "P.v" if q["n"] == 1 else "P.v, P.x"
        if f == "inf" and q["n"] == 1: es = "P.x"
        return "%s%s: %s" % (f, "{%s}" % p if q["pred"] else "", es)
    if f == "pr_quant": return "Pr%s(%s %s)" % (bound(q["b"], q["runs"]), path[q["path"]], r)
    if f == "pr_until": return "Pr%s(%s U %s)" % (bound(q["b"], q["runs"]), p, r)
    if f == "pr_qual": return "Pr%s(%s %s) %s %s" % (bound(q["b"]), path[q["path"]], r, ">=" if q["cmp"] == "ge" else "<=", q["prob"])
    if f == "pr_cmp": return "Pr%s(%s %s) >= Pr%s(%s %s)" % (bound(q["b"], q.get("runs", 0)), path[q["path"]], r, bound(q["b2"], q.get("runs2", 0) and q["runs2"] + 2).replace("10", "5"), path[q["path2"]], p)
    if f == "exp": return "E%s(%s: P.v)" % (bound(q["b"], q["runs"] or 5), q["agg"])
    if f in ("sim", "sim_reach", "sim_reach_n"):
        es = "P.v" if q["n"] == 1 else "P.v, P.x"
        s = "simulate %s {%s}" % (bound(q["b"], q["runs"]), es)
        if f == "sim_reach": s += " : P.v > 1"
        if f == "sim_reach_n": s += " : 2 : P.v > 1"
        return s
    if f == "control_AG": return "control: A[] %s%s" % (p, sub)
    if f == "control_AF": return "control: A<> %s%s" % (r, sub)
    if f == "control_until": return "control: A[ %s U %s ]%s" % (p, r, sub)
    if f == "control_buchi": return "control: A[] (%s %s A<> %s)%s" % ("(%s)" % p if "op" in q else p, q["conj"], r, sub)      # the conjunction of the objective binds tighter than `or`, `imply`, `?:`
    if f == "ef_control": return "E<> control: A[] %s%s" % (p, sub)
    if f == "po_control": return "{ %s, P.v } control: A<> %s%s" % (p, r, sub)
    if f == "control_t2": return "control_t*(5,2): A<> %s" % r
    if f == "control_t1": return "control_t*(5): A<> %s" % r
    if f == "control_t0": return "control_t*: A<> %s" % r
    if f in ("minE", "maxE", "minPr", "maxPr"):
        feat = {"none": "", "both": " {P.v} -> {P.x}", "empty": " {} -> {}"}[q["feat"]]
        head = "%s(P.v)" % f if f in ("minE", "maxE") else f
        return "%s%s%s : <> %s%s" % (head, bound(q["b"]), feat, r, sub)
    if f == "load": return 'loadStrategy("strat.json")'
    if f == "load_feat": return 'loadStrategy {P.v} -> {P.x} ("strat.json")'
    if f == "save": return 'saveStrategy("out.json", S)'
    if f == "assign_minE": return "strategy S2 = minE(P.v)[<=20] : <> %s" % r
    if f == "assign_control": return "strategy S3 = control: A[] %s" % p
    if f == "mitl_until": return "Pr (%s U[0,5] %s)" % (p, r)
    if f == "mitl_release": return "Pr (%s R[0,5] %s)" % (p, r)
    if f == "mitl_next": return "Pr (X %s)" % p
    if f == "mitl_diamond": return "Pr (<>[0,5] %s)" % r
    if f == "mitl_box": return "Pr ([][0,5] %s)" % p
    raise ValueError(f)


def wrapper(q):
    """what a game query writes in front of its path formula; PropInfo::intermediate, the tree that is printed, is the path formula alone, and it is re-parsed
    `in the same scope`: behind the same wrapper"""
    f = q["form"]
    if f in ("control_AG", "control_AF", "control_until", "control_buchi", "assign_control"): return "control: "
    if f == "ef_control": return "E<> control: "
    return ""            # `{..} control:` and `control_t*(..):` are nodes of the tree and are printed with it


def strip(d):
    if d is None:
        return None
    o = {"k": d["k"]}
    for f in ("v", "d", "s", "sym", "i", "b", "sync"):
        if f in d:
            o[f] = d[f]
    if "c" in d:
        o["c"] = [strip(x) for x in d["c"]]
    return o


def shape(t):
    """kind of the root and of its non-leaf children, as printed kinds"""
    if not t:
        return "?"
    kids = [c["k"] for c in t.get("c", []) if c and c.get("c")]
    return t["k"] + ("(" + ",".join(kids) + ")" if kids else "")


def classify(c, rt, key_prefix, text, extra):
    st = rt["status"]
    rep = dict(extra, text=text, result={k: rt.get(k) for k in ("status", "s1", "s2", "what", "second", "equal")})
    if st == "not-accepted":
        return "skipped"
    sh = shape(rt.get("t1"))
    if st == "str-threw":
        c.finding("%s:str-threw:%s" % (key_prefix, sh), "str() threw %s for `%s`" % (rt.get("what"), text), rep)
        return "bad"
    if st == "reparse-failed" and extra.get("kind") == "query" and extra["form"]["form"].startswith(("control", "ef_control", "po_control")) \
            and rt["second"].get("errors") == ["$Invalid_property_type"]:
        return "skipped"      # (kept for texts without a known wrapper) PropInfo::intermediate of a game query is the path formula without its `control:` wrapper; not a query by itself
    if st == "reparse-failed":
        c.finding("%s:reparse-failed:%s" % (key_prefix, sh), "`%s` prints as `%s`, which the same parser rejects: %s" % (text, rt.get("s1"), (rt["second"].get("errors") or rt["second"])), rep)
        return "bad"
    t1, t2 = strip(rt["t1"]), strip(rt["t2"])
    if t1 != t2:      # canonical projection (binder symbols compared by name: equal() is by identity and can never hold for quantifiers)
        c.finding("%s:tree-differs:%s" % (key_prefix, sh), "`%s` prints as `%s`, which parses to a different tree" % (text, rt.get("s1")), dict(rep, t1=t1, t2=t2))
        return "bad"
    if rt.get("s2") != rt.get("s1"):
        c.finding("%s:second-print-differs:%s" % (key_prefix, sh), "`%s`: first print `%s`, print of the re-parsed tree `%s`" % (text, rt.get("s1"), rt.get("s2")), rep)
        return "bad"
    return "ok"


def _fnorm(s):
    """floating literals by value: Printer.tla carries them as the text that was read, the library prints the shortest digits that
    round-trip (`5e+22`, `5e-324`)"""
    def f(m):
        try:
            return repr(float(m.group(0)))
        except ValueError:
            return m.group(0)
    return re.sub(r"(?<![\w.])(\d+\.\d*(?:[eE][-+]?\d+)?|\d+[eE][-+]?\d+|\.\d+(?:[eE][-+]?\d+)?)", f, s)


def run(tier):
    c = vf.Check("C03", tier)
    quick = tier == "quick"
    vf.build_lib("plain")
    gen = os.path.join(vf.lib_dir("plain"), "gen")
    lx = lrconf.Lexemes(os.path.join(gen, "lexemes.json"))
    mc = vf.run_tlc("PrinterLR", "PrinterLR.cfg", c.run_dir, env={"LR_TABLES": os.path.join(gen, "lr_tables.json"), "LANG_UNIVERSE": "t2"}, timeout=3400, xmx="16g")
    c.add_tlc("PrinterLR", mc, "Parse(StrT(Canon(t))).out = RPN(Canon(t)) on the extracted grammar")
    univ = mc.emitted
    qf = os.path.join(c.run_dir, "queries.ndjson")
    mq = vf.run_tlc("Queries", "Queries.cfg", c.run_dir, env={"OUTF": qf}, timeout=300)
    queries = vf.read_ndjson(qf)
    mq.distinct = mq.generated = len(queries)
    c.add_tlc("Queries", mq, "query forms enumerated")
    model = {"decl": SCAFFOLD_DECL, "templates": [P_TEMPLATE], "system": "system P;"}
    scaffold = render_xml(model)
    # strategies S must exist for `under S` / saveStrategy: declared by a first query in each job
    # each tree is entered twice: minimally parenthesised and fully parenthesised (the latter builds the intended tree
    # whatever the grammar's precedences are, so a grammar/printer disagreement cannot hide behind the first parse)
    items = [{"text": lx.render(e["src"]), "part": "S_EXPRESSION"} for e in univ] + [{"text": lx.render(e["srcfull"]), "part": "S_EXPRESSION"} for e in univ]
    per = 600
    jobs = [{"id": "e%d" % (k // per), "entry": "xml_buffer", "text": scaffold, "roundtrip": items[k:k + per], "structure": False} for k in range(0, len(items), per)]
    qitems = [{"text": render_query(q), "query": True, "reparse_prefix": wrapper(q)} for q in queries]
    jobs.append({"id": "q", "entry": "xml_buffer", "text": scaffold, "roundtrip": [{"text": "strategy S = control: A[] P.L1", "query": True}] + qitems, "structure": False})
    res = vf.run_jobs(jobs, c.run_dir, variant="plain", name="rt")
    for jid, r in res.items():
        if r.get("main", {}).get("outcome") != "return" or "roundtrip" not in r or r["nerr_main"] != 0:
            raise vf.MachineryError("scaffold failed in %s: %s" % (jid, json.dumps(r)[:1000]))
    stats = {"ok": 0, "bad": 0, "skipped": 0}
    drift = 0
    known_ite_asg = 0
    drift_samples = []
    spec_rt_fail = 0
    for k in range(0, len(items), per):
        for j, rt in enumerate(res["e%d" % (k // per)]["roundtrip"]):
            e = univ[(k + j) % len(univ)]
            outcome = classify(c, rt, "c03:expr", items[k + j]["text"], {"kind": "expr", "decl": SCAFFOLD_DECL, "tree": e["t"]})
            stats[outcome] += 1
            if not e["rt"]:
                spec_rt_fail += 1
            if rt["status"] != "not-accepted" and rt.get("s1") is not None and k + j < len(univ):
                want = _fnorm(re.sub(r"\s+", "", lx.render(e["printed"])))
                got = _fnorm(re.sub(r"\s+", "", rt["s1"]))
                if want != got and re.match(r"^\(.*\?.*:.*\)[-+*/%&|^<>]*=", want) and re.search(r"\?.*:\(.*=.*\)$", got):
                    known_ite_asg += 1        # the input `c ? a : b = e` is read as `c ? a : (b = e)` (C02's known finding), and printed as read
                elif want != got and "@" not in want:
                    drift += 1
                    if len(drift_samples) < 40:
                        drift_samples.append({"spec": want, "libutap": got})
    # boundary literals and operand shapes the operator-centred universe of Lang.tla does not reach: negative literals under minus, string
    # literals, strategy file names with characters that need escaping, until-forms with constant operands, quantifiers in operand position
    bjobs = [{"id": "bx", "entry": "xml_buffer", "text": scaffold, "structure": False,
              "roundtrip": [{"text": "strategy S = control: A[] P.L1", "query": True}] + [{"text": t, "part": "S_EXPRESSION"} for t in BOUNDARY_EXPRS] + [{"text": t, "query": True} for t in BOUNDARY_QUERIES]}]
    bres = vf.run_jobs(bjobs, c.run_dir, variant="plain", name="rtb")["bx"]
    if bres.get("main", {}).get("outcome") != "return" or "roundtrip" not in bres:
        raise vf.MachineryError("scaffold failed for the boundary cases: %s" % json.dumps(bres)[:600])
    bstats = {"ok": 0, "bad": 0, "skipped": 0}
    for t, rt in zip(BOUNDARY_EXPRS + BOUNDARY_QUERIES, bres["roundtrip"][1:]):
        bstats[classify(c, rt, "c03:boundary", t, {"kind": "query" if t in BOUNDARY_QUERIES else "expr", "decl": SCAFFOLD_DECL, "form": {"form": "boundary"}, "model": model})] += 1
    c.cov["boundary_cases"] = bstats
    qres = res["q"]["roundtrip"][1:]
    qstats = {"ok": 0, "bad": 0, "skipped": 0}
    for q, it, rt in zip(queries, qitems, qres):
        outcome = classify(c, rt, "c03:query:%s" % q["form"], it["text"], {"kind": "query", "form": q, "model": model})
        qstats[outcome] += 1
        if outcome == "skipped":
            vf.log("query form not accepted by the library (out of scope): %s -> %s" % (it["text"], rt.get("first")))
    c.cov["traces_validated_against_impl"] = stats["ok"] + stats["bad"] + qstats["ok"] + qstats["bad"]
    c.cov["evaluations"] = len(items) + len(qitems)
    c.cov["distinct_nontrivial"] = stats["ok"] + stats["bad"] + qstats["ok"] + qstats["bad"]
    c.cov["expressions"] = stats
    c.cov["queries"] = qstats
    c.cov["spec_level_roundtrip_failures"] = spec_rt_fail
    c.cov["transcription_mismatches"] = drift
    c.cov["printed_as_read_inline_if_assignment"] = known_ite_asg
    c.cov["transcription_mismatch_samples"] = drift_samples
    c.cov["rule"] = "typed universe of Lang.tla (every constructor over every constructor, %d trees) and %d query forms of Queries.tla; a case counts when the library accepts it (parse + type check) in the scaffold; each is printed, re-parsed, compared" % (len(items), len(qitems))
    c.cov["exhaustive"] = True
    for it in items[:2] + qitems[:3] + qitems[len(qitems) // 2:len(qitems) // 2 + 2]:
        c.sample(it["text"])
    c.assumptions += ["TLC 1.8.0", "scope: inputs the library itself accepts without diagnostics in the scaffold model", "tree equality: harness/dump.hpp expr_tree (kinds, child order, symbol names, int values, double bit patterns)"]
    return c.finish()


def replay(path):
    rec = json.load(open(path))["replay"]
    c = vf.Check("C03", "quick")
    model = rec.get("model") or {"decl": rec.get("decl", SCAFFOLD_DECL), "templates": [P_TEMPLATE], "system": "system P;"}
    items = [{"text": "strategy S = control: A[] P.L1", "query": True}, {"text": rec["text"], "query": rec["kind"] == "query", "part": "S_EXPRESSION", "reparse_prefix": wrapper(rec["form"]) if rec.get("form") else ""}]
    r = vf.run_jobs([{"id": "r", "entry": "xml_buffer", "text": render_xml(model), "roundtrip": items, "structure": False}], c.run_dir, variant="plain")["r"]
    print(json.dumps(r["roundtrip"][1])[:2000])
    return 1
