"""C09 — accept/reject verdicts are invariant under meaning-preserving rewrites.
Grammar side (TLC, AliasLR.tla on the bison automaton extracted from the working tree's parser.y): for every token string up
to a bound at the guard / assignment / invariant / property entry points, exchanging a keyword operator for its symbolic
spelling, or wrapping an operand in redundant parentheses, leaves the emitted callback sequence and the outcome unchanged
(error recovery included).
Binding (metamorphic replay): TLC-generated models (DocGen.tla), accepted ones and ones rejected because of an injected
semantic fault, are rewritten at every applicable site - redundant parentheses around the whole label and around every
operand, blanks / line breaks / block comments / line comments in every gap between tokens, every single alias occurrence
replaced (both directions), and a consistent renaming of all user-chosen identifiers - and parsed; the multiset of
diagnostic messages (after renaming, without positions), the supported-analysis verdict and the canonical document (up to
renaming) must equal those of the original."""
import json, os, random, re
import vf, docgen, xmlgen, faults, c05, lexconf

ALIAS = [("&&", "and"), ("||", "or"), ("!", "not ")]
GAPS = [" ", "\n", " /* c */ ", " // c\n", "\t \n  ", " /** doc **/ ", "/***/", " /* a * b / c */ ", " /*/ x */ ", " /* E EX EXPECT */ ", " /* EXPECT:T */ ", "/*EXPECT:T*/", "/* see EXPECT:x<=3*/", "/*EXPECT:*/", "/*EXPECT:a*b**/", " // EXPECT:F\n", " /*\n * multi\n * line\n ***/ ", " // a /* b\n", "\r\n"]
USER_NAMES = ["i", "j", "x", "c", "b", "N", "a", "id_t", "pos", "v", "g1", "g2", "g3", "g4", "g5", "p", "w", "r", "y", "e", "d", "q", "u", "l1", "z", "K", "k", "n",
              "Idle", "Busy", "Done", "T1", "T2", "T3", "P1", "P2", "P3", "P4"]
REN = re.compile(r"(?<![A-Za-z0-9_])(%s)(?![A-Za-z0-9_])" % "|".join(sorted(USER_NAMES, key=len, reverse=True)))


def rename_text(s):
    return REN.sub(lambda m: "rn_" + m.group(1), s)


def rename_values(o):
    """rename inside every string VALUE of a JSON structure (keys, numbers and booleans are left alone)"""
    if isinstance(o, dict):
        return {k: rename_values(v) for k, v in o.items()}
    if isinstance(o, list):
        return [rename_values(v) for v in o]
    if isinstance(o, str):
        return rename_text(o)
    return o


def rename_model(m):
    """consistent renaming of every user-chosen identifier (declarations, uses, location / template / process names); ids are
    XML attributes of the form id<k> and contain no identifier of the list"""
    return rename_values(m)


def rewrites(m, rnd, quick):
    """-> [(family, description, rewritten model)]"""
    out = []
    blocks = faults.blocks(m)
    for b in blocks:
        text = faults.get_text(m, b)
        toks = faults.tokens(text)
        if b[0] in ("guard", "inv", "prob", "rate"):
            out.append(("parens", "%s: whole label" % b[0], faults.set_text(m, b, "(" + text + ")")))
        for n, (tk, s, e) in enumerate(toks):
            nxt = toks[n + 1][0] if n + 1 < len(toks) else ""
            prv = toks[n - 1][0] if n else ""
            if (re.match(r"^[A-Za-z_]\w*$|^\d+$", tk) and tk not in faults.KEYWORDS and nxt not in ("(", "[", "=", "++", "--", ":", "+=", "-=", "!", "?")
                    and prv not in (".", ":", "++", "--") and b[0] != "sel" and not (b[0] == "sync")):
                out.append(("parens", "%s: operand %d `%s`" % (b[0], n, tk), faults.set_text(m, b, text[:s] + "(" + tk + ")" + text[e:])))
            if n:
                gap = rnd.choice(GAPS)
                out.append(("layout", "%s: %r before token %d" % (b[0], gap, n), faults.set_text(m, b, text[:s] + gap + text[s:])))
        for sym, kw in ALIAS:
            for mm in re.finditer(re.escape(sym) + (r"(?!=)" if sym == "!" else ""), text):
                if sym == "!" and b[0] == "sync":
                    continue
                out.append(("alias", "%s: `%s` -> `%s` at %d" % (b[0], sym, kw.strip(), mm.start()), faults.set_text(m, b, text[:mm.start()] + " " + kw + " " + text[mm.end():])))
            for mm in re.finditer(r"(?<![A-Za-z0-9_])%s(?![A-Za-z0-9_])" % kw.strip(), text):
                out.append(("alias", "%s: `%s` -> `%s` at %d" % (b[0], kw.strip(), sym, mm.start()), faults.set_text(m, b, text[:mm.start()] + sym + text[mm.end():])))
    for b in faults.decl_blocks(m):        # declarations, parameters, system: layout rewrites between any two tokens
        text = faults.get_text(m, b)
        toks = faults.tokens(text)
        for n in rnd.sample(range(1, len(toks)), min(len(toks) - 1, 3)) if len(toks) > 1 else []:
            gap = rnd.choice(GAPS)
            s0 = toks[n][1]
            out.append(("layout", "%s: %r before token %d" % (b[0], gap, n), faults.set_text(m, b, text[:s0] + gap + text[s0:])))
    out.append(("rename", "all user identifiers", rename_model(m)))
    lim = 14 if quick else 60
    if len(out) > lim:
        ren = [o for o in out if o[0] == "rename"]
        al = [o for o in out if o[0] == "alias"]
        rest = [o for o in out if o[0] not in ("rename", "alias")]
        rnd.shuffle(rest)
        out = ren + al[:lim // 2] + rest[:lim - len(ren) - min(len(al), lim // 2)]
    return out


def verdict(r, rename=False):
    if r.get("outcome") in ("signal", "timeout", "abnormal-exit") or r.get("main", {}).get("outcome") != "return" or r.get("dump", {}).get("outcome") != "return":
        return {"no-document": [r.get("outcome"), r.get("main", {}).get("outcome"), r.get("main", {}).get("exc")]}
    d = c05.canon(r["dump"]["doc"])
    if rename:
        d = rename_values(d)
        d["errors"] = sorted(d["errors"])
        d["warnings"] = sorted(d["warnings"])
    return d


def fix_keys(o):
    if isinstance(o, dict):
        return {re.sub(r"^rn_", "", k): fix_keys(v) for k, v in o.items()}
    if isinstance(o, list):
        return [fix_keys(v) for v in o]
    return o


# ---- identifiers that happen to spell a soft keyword (the grammar re-admits them as identifiers: NonTypeId), in every role a user-chosen name can have
SOFT_ROLES = {
    "gvar": ("int {n} = 1; int z; process P(){{ state L0, L1; init L0; trans L0 -> L1 {{ guard {n} + 1 > z; assign z = {n}; }}; }} system P;", ["E<> {n} > 0", "A[] {n} + 1 > z", "A[] ({n})", "{n} > 0 --> z > 0", "sup: {n}"]),
    "typedef": ("typedef int[0,3] {n}; {n} v; int z; {n} f({n} q) {{ {n} l = q; return l; }} process P({n} p){{ {n} w; state L0, L1; init L0; trans L0 -> L1 {{ select s : {n}; guard v + 1 > z; }}; }} system P;", ["E<> v > 0"]),
    "func": ("int z; int {n}(int q) {{ return q + 1; }} process P(){{ state L0, L1; init L0; trans L0 -> L1 {{ guard {n}(1) > z; }}; }} system P;", ["E<> {n}(2) > 0"]),
    "templ": ("int z; process {n}(){{ state L0, L1; init L0; trans L0 -> L1 {{ guard z > 0; }}; }} system {n};", ["E<> {n}.L1"]),
    "proc": ("int z; process P(){{ state L0, L1; init L0; trans L0 -> L1 {{ guard z > 0; }}; }} {n} = P(); system {n};", ["E<> {n}.L1", "A[] not {n}.L0"]),
    "loc": ("int z; process P(){{ state {n}, L1; init {n}; trans {n} -> L1 {{ guard z > 0; }}; }} system P;", ["E<> P.{n}"]),
    "param": ("int z; process P(const int {n}){{ state L0, L1; init L0; trans L0 -> L1 {{ guard z > {n}; }}; }} Q = P(1); system Q;", ["E<> Q.{n} > 0"]),
    "field": ("typedef struct {{ int {n}; int o; }} S; S s; int z; process P(){{ state L0, L1; init L0; trans L0 -> L1 {{ guard s.{n} > z; assign s.{n} = 1; }}; }} system P;", ["E<> s.{n} > 0"]),
    "local": ("int z; process P(){{ int {n} = 2; state L0, L1; init L0; trans L0 -> L1 {{ guard {n} > z; }}; }} system P;", ["E<> P.{n} > 0"]),
    "select": ("int z; process P(){{ state L0, L1; init L0; trans L0 -> L1 {{ select {n} : int[0,2]; guard {n} > z; }}; }} system P;", ["E<> z > 0"]),
    "chan": ("chan {n}; int z; process P(){{ state L0, L1; init L0; trans L0 -> L1 {{ sync {n}!; }}, L1 -> L0 {{ sync {n}?; }}; }} system P;", ["E<> P.L1"]),
    "binder": ("int z; int arr[3]; process P(){{ state L0, L1; init L0; trans L0 -> L1 {{ guard forall ({n} : int[0,2]) arr[{n}] >= z; }}; }} system P;", ["E<> forall ({n} : int[0,2]) arr[{n}] > 0", "E<> sum ({n} : int[0,2]) arr[{n}] > 0"]),
}


def soft_part(c):
    """every token the extracted grammar re-admits as an identifier (NonTypeId), spelled as the scanner spells it, as a user-chosen name in every role; the verdict on
    the model and on queries over it must be the one for a fresh name"""
    gen = os.path.join(vf.lib_dir("plain"), "gen")
    lr = json.load(open(os.path.join(gen, "lr_tables.json")))
    lx = json.load(open(os.path.join(gen, "lexemes.json")))
    toks = sorted({r["rhs"][0] for r in lr["rules"] if r["lhs"] == "NonTypeId" and len(r["rhs"]) == 1} - {"T_ID"})
    soft = sorted({x for tk in toks for x in lx["lit"].get(tk, [])} | {w for w, k in lx["kw"].items() if k["tok"] in toks})
    if len(soft) < 5:
        raise vf.MachineryError("no soft keywords found in the extracted grammar / scanner tables: %s" % toks)
    jobs = []
    for n in soft:
        for role, (txt, qs) in SOFT_ROLES.items():
            for nm in (n, "rn_" + n):
                jobs.append({"id": "%s|%s|%s" % (n, role, nm), "entry": "xta", "text": txt.format(n=nm), "queries": [q.format(n=nm) for q in qs], "query_builder": "tiga", "clear_errors": True, "structure": False})
    res = vf.run_jobs(jobs, c.run_dir, variant="plain", name="soft")

    def verdict_of(r, nm, n):
        ren = lambda s: re.sub(r"(?<![A-Za-z0-9_])%s(?![A-Za-z0-9_])" % re.escape(nm), n, s)
        d = r.get("dump", {}).get("doc", {}) if r.get("dump", {}).get("outcome") == "return" else {}
        return {"main": {k: r.get("main", {}).get(k) for k in ("outcome", "ret", "exc")}, "errors": sorted(ren(e["msg"]) for e in d.get("errors", [])),
                "queries": [{"ret": q.get("ret"), "errors": sorted(ren(e["msg"]) for e in q.get("errors", [])), "props": [ren(p["s"]) for p in q.get("props", [])]} for q in r.get("queries", [])]}
    ncmp = 0
    for n in soft:
        for role in SOFT_ROLES:
            a = verdict_of(res["%s|%s|%s" % (n, role, n)], n, n)
            b = verdict_of(res["%s|%s|rn_%s" % (n, role, n)], "rn_" + n, n)
            ncmp += 1
            d = docgen.diff(b, a)
            if d:
                c.finding("c09:rename:soft-keyword:%s:%s" % (role, docgen.diff_class(d[0])),
                          "a model that names a %s `%s` gets a different verdict than the same model with the fresh name rn_%s, at %s: fresh name %s, `%s` %s" % (
                              role, n, n, d[0][0], json.dumps(d[0][1])[:150], n, json.dumps(d[0][2])[:150]),
                          {"family": "soft", "name": n, "role": role, "text": SOFT_ROLES[role][0].format(n=n), "queries": [q.format(n=n) for q in SOFT_ROLES[role][1]], "differences": d})
    c.cov["soft_keyword_names"] = soft
    c.cov["soft_keyword_cases"] = ncmp
    return ncmp


# ---- the keyword aliases under the 3.x switch (the generated universe is written in the 4.x language)
OLD_ALIAS_TEXTS = ["""int i; int j; clock x; chan c;
process P() {
    state A { x <= 5 }, B;
    init A;
    trans A -> B { guard i < 2 and not (j == 1 or i == 0), x >= 1; assign i := (j == 0 and i == 1) ? 1 : 0; },
          B -> A { guard not (i == 1) or j > 0; sync c!; }, B -> B { guard !(i == 1) || (j > 0 && i < 3); sync c?; };
}
system P;
""", """const N 2; int[0,3] r := 1; int k;
process Q(int p; const q) {
    state S, T;
    init S;
    trans S -> T { guard p < q or not (r == N), k >= 0 and k < 3; assign k := (p == 0 || !(r == 1)) ? 1 : 0; };
}
Z := Q(k, 1);
system Z;
"""]


def old_alias_part(c):
    jobs, meta = [], []
    for ti, text in enumerate(OLD_ALIAS_TEXTS):
        jobs.append({"id": "O%d" % ti, "entry": "xta", "text": text, "newxta": False})
        sites = [(m.start(), m.end(), {"and": "&&", "or": "||", "not": "!"}[m.group(0)]) for m in re.finditer(r"(?<![A-Za-z0-9_])(and|or|not)(?![A-Za-z0-9_])", text)]
        sites += [(m.start(), m.end(), {"&&": " and ", "||": " or ", "!": " not "}[m.group(0)]) for m in re.finditer(r"&&|\|\||!(?!=)", text) if text[m.end():m.end() + 1] != ";" and text[m.start() - 1:m.start()] != "c"]
        for si, (a, b, rep) in enumerate(sites):
            jobs.append({"id": "O%d_%d" % (ti, si), "entry": "xta", "text": text[:a] + rep + text[b:], "newxta": False})
            meta.append((ti, si, text[a:b], rep.strip(), a))
    res = vf.run_jobs(jobs, c.run_dir, variant="plain", name="oldalias")
    n = 0
    for ti, si, old, new, at in meta:
        v0, v1 = verdict(res["O%d" % ti]), verdict(res["O%d_%d" % (ti, si)])
        if ti not in old_alias_part.base_ok:
            old_alias_part.base_ok[ti] = not v0["errors"] if isinstance(v0, dict) and "errors" in v0 else True
        n += 1
        d = docgen.diff(v0, v1)
        if d:
            c.finding("c09:alias:3.x:%s" % docgen.diff_class(d[0]), "under the 3.x switch, writing `%s` for `%s` at offset %d of a model changes the verdict at %s: %s -> %s" % (new, old, at, d[0][0], json.dumps(d[0][1])[:150], json.dumps(d[0][2])[:150]),
                      {"family": "alias-3.x", "original_xta": OLD_ALIAS_TEXTS[ti], "site": [old, new, at], "differences": d})
    c.cov["alias_rewrites_under_3x"] = n
    return n


old_alias_part.base_ok = {}


def run(tier):
    c = vf.Check("C09", tier)
    quick = tier == "quick"
    vf.build_lib("plain")
    rnd = random.Random(c.seed)
    gen = os.path.join(vf.lib_dir("plain"), "gen")
    # ---- grammar side
    alpha = [{"t": "T_ID", "n": 0, "s": "i"}, {"t": "T_NAT", "n": 1, "s": ""}, {"t": "T_KW_AND", "n": 0, "s": ""}, {"t": "T_BOOL_AND", "n": 0, "s": ""},
             {"t": "T_KW_OR", "n": 0, "s": ""}, {"t": "T_BOOL_OR", "n": 0, "s": ""}, {"t": "T_KW_NOT", "n": 0, "s": ""}, {"t": "T_EXCLAM", "n": 0, "s": ""},
             {"t": "T_LT", "n": 0, "s": ""}, {"t": "'('", "n": 0, "s": ""}, {"t": "')'", "n": 0, "s": ""}, {"t": "T_KW_IMPLY", "n": 0, "s": ""}]
    tk = lambda t: {"t": t, "n": 0, "s": ""}
    # the query forms in which a sub-formula sits inside a production of its own: `control: A[] ( p and A<> q )` (Buechi objective), `A[ p U q ]`, `Pr[<=1](<> p)`
    deep = [("T_PROPERTY:control", [tk("T_CONTROL"), tk("':'"), tk("T_AG"), tk("'('")], [tk("T_AF"), tk("T_AG")], 5 if quick else 6),
            ("T_PROPERTY:control_until", [tk("T_CONTROL"), tk("':'"), tk("'A'"), tk("'['")], [tk("'U'"), tk("'W'"), tk("']'")], 4 if quick else 6)]
    plain = [(s, [], [tk("T_AG"), tk("T_LEADS_TO")] if s == "T_PROPERTY" else ([tk("T_ASSIGNMENT"), tk("','")] if s == "T_NEW_ASSIGN" else []), 5 if quick else 6)
             for s in (("T_NEW_GUARD", "T_NEW_ASSIGN") if quick else ("T_NEW_GUARD", "T_NEW_ASSIGN", "T_NEW_INVARIANT", "T_PROPERTY", "T_EXPRESSION"))]
    for name, prefix, extra, maxlen in plain + deep:
        start = name.split(":")[0]
        params = os.path.join(c.run_dir, "alias_%s.json" % name.replace(":", "_"))
        json.dump({"start": start, "alphabet": alpha + extra, "maxlen": maxlen, "prefix": prefix}, open(params, "w"))
        r = vf.run_tlc("AliasLR", "AliasLR.cfg", c.run_dir, env={"LR_TABLES": os.path.join(gen, "lr_tables.json"), "LR_PARAMS": params}, timeout=3000, xmx="16g", keep_out=False)
        c.add_tlc("AliasLR_" + name.replace(":", "_"), r, "AliasInvariant and ParenInvariant on every token string at %s%s" % (start, (" that begins with " + " ".join(x["t"] for x in prefix)) if prefix else ""))
        if r.violated:
            m = re.search(r"/\\ hist = (<<.*?>>)\n", r.out, re.S)
            c.finding("c09:grammar:%s:%s" % (name, r.violated), "on the grammar of the working tree, %s fails at entry %s: the keyword and symbolic spelling of an operator (or a redundant pair of parentheses) parse differently" % (r.violated, start),
                      {"entry": name, "invariant": r.violated, "tlc_trace_tail": r.out[-3000:]})
    # ---- the structural condition on the extracted grammar (no length bound): every production that spells an operator has its twin
    ar = vf.run_tlc("AliasRules", "AliasRules.cfg", c.run_dir, env={"LR_TABLES": os.path.join(gen, "lr_tables.json")}, timeout=600, keep_out=False)
    c.add_tlc("AliasRules", ar, "AliasClosed: equal precedence of the two spellings and a twin production with the same action for every production that mentions one")
    if not ar.emitted:
        raise vf.MachineryError("AliasRules.tla produced no result")
    c.cov["alias_sites_in_grammar"] = ar.emitted[0]["sites"]
    if ar.emitted[0]["sites"] < 6:
        raise vf.MachineryError("AliasRules.tla found only %d productions that spell and/or/not: the extraction or the token names changed" % ar.emitted[0]["sites"])
    if not ar.emitted[0]["samelevel"]:
        c.finding("c09:grammar:alias-precedence", "the keyword and the symbolic spelling of an operator are declared at different precedence levels in the grammar of the working tree", {"entry": "AliasRules", "result": ar.emitted[0]})
    for m in ar.emitted[0]["missing"]:
        c.finding("c09:grammar:alias-twin:%s" % m["lhs"], "the production %s -> %s spells an operator at position %d and has no twin production with the other spelling and the same action: the two spellings are not interchangeable there" % (
            m["lhs"], " ".join(m["rhs"]), m["at"]), {"entry": "AliasRules", "production": m})
    # ---- the scanner: what is inside a comment, and which separator stands between two lexemes, does not matter (Lex.tla on the extracted rules; the real scanner through the hook)
    n_scan = lexconf.run(c, quick, "C09") + soft_part(c) + old_alias_part(c)
    # ---- metamorphic replay
    models = docgen.generate(c, ["labels", "mixed"], 700 if quick else 5000, c.seed, bfs=False)
    cand = [e["m"] for e in models if faults.blocks(e["m"])]
    rnd.shuffle(cand)
    bases = [("accepted", m) for m in cand[:(120 if quick else 1500)]]
    for k, m in enumerate(cand[:(60 if quick else 700)]):
        mm = c05.inject(m, c05.FAULTS[k % len(c05.FAULTS)], rnd)
        if mm is not None:
            bases.append(("rejected:" + c05.FAULTS[k % len(c05.FAULTS)][0], mm))
    jobs, meta = [], []
    for bi, (kind, m) in enumerate(bases):
        jobs.append({"id": "M%d" % bi, "entry": "xml_buffer", "text": xmlgen.render_xml(docgen.to_xmlgen(m))})
        for ri, (fam, desc, rm) in enumerate(rewrites(m, rnd, quick)):
            pre = docgen.PREAMBLE if fam != "rename" else rename_text(docgen.PREAMBLE)
            jobs.append({"id": "R%d_%d" % (bi, ri), "entry": "xml_buffer", "text": xmlgen.render_xml(docgen.to_xmlgen(rm, preamble=pre))})
            meta.append((bi, ri, fam, desc))
    res = vf.run_jobs(jobs, c.run_dir, variant="plain", name="c09")
    byfam = {}
    ncmp = 0
    texts = {j["id"]: j["text"] for j in jobs}
    for (bi, ri, fam, desc) in meta:
        kind, m = bases[bi]
        v0 = verdict(res["M%d" % bi], rename=(fam == "rename"))
        v1 = verdict(res["R%d_%d" % (bi, ri)])
        ncmp += 1
        byfam[fam] = byfam.get(fam, 0) + 1
        d = docgen.diff(v0, v1)
        if d:
            c.finding("c09:%s:%s:%s" % (fam, kind.split(":")[0], docgen.diff_class(d[0])),
                      "rewrite [%s] %s of a %s model changes the verdict at %s: %s -> %s" % (fam, desc, kind, d[0][0], json.dumps(d[0][1])[:150], json.dumps(d[0][2])[:150]),
                      {"family": fam, "site": desc, "kind": kind, "original_xml": texts["M%d" % bi], "rewritten_xml": texts["R%d_%d" % (bi, ri)], "differences": d})
    c.cov["traces_validated_against_impl"] = ncmp + n_scan
    c.cov["evaluations"] = ncmp + n_scan
    c.cov["distinct_nontrivial"] = ncmp
    c.cov["rewrites_by_family"] = byfam
    c.cov["base_models"] = len(bases)
    c.cov["rule"] = "rewrite sites of DocGen models (accepted and rejected by an injected semantic fault): parentheses, layout, alias, renaming; non-trivial = every rewritten model (it differs textually from its original)"
    if meta:
        bi, ri, fam, desc = meta[len(meta) // 2]
        c.sample({"family": fam, "site": desc})
    c.assumptions += ["TLC 1.8.0", "the rewrites of checks/c09.py preserve meaning (operands are wrapped only where a parenthesised operand is the same program: not call targets, indexed names, lvalues of ++/--/assignment, binder names)",
                      "renaming uses fresh names with prefix rn_ (no reserved word, no single-letter path-quantifier token)"]
    return c.finish()


def replay(path):
    rec0 = json.load(open(path))["replay"]
    if rec0.get("entry") == "scan_run":
        return lexconf.replay(vf.Check("C09", "quick"), rec0)
    rec = json.load(open(path))["replay"]
    c = vf.Check("C09", "quick")
    if "original_xml" not in rec:
        print(rec.get("tlc_trace_tail", ""))
        return 1
    res = vf.run_jobs([{"id": "a", "entry": "xml_buffer", "text": rec["original_xml"]}, {"id": "b", "entry": "xml_buffer", "text": rec["rewritten_xml"]}], c.run_dir, variant="plain")
    print(json.dumps(docgen.diff(verdict(res["a"], rename=rec["family"] == "rename"), verdict(res["b"])), indent=1))
    return 1
