"""C18 — range_t interval operations agree with their set semantics.
Range.tla: TLC checks Members(lo,hi) = r (set semantics) for the transcribed header formulas over all
behaviours within bounds, exports every transition; replay_range executes each transition on the real
range_t<int8_t/int16_t/int32_t/double> under order/adjacency-preserving embeddings (incl. type ends, +-inf)."""
import json, os
import vf

def run(tier):
    c = vf.Check("C18", tier)
    quick = tier == "quick"
    # 1. design level: exhaustive model check
    mc = vf.run_tlc("Range", "Range_mc.cfg" if quick else "Range_mc_thorough.cfg", c.run_dir, coverage=True,
                    timeout=3000)
    c.add_tlc("Range_mc", mc, "invariants Agree, QueriesAgree")
    if mc.violated:
        # the transcription of range.h violates the set semantics at spec level; report after replay confirms
        vf.log("Range_mc: invariant %s violated at spec level" % mc.violated)
    unexercised = [a for a, (t, g) in mc.coverage.items() if g == 0 and a not in ("Query",)]
    if unexercised:
        raise vf.MachineryError("vacuous Range_mc: actions never generated: %s" % unexercised)
    # 2. generate transitions
    gen = vf.run_tlc("Range", "Range_gen.cfg" if quick else "Range_gen_thorough.cfg", c.run_dir, timeout=3000)
    c.add_tlc("Range_gen", gen, "exports every distinct transition (EMIT)")
    seen, cases = set(), []
    for r in gen.emitted:
        k = json.dumps(r, sort_keys=True)
        if k not in seen:
            seen.add(k); cases.append(r)
    cases_path = os.path.join(c.run_dir, "cases.ndjson")
    vf.write_ndjson(cases_path, cases)
    # 3. replay into the real code (sanitizer build: signed overflow / UB in range.h is observed too)
    exe = vf.build_harness("replay_range", "asan")
    outp = os.path.join(c.run_dir, "replay.ndjson")
    p = vf.sh([exe, cases_path, outp], timeout=3000, check=False,
              env={"UBSAN_OPTIONS": "print_stacktrace=1:halt_on_error=0", "ASAN_OPTIONS": "detect_leaks=0"})
    res = vf.read_ndjson(outp)
    summ = [r for r in res if r.get("summary")]
    if p.returncode != 0 or not summ:
        raise vf.MachineryError("replay_range failed rc=%s: %s" % (p.returncode, (p.stdout or "")[-2000:]))
    summ = summ[0]
    if "runtime error" in (p.stdout or ""):
        first = [l for l in p.stdout.splitlines() if "runtime error" in l][0]
        c.finding("range:ubsan:" + first.split("runtime error:")[1].strip()[:60], "undefined behaviour in range.h: " + first, {"stderr": p.stdout[-3000:]})
    for f in res:
        if f.get("fail"):
            rec = f["rec"]
            key = "range:%s:%s%s" % (f["variant"].split("/")[0], rec["op"], "E" if len(rec["arg"]) == 1 else "R")
            c.finding(key, "range_t %s: %s pre=%s arg=%s expected=%s: %s" % (
                f["variant"], rec["op"], rec["pre"], rec["arg"], rec.get("post", rec.get("res")), f["what"]),
                {"record": rec, "variant": f["variant"], "how": "bin/check C18 --replay <this file>"})
    if mc.violated and not c.violations and not c.known_hit:
        raise vf.MachineryError("Range.tla's transcription violates %s but the real range_t passed every replayed "
                                "transition: the transcription is stale; update Range.tla" % mc.violated)
    c.cov["traces_validated_against_impl"] = summ["executions"]
    c.cov["evaluations"] = summ["executions"]
    c.cov["distinct_nontrivial"] = len(cases)
    c.cov["rule"] = ("every distinct transition (pre-interval, call, argument, expected result set) of Range.tla's state "
                     "graph; each executed on range_t<int8_t,int16_t,int32_t,double> under identity, type-top, type-bottom "
                     "translations and (double) ulp-step embeddings incl. +-inf; result overflow => skipped (%d)" % summ["skipped"])
    c.cov["exhaustive"] = True
    for r in cases[:3] + cases[len(cases)//2: len(cases)//2 + 2] + cases[-2:]:
        c.sample(r)
    c.assumptions += ["TLC 1.8.0", "embeddings in harness/replay_range.cpp are order/adjacency preserving",
                      "bounds: operands over -4..4 (mc) / -3..3 (replayed), <=3 (mc) / <=2 (replayed) mutating calls"]
    return c.finish()

def replay(path):
    rec = json.load(open(path))["replay"]
    c = vf.Check("C18", "quick")
    cases_path = os.path.join(c.run_dir, "cases.ndjson")
    vf.write_ndjson(cases_path, [rec["record"]])
    exe = vf.build_harness("replay_range", "asan")
    outp = os.path.join(c.run_dir, "replay.ndjson")
    vf.sh([exe, cases_path, outp], timeout=600)
    bad = [r for r in vf.read_ndjson(outp) if r.get("fail")]
    for b in bad: print(json.dumps(b))
    return 1 if bad else 0
