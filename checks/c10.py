"""C10 — only convex clock constraints are accepted as guards and invariants.
TypeClass.tla: (1) stack machine over abstract values, TLC fixpoint: accepted => convex for formulas of every depth;
(2) all concrete trees to depth 2 with Convex (property) and the transcribed class; each rendered as guard and as
invariant and type-checked by the real library; verdicts compared with Convex (the property) and with the transcription."""
import json, os
import vf, batch

RELOP = {"lt": "<", "le": "<=", "gt": ">", "ge": ">=", "eq": "==", "ne": "!="}


def leaf(l):
    op, od, orr = l
    if op == "p":
        return "i < 3"
    if op == "b":
        return "b"
    operand = "x" if od == "c" else "x - y"
    return "%s %s 3" % (operand, RELOP[op]) if orr == "l" else "3 %s %s" % (RELOP[op], operand)


BIN = {"and": "&&", "or": "||", "imply": "imply", "xor": "xor", "eqq": "==", "neq": "!="}
DECL = "clock x, y;\nint i;\nbool b;\n"
RANK = {"BOOL": 0, "INV": 1, "GUARD": 2, "CONSTR": 3, "ERR": 9}


def render(t, depth=0):
    if len(t) == 1:
        return leaf(t[0])
    if len(t) == 2:
        a = render(t[1], depth + 1)
        if t[0] == "not":
            return "!(%s)" % a
        return "%s (k%d : int[0,1]) (%s)" % (t[0], depth, a)
    return "(%s) %s (%s)" % (render(t[1], depth + 1), BIN[t[0]], render(t[2], depth + 1))


def run(tier):
    c = vf.Check("C10", tier)
    quick = tier == "quick"
    mc = vf.run_tlc("TypeClass", "TypeClass_mc.cfg", c.run_dir, coverage=True, timeout=1200)
    c.add_tlc("TypeClass_mc", mc, "stack machine, invariants SoundGuard SoundInv CompleteConj (all depths, stack<=4)")
    if mc.violated:
        vf.log("TypeClass_mc: %s violated at spec level (the transcribed rules are unsound); replay decides" % mc.violated)
    for a in ("PushLeaf", "ApplyUn", "ApplyBin"):
        if mc.coverage.get(a, (0, 0))[1] == 0:
            raise vf.MachineryError("vacuous TypeClass_mc: %s never taken" % a)
    outf = os.path.join(c.run_dir, "trees.ndjson")
    gen = vf.run_tlc("TypeClassGen", "TypeClass_gen.cfg" if quick else "TypeClass_gen_thorough.cfg", c.run_dir,
                     env={"OUTF": outf}, timeout=3000, xmx="16g")
    c.add_tlc("TypeClass_gen", gen, "ASSUME TreeSound over all trees; export")
    trees = vf.read_ndjson(outf)
    if os.path.exists(outf + ".spines"):
        trees += vf.read_ndjson(outf + ".spines")        # FullLeaves: depth-1 trees over 12 leaf spellings extended by one more leaf / unary operator
    cases = []
    for n, tr in enumerate(trees):
        txt = render(tr["t"])
        cases.append({"id": "g%d" % n, "role": "guard", "text": txt, "n": n})
        cases.append({"id": "v%d" % n, "role": "inv", "text": txt, "n": n})
        if len(json.dumps(tr["t"])) < 60 or n % 9 == 0:          # the invariant of an urgent / a committed location is an invariant like any other
            cases.append({"id": "u%d" % n, "role": "inv", "flag": "urgent", "text": txt, "n": n})
            cases.append({"id": "w%d" % n, "role": "inv", "flag": "committed", "text": txt, "n": n})
    jobs, index = batch.make_batches(cases, DECL, per=150)
    res = vf.run_jobs(jobs, c.run_dir, variant="plain" if not quick else "plain")
    v, stray, crashed = batch.verdicts(res, index, cases)
    if crashed:
        jid, r = next(iter(crashed.items()))
        raise vf.MachineryError("scaffold parse failed in %d batches, e.g. %s: %s" % (len(crashed), jid, json.dumps(r)[:1500]))
    if stray:
        raise vf.MachineryError("diagnostics not attributable to a case: %s" % stray[:3])
    drift = 0
    drift_samples = []
    nontrivial = 0
    for cs in cases:
        tr = trees[cs["n"]]
        role = cs["role"]
        accepted = not v[cs["id"]]
        if tr["clk"]:
            nontrivial += 1
        rep = {"role": role, "expr": cs["text"], "tree": tr["t"], "convex": tr["cvx"], "accepted_by_libutap": accepted,
               "diagnostics": v[cs["id"]], "scaffold_decl": DECL}
        if accepted and not tr["cvx"]:
            c.finding("c10:%s:nonconvex-accepted:%s" % (role, json.dumps(tr["t"])),
                      "non-convex %s accepted: %s" % (role, cs["text"]), rep)
        atoms_ok = tr["atomsg"] if role == "guard" else tr["atomsi"]
        if tr["conj"] and atoms_ok and not accepted:
            c.finding("c10:%s:conjunction-rejected:%s" % (role, json.dumps(tr["t"])),
                      "plain conjunction of accepted atoms rejected as %s: %s (%s)" % (role, cs["text"], v[cs["id"]][:1]), rep)
        impl = RANK[tr["cls"]] <= (2 if role == "guard" else 1)
        if impl != accepted:
            drift += 1
            if len(drift_samples) < 5:
                drift_samples.append(rep)
    if mc.violated and not c.violations and not c.known_hit:
        raise vf.MachineryError("TypeClass.tla violates %s but libutap rejected every non-convex replayed formula: transcription stale" % mc.violated)
    c.cov["traces_validated_against_impl"] = len(cases)
    c.cov["evaluations"] = len(cases)
    c.cov["distinct_nontrivial"] = nontrivial
    c.cov["rule"] = "every formula tree to depth 2 over leaf classes x connectives {not,forall,exists,and,or,imply,xor,==,!=}, as guard and as invariant; non-trivial = contains a clock comparison"
    c.cov["exhaustive"] = True
    c.cov["transcription_mismatches"] = drift
    c.cov["transcription_mismatch_samples"] = drift_samples
    if drift:
        print("NOTE property=C10 TypeClass.tla's transcription of typechecker.cpp disagrees with libutap on %d/%d cases "
              "(no property violation; update the transcription)" % (drift, len(cases)))
    for cs in cases[:2] + cases[len(cases)//2:len(cases)//2+3] + cases[-2:]:
        c.sample({"role": cs["role"], "expr": cs["text"], "convex": trees[cs["n"]]["cvx"], "accepted": not v[cs["id"]]})
    c.assumptions += ["TLC 1.8.0", "Convex as defined in TypeClass.tla from the property statement", "python renderer checks/c10.py:render (full parenthesisation)",
                      "replayed trees: depth<=2; deeper formulas covered at spec level by the abstract stack machine only"]
    return c.finish()


def replay(path):
    rec = json.load(open(path))["replay"]
    c = vf.Check("C10", "quick")
    cases = [{"id": "c0", "role": rec["role"], "text": rec["expr"]}]
    jobs, index = batch.make_batches(cases, DECL)
    res = vf.run_jobs(jobs, c.run_dir, variant="plain")
    v, stray, crashed = batch.verdicts(res, index, cases)
    accepted = not v["c0"]
    print(json.dumps({"expr": rec["expr"], "role": rec["role"], "convex": rec["convex"], "accepted": accepted, "diagnostics": v["c0"]}))
    return 1 if (accepted and not rec["convex"]) else 0
