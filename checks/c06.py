"""C06 — every diagnostic points into the element, line and columns that caused it.
Positions.tla: the position bookkeeping of lexer.l / PositionTracker / position_index_t as a state machine over layout items
(tokens, blanks, "\n"+, "\r\n"+, block comments spanning lines, line comments, line continuations) with ghost line/column
counters kept by definition; TLC checks PositionsRight on all layouts up to a length and exports them. Each layout is
written as real text (a guard label inside a model, and the same bytes handed to parse_XTA directly), one operand at a
time is replaced by an undeclared identifier, and libutap's diagnostic must carry exactly the label's XPath and the line
and column range Positions.tla computes.
Fault universe (lib/faults.py over DocGen models: every fault class at every token position of every label, of the
parameter, declaration and system blocks): every diagnostic's XPath must select exactly one element of an independent DOM
(python expat), its lines must lie in that element's text, columns inside those lines, start not after end; a faulted
block gets at least one error; for non-declaring labels every error is attributed to the label; for undeclared-identifier
faults some error covers exactly the identifier."""
import json, os, random, re
import xml.etree.ElementTree as ET
import vf, docgen, xmlgen, faults, readerconf


def render_layout(items, fault_tok=None):
    """-> (text, [(tok index, line, col, n)]) ; tok items are `+i` / `+abc` (unary/binary plus + operand)"""
    out, ntok = [], 0
    for it in items:
        k = it["k"]
        if k == "tok":
            ntok += 1
            ident = ("i" if it["n"] == 2 else "abc")
            if fault_tok == ntok:
                ident = "q" * len(ident)
            out.append("+" + ident)
        elif k == "sp":
            out.append(" ")
        elif k == "nl":
            out.append("\n" * it["n"])
        elif k == "crlf":
            out.append("\r\n" * it["n"])
        elif k == "cmt":
            out.append("/*a" + "\n" * it["n"] + "*/")
        elif k == "lcmt":
            out.append("// x")
        elif k == "cont":
            out.append("\\\n")
    return "".join(out)


def xml_escape_cr(s):
    return s.replace("\r", "&#13;")


def resolve(root, path):
    """XPath of the form /nta/template[1]/location[2]/label[1] on an ElementTree -> list of matching elements"""
    if not path.startswith("/"):
        return []
    segs = path.strip("/").split("/")
    cur = [root] if segs and re.sub(r"\[\d+\]", "", segs[0]) == root.tag else []
    for s in segs[1:]:
        m = re.match(r"^(\w+)(?:\[(\d+)\])?$", s)
        if not m:
            return []
        nxt = []
        for el in cur:
            kids = [ch for ch in el if ch.tag == m.group(1)]
            if m.group(2):
                k = int(m.group(2))
                nxt += kids[k - 1:k]
            else:
                nxt += kids
        cur = nxt
    return cur


def check_diag(c, e, root, xml_text, what, rep, plain_text=None):
    """the per-diagnostic clauses of the statement; returns the element text lines (or None)"""
    path = e["path"]
    if plain_text is not None:
        if path != "":
            c.finding("c06:path-on-plain-text", "diagnostic `%s` of plain-text input carries the path %s" % (e["msg"], path), rep)
            return None
        text = plain_text
    else:
        els = resolve(root, path)
        if len(els) != 1:
            c.finding("c06:xpath:%s" % what, "diagnostic `%s` carries the path `%s`, which selects %d elements of the input" % (e["msg"], path, len(els)), rep)
            return None
        text = els[0].text or ""
    lines = text.split("\n")
    if not e["known"]:
        c.finding("c06:unknown-position:%s" % what, "diagnostic `%s` has no usable position (%s)" % (e["msg"], e["str"]), rep)
        return None
    for tag, ln, col in (("start", e["sl"], e["sc"]), ("end", e["el"], e["ec"])):
        if not (1 <= ln <= max(1, len(lines))):
            c.finding("c06:line-outside:%s" % what, "diagnostic `%s`: %s line %d is outside the %d line(s) of %s" % (e["msg"], tag, ln, len(lines), path or "the input"), rep)
            return None
        width = len(lines[ln - 1]) if ln - 1 < len(lines) else 0
        if not (0 <= col <= max(width, 1)):
            c.finding("c06:column-outside:%s" % what, "diagnostic `%s`: %s column %d is outside line %d (%d characters) of %s" % (e["msg"], tag, col, ln, width, path or "the input"), rep)
            return None
    if (e["sl"], e["sc"]) > (e["el"], e["ec"]):
        c.finding("c06:start-after-end:%s" % what, "diagnostic `%s` starts after it ends (%d:%d > %d:%d)" % (e["msg"], e["sl"], e["sc"], e["el"], e["ec"]), rep)
    return lines


def ident_position(text, tokidx):
    tk = faults.tokens(text)[tokidx]
    before = text[:tk[1]]
    line = before.count("\n") + 1
    col = len(before) - (before.rfind("\n") + 1)
    return line, col, col + (tk[2] - tk[1])


def run(tier):
    c = vf.Check("C06", tier)
    quick = tier == "quick"
    vf.build_lib("plain")
    rnd = random.Random(c.seed)
    # ---- A. Positions.tla layouts
    cfg = os.path.join(c.run_dir, "Positions.cfg")
    open(cfg, "w").write("CONSTANTS\n  MaxItems = %d\nINIT Init\nNEXT Next\nINVARIANTS PositionsRight IndexMonotone EmitLayout\nCHECK_DEADLOCK FALSE\n" % (4 if quick else 5))
    mc = vf.run_tlc("Positions", cfg, c.run_dir, timeout=1500, keep_out=False)
    c.add_tlc("Positions", mc, "PositionsRight and IndexMonotone on every layout")
    layouts = mc.emitted
    rnd.shuffle(layouts)
    layouts = layouts[:1500 if quick else 20000]
    decl = "int i; int abc; clock x;"
    jobs, lmeta = [], []
    for n, lay in enumerate(layouts):
        for t in lay["toks"]:
            tokno = 1 + sum(1 for q in lay["toks"] if q["item"] < t["item"])
            text = render_layout(lay["items"], fault_tok=tokno)
            m = {"decl": decl, "templates": [{"name": "T", "locations": [{"id": "id0", "name": "A"}], "init": "id0", "edges": [{"src": "id0", "dst": "id0", "guard": text + " > 0"}]}], "system": "system T;"}
            x = xml_escape_cr(xmlgen.render_xml(m))
            exp = (t["tline"], t["tcol"] + 1, t["tcol"] + t["n"])
            jobs.append({"id": "LX%d_%d" % (n, tokno), "entry": "xml_buffer", "text": x, "structure": False})
            jobs.append({"id": "LP%d_%d" % (n, tokno), "entry": "part", "part": "S_GUARD", "text": text + " > 0", "scaffold": decl, "builtins": False, "structure": False})
            if "\n" not in text and "\r" not in text:
                # the same text inside a query (plain-text input, query syntax of the scanner): `E<> ` in front moves the columns by four
                jobs.append({"id": "LQ%d_%d" % (n, tokno), "entry": "xta", "text": decl + " process T(){ state A; init A; } system T;", "queries": ["E<> " + text + " > 0"], "query_builder": "property", "structure": False})
            lmeta.append((n, tokno, text, exp))
    # ---- B. fault universe over DocGen models
    models = docgen.generate(c, ["labels", "mixed"], 800 if quick else 6000, c.seed, bfs=False)
    cand = [e["m"] for e in models if faults.blocks(e["m"])]
    rnd.shuffle(cand)
    fcases = []
    budget = 6000 if quick else 80000
    layouts_txt = ["%s", "\n\n%s", "  %s  \n", "/* c\n c */ %s", "// l\n%s", "%s // t", "/* c\n\n\n c */\n%s", "%s\n/* t\n\n*/"]
    for m in cand:
        if len(fcases) >= budget:
            break
        for b in faults.blocks(m) + faults.decl_blocks(m):
            text = faults.get_text(m, b)
            fs = faults.single_faults(text, b[0])
            if b[0] in faults.DECLARING:
                # in a declaring block only faults that certainly break the block itself: deleting or renaming a declaration leaves a
                # valid block whose errors rightly appear where the declared name is used
                fs = [f for f in fs if f[0] in ("stray-symbol", "unbalanced", "dangling-operator", "stray-paren")]
            if len(fs) > (12 if quick else 40):
                fs = rnd.sample(fs, 12 if quick else 40)
            for fc, pos, ftext in fs:
                if not ftext.strip() or ftext == text:
                    continue
                lay = rnd.choice(layouts_txt) if b[0] != "params" else "%s"
                if b[0] == "sync" and faults.is_csp_sync(ftext):
                    continue
                fcases.append((m, b, fc, pos, text, ftext, lay))
    for n, (m, b, fc, pos, text, ftext, lay) in enumerate(fcases):
        mm = faults.set_text(m, b, lay % ftext)
        jobs.append({"id": "F%d" % n, "entry": "xml_buffer", "text": xmlgen.render_xml(docgen.to_xmlgen(mm), comments=n % 3), "structure": False})      # a third of the documents with an empty, a third with a filled comments label in front
    # plain-text input: the XTA rendering with a fault in one label
    xcases = []
    for m in cand[:150 if quick else 1500]:
        bs = faults.blocks(m, ("guard", "asg", "inv"))
        if not bs:
            continue
        b = rnd.choice(bs)
        text = faults.get_text(m, b)
        fs = [f for f in faults.single_faults(text, b[0]) if f[0] in ("undeclared", "stray-symbol", "delete", "wrong-type")]
        if not fs:
            continue
        fc, pos, ftext = rnd.choice(fs)
        xta = docgen.render_xta(faults.set_text(m, b, ftext))
        xcases.append((m, b, fc, ftext, xta))
        jobs.append({"id": "X%d" % len(xcases), "entry": "xta", "text": xta, "structure": False})
    res = vf.run_jobs(jobs, c.run_dir, variant="plain", name="c06")
    # ---- decide A
    nlay = 0
    for (n, tokno, text, exp) in lmeta:
        for tag in ("LX", "LP"):
            r = res["%s%d_%d" % (tag, n, tokno)]
            rep = {"layout": layouts[n]["items"], "token": tokno, "text": text + " > 0", "via": "xml label" if tag == "LX" else "parse_XTA(S_GUARD)", "expected": {"line": exp[0], "col": exp[1], "ecol": exp[2]}}
            if r.get("main", {}).get("outcome") != "return" or r.get("dump", {}).get("outcome") != "return":
                continue        # C01 decides crashes
            errs = r["dump"]["doc"]["errors"]
            unk = [e for e in errs if "nknown_identifier" in e["msg"] or "qq" in e["msg"] or e["msg"].endswith(" q")]
            nlay += 1
            got = [(e["sl"], e["sc"], e["ec"]) for e in errs]
            if exp not in got:
                c.finding("c06:layout:%s" % "-".join(sorted({it["k"] for it in layouts[n]["items"]})),
                          "the undeclared identifier at line %d columns %d..%d of `%s` is reported at %s (%s)" % (exp[0], exp[1], exp[2], (text + " > 0").replace("\n", "\\n").replace("\r", "\\r"), got, tag),
                          dict(rep, got=[(e["msg"], e["path"], e["sl"], e["sc"], e["el"], e["ec"]) for e in errs]))
            if tag == "LX":
                for e in errs:
                    if e["path"] != "/nta/template[1]/transition[1]/label[1]":
                        c.finding("c06:layout-path", "the diagnostic of a faulted guard carries the path `%s`" % e["path"], rep)
    nq = 0
    for (n, tokno, text, exp) in lmeta:
        r = res.get("LQ%d_%d" % (n, tokno))
        if r is None or not r.get("queries") or r["queries"][0].get("outcome") != "return":
            continue
        nq += 1
        errs = r["queries"][0]["errors"]
        got = [(e["sl"], e["sc"], e["ec"]) for e in errs]
        want = (exp[0], exp[1] + 4, exp[2] + 4)
        if want not in got or any(e["path"] for e in errs):
            c.finding("c06:layout-query:%s" % "-".join(sorted({it["k"] for it in layouts[n]["items"]})),
                      "the undeclared identifier at line %d columns %d..%d of the query `E<> %s > 0` is reported at %s (paths %s)" % (want[0], want[1], want[2], text, got, sorted({e["path"] for e in errs})),
                      {"layout": layouts[n]["items"], "token": tokno, "query": "E<> " + text + " > 0", "expected": want, "got": [(e["msg"], e["path"], e["sl"], e["sc"], e["el"], e["ec"]) for e in errs]})
    c.cov["layout_cases_as_queries"] = nq
    # ---- decide B
    nf = ndiag = 0
    by_class = {}
    for n, (m, b, fc, pos, text, ftext, lay) in enumerate(fcases):
        r = res["F%d" % n]
        if r.get("main", {}).get("outcome") != "return" or r.get("dump", {}).get("outcome") != "return":
            continue
        x = jobs[[j["id"] for j in jobs].index("F%d" % n)]["text"] if False else None
        doc = r["dump"]["doc"]
        path = faults.block_path(m, b)
        if n % 3 and "/label[" in path:
            path = re.sub(r"/label\[(\d+)\]$", lambda mo: "/label[%d]" % (int(mo.group(1)) + 1), path)       # the comments label comes first
        xml_text = xmlgen.render_xml(docgen.to_xmlgen(faults.set_text(m, b, lay % ftext)), comments=n % 3)
        root = ET.fromstring(xml_text.split("?>", 1)[1].split(">", 1)[1] if xml_text.startswith("<?xml") and "<!DOCTYPE" in xml_text else xml_text)
        rep = {"model": m, "block": list(b), "path": path, "fault": fc, "token": pos, "original": text, "faulted": lay % ftext, "xml": xml_text}
        nf += 1
        by_class[fc] = by_class.get(fc, 0) + 1
        for e in doc["errors"] + doc["warnings"]:
            ndiag += 1
            check_diag(c, e, root, xml_text, b[0], dict(rep, diagnostic=[e["msg"], e["path"], e["sl"], e["sc"], e["el"], e["ec"]]))
        errs = doc["errors"]
        if errs:
            inside = [e for e in errs if e["path"] == path]
            if not inside:
                c.finding("c06:no-error-in-block:%s:%s" % (b[0], fc), "a %s fault in the %s label `%s` is reported only elsewhere: %s" % (fc, b[0], lay % ftext, [(e["msg"], e["path"]) for e in errs][:3]), rep)
            elif b[0] not in ("sel",) + faults.DECLARING and len(inside) != len(errs):
                out = [(e["msg"], e["path"]) for e in errs if e["path"] != path]
                c.finding("c06:error-outside-block:%s:%s" % (b[0], fc), "a %s fault in the %s label `%s` also produces errors attributed elsewhere: %s" % (fc, b[0], lay % ftext, out[:3]), rep)
            if fc == "undeclared":
                full = lay % ftext
                off = full.index(ftext)
                line, col, ecol = ident_position(full, len(faults.tokens(full[:off])) + pos)
                if (line, col, ecol) not in [(e["sl"], e["sc"], e["ec"]) for e in inside]:
                    c.finding("c06:undeclared-range:%s" % b[0], "the undeclared identifier at line %d columns %d..%d of the %s label `%s` is reported at %s" % (
                        line, col, ecol, b[0], full.replace("\n", "\\n"), [(e["sl"], e["sc"], e["el"], e["ec"]) for e in inside]), rep)
    nx = 0
    for k, (m, b, fc, ftext, xta) in enumerate(xcases):
        r = res["X%d" % (k + 1)]
        if r.get("main", {}).get("outcome") != "return" or r.get("dump", {}).get("outcome") != "return":
            continue
        nx += 1
        for e in r["dump"]["doc"]["errors"] + r["dump"]["doc"]["warnings"]:
            ndiag += 1
            check_diag(c, e, None, None, "xta", {"xta": xta, "fault": fc, "faulted": ftext, "diagnostic": [e["msg"], e["path"], e["sl"], e["sc"], e["el"], e["ec"]]}, plain_text=xta)
    # ---- B2. the repository's LSC model: one fault in every message / condition / update label and in the instance names
    lsc_path = os.path.join(vf.REPO, "test/models/lsc_example.xml")
    nlsc = 0
    if os.path.exists(lsc_path):
        base = open(lsc_path).read()
        ljobs = []
        for mm in re.finditer(r'(<label kind="(message|condition|update)"[^>]*>)([^<]*)(</label>)', base):
            for fc, ftext in (("undeclared", "nosuch_zz"), ("stray-symbol", mm.group(3) + " @"), ("dangling-operator", mm.group(3) + " +")):
                ljobs.append({"id": "L%d" % len(ljobs), "entry": "xml_buffer", "text": base[:mm.start(3)] + ftext + base[mm.end(3):], "structure": False, "fault": fc, "kind": mm.group(2)})
        lres = vf.run_jobs(ljobs, c.run_dir, variant="plain", name="c06lsc")
        for j in ljobs:
            r = lres[j["id"]]
            if r.get("main", {}).get("outcome") != "return" or r.get("dump", {}).get("outcome") != "return":
                continue
            nlsc += 1
            body = j["text"].split("?>", 1)[1]
            body = body[body.index("<nta"):]
            root = ET.fromstring(body)
            for e in r["dump"]["doc"]["errors"] + r["dump"]["doc"]["warnings"]:
                ndiag += 1
                check_diag(c, e, root, j["text"], "lsc-" + j["kind"], {"xml": j["text"], "fault": j["fault"], "diagnostic": [e["msg"], e["path"], e["sl"], e["sc"], e["el"], e["ec"]]})
    c.cov["lsc_fault_cases"] = nlsc
    # ---- C. every path the real reader hands to setPath, on the base document and all its structural mutations, names exactly one element
    rc = readerconf.run(c, quick, variant="plain")
    npaths = 0
    for x in rc:
        if x["what"].replace("lsc: ", "").startswith(("duplicate", "wrap-unknown")) and not x["what"].endswith(":lsc"):
            continue      # the reader's paths carry no index for elements that occur once in a well-formed document (declaration, system, name ...)
        for (kind, p) in x["real"]:
            if kind == "path":
                npaths += 1
                if not readerconf.xpath_selects_one(x["xml"], p):
                    c.finding("c06:setpath-xpath:%s" % x["what"].split(" ")[0], "on a document with the mutation [%s] the reader attributes positions to `%s`, which does not select exactly one element" % (x["what"], p),
                              {"xml": x["xml"], "mutation": x["what"], "path": p})
    c.cov["reader_paths_checked"] = npaths
    c.cov["traces_validated_against_impl"] = nlay + nf + nx
    c.cov["evaluations"] = nlay + nf + nx
    c.cov["distinct_nontrivial"] = nf + len(layouts)
    c.cov.update({"layout_cases": nlay, "fault_cases": nf, "xta_cases": nx, "diagnostics_checked": ndiag, "by_fault_class": by_class})
    c.cov["rule"] = "layouts = terminal states of Positions.tla (each operand replaced in turn by an undeclared identifier, as XML label and as direct block); faults = lib/faults.py classes at every token position of labels of DocGen models, wrapped in 6 layouts; non-trivial = a faulted block whose diagnostics were all checked"
    if lmeta:
        c.sample({"layout": layouts[lmeta[0][0]]["items"], "text": lmeta[0][2], "expected": lmeta[0][3]})
    c.assumptions += ["TLC 1.8.0", "python expat (ElementTree) is the independent DOM; XPath subset /a/b[k]/c", "columns are 0-based offsets in the line, as error_t computes them"]
    return c.finish()


def replay(path):
    rec = json.load(open(path))["replay"]
    c = vf.Check("C06", "quick")
    if "xml" in rec:
        j = {"id": "r", "entry": "xml_buffer", "text": rec["xml"], "structure": False}
    elif "xta" in rec:
        j = {"id": "r", "entry": "xta", "text": rec["xta"], "structure": False}
    else:
        j = {"id": "r", "entry": "part", "part": "S_GUARD", "text": rec["text"], "scaffold": "int i; int abc; clock x;", "builtins": False, "structure": False}
    r = vf.run_jobs([j], c.run_dir, variant="plain")["r"]
    print(json.dumps([(e["msg"], e["path"], e["sl"], e["sc"], e["el"], e["ec"]) for e in r["dump"]["doc"]["errors"]], indent=1))
    return 1
