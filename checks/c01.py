"""C01 — no input crashes, corrupts memory or hangs any parsing entry point.
Spec side (TLC):
  LRDepth.tla  = LR.tla (bison automaton of the working tree's parser.y, all 29 start tokens) x BuilderDepth.tla: every token
                 string up to a bound per entry point with full error recovery; NoUnderflow / Residue0 candidates and a
                 sample of all terminal behaviours are exported;
  XmlFaults.tla = structural fault universe of XML documents + AttrPresent (how every attribute access treats null);
  Lexer.tla     = bounded copy of lexemes into the 4001-byte token buffer (Bounded), cases around the limit.
Binding: every exported case is rendered to bytes and run through the real entry points in the ASan/UBSan build
(parse_XML_buffer / _file / _fd, parse_XTA whole and per part, parseProperty) x newxta in {true,false} x back end in
{DocumentBuilder + TypeChecker + FeatureChecker, PropertyBuilder / TigaPropertyBuilder, PrettyPrinter}. Oracle = the
statement: the call returns or throws a std::exception; any signal, sanitizer report, non-std exception, abort or
time-out is a violation. Lexer cases additionally compare the stored lexeme length and the diagnostic with Lexer.tla.
Repeatable constructs are scaled (N, 4N) to observe time out of proportion and unbounded recursion."""
import copy, glob, json, os, random, re
import xml.etree.ElementTree as ET
import vf, docgen, xmlgen, lrconf, readerconf

EXPR_ALPHA = [("T_ID", 0, "i"), ("T_NAT", 1, ""), ("'('", 0, ""), ("')'", 0, ""), ("'['", 0, ""), ("']'", 0, ""), ("','", 0, ""), ("T_PLUS", 0, ""),
              ("T_LT", 0, ""), ("'?'", 0, ""), ("':'", 0, ""), ("T_EXCLAM", 0, ""), ("T_ASSIGNMENT", 0, ""), ("T_FORALL", 0, ""), ("T_INT", 0, ""), ("T_ERROR", 0, ""),
              ("'.'", 0, ""), ("T_INCREMENT", 0, ""), ("'\\''", 0, "")]
DECL_ALPHA = [("T_INT", 0, ""), ("T_ID", 0, "v"), ("T_TYPENAME", 0, "id_t"), ("T_ASSIGNMENT", 0, ""), ("';'", 0, ""), ("','", 0, ""), ("'['", 0, ""), ("']'", 0, ""),
              ("'{'", 0, ""), ("'}'", 0, ""), ("'('", 0, ""), ("')'", 0, ""), ("T_NAT", 2, ""), ("T_CONST", 0, ""), ("T_TYPEDEF", 0, ""), ("T_STRUCT", 0, ""),
              ("T_RETURN", 0, ""), ("T_CLOCK", 0, ""), ("T_CHAN", 0, ""), ("'&'", 0, "")]
SYS_ALPHA = [("T_SYSTEM", 0, ""), ("T_ID", 0, "T"), ("','", 0, ""), ("';'", 0, ""), ("T_LT", 0, ""), ("T_ASSIGNMENT", 0, ""), ("'('", 0, ""), ("')'", 0, ""), ("T_NAT", 1, ""),
             ("T_INT", 0, ""), ("T_PROCESS", 0, ""), ("'{'", 0, ""), ("'}'", 0, ""), ("T_STATE", 0, ""), ("T_INIT", 0, ""), ("T_TRANS", 0, ""), ("T_ARROW", 0, ""),
             ("T_GUARD", 0, ""), ("T_SYNC", 0, ""), ("T_ASSIGN", 0, ""), ("T_SELECT", 0, ""), ("':'", 0, ""), ("T_EXCLAM", 0, ""), ("T_COMMIT", 0, ""), ("T_URGENT", 0, "")]
PROP_ALPHA = [("T_AG", 0, ""), ("T_EF", 0, ""), ("'A'", 0, ""), ("'E'", 0, ""), ("T_LEADS_TO", 0, ""), ("T_ID", 0, "i"), ("T_NAT", 1, ""), ("'('", 0, ""), ("')'", 0, ""),
              ("'['", 0, ""), ("']'", 0, ""), ("T_LT", 0, ""), ("T_BOOL_AND", 0, ""), ("T_DEADLOCK", 0, ""), ("'U'", 0, ""), ("T_CONTROL", 0, ""), ("':'", 0, ""),
              ("T_PMAX", 0, ""), ("T_LEQ", 0, ""), ("T_SIMULATE", 0, ""), ("'{'", 0, ""), ("'}'", 0, ""), ("T_DIAMOND", 0, ""), ("T_BOX", 0, ""), ("';'", 0, ""), ("T_SUP", 0, "")]
ENTRIES = [  # (start token, part, newxta, alphabet)
    ("T_NEW", "S_XTA", True, SYS_ALPHA), ("T_NEW_DECLARATION", "S_DECLARATION", True, DECL_ALPHA), ("T_NEW_LOCAL_DECL", "S_LOCAL_DECL", True, DECL_ALPHA),
    ("T_NEW_INST", "S_INST", True, SYS_ALPHA), ("T_NEW_SYSTEM", "S_SYSTEM", True, SYS_ALPHA), ("T_NEW_PARAMETERS", "S_PARAMETERS", True, DECL_ALPHA),
    ("T_NEW_INVARIANT", "S_INVARIANT", True, EXPR_ALPHA), ("T_NEW_SELECT", "S_SELECT", True, DECL_ALPHA + [("':'", 0, "")]), ("T_NEW_GUARD", "S_GUARD", True, EXPR_ALPHA),
    ("T_NEW_SYNC", "S_SYNC", True, EXPR_ALPHA), ("T_NEW_ASSIGN", "S_ASSIGN", True, EXPR_ALPHA), ("T_PROBABILITY", "S_PROBABILITY", True, EXPR_ALPHA),
    ("T_OLD", "S_XTA", False, SYS_ALPHA), ("T_OLD_DECLARATION", "S_DECLARATION", False, DECL_ALPHA), ("T_OLD_LOCAL_DECL", "S_LOCAL_DECL", False, DECL_ALPHA),
    ("T_OLD_INST", "S_INST", False, SYS_ALPHA), ("T_OLD_PARAMETERS", "S_PARAMETERS", False, DECL_ALPHA), ("T_OLD_INVARIANT", "S_INVARIANT", False, EXPR_ALPHA),
    ("T_OLD_GUARD", "S_GUARD", False, EXPR_ALPHA), ("T_OLD_ASSIGN", "S_ASSIGN", False, EXPR_ALPHA), ("T_PROPERTY", "property", True, PROP_ALPHA),
    ("T_EXPRESSION", "S_EXPRESSION", True, EXPR_ALPHA), ("T_EXPRESSION_LIST", "S_EXPRESSION_LIST", True, EXPR_ALPHA), ("T_XTA_PROCESS", "S_XTA_PROCESS", True, SYS_ALPHA),
    ("T_EXPONENTIAL_RATE", "S_EXPONENTIAL_RATE", True, EXPR_ALPHA), ("T_MESSAGE", "S_MESSAGE", True, EXPR_ALPHA), ("T_UPDATE", "S_UPDATE", True, EXPR_ALPHA),
    ("T_CONDITION", "S_CONDITION", True, EXPR_ALPHA), ("T_INSTANCE_LINE", "S_INSTANCE_LINE", True, EXPR_ALPHA)]
SCAFFOLD = "int i; int a[2]; clock x; chan c; typedef int[0,2] id_t; int f(int p) { return p; }"
QUERY_SCAFFOLD = {"decl": SCAFFOLD, "templates": [{"name": "T", "locations": [{"id": "id0", "name": "A"}], "init": "id0", "edges": []}], "system": "system T;"}

RICH_XML = """<?xml version="1.0" encoding="utf-8"?>
<nta>
  <declaration>int i; clock x; chan c; broadcast chan b;</declaration>
  <template>
    <name>T</name>
    <parameter>const int[0,1] p</parameter>
    <declaration>int l;</declaration>
    <location id="id0" x="0" y="0"><name x="1" y="1">A</name><label kind="invariant">x &lt;= 5</label><label kind="exponentialrate">2</label></location>
    <location id="id1"><name>B</name><urgent/></location>
    <location id="id2"><committed/></location>
    <branchpoint id="id3"></branchpoint>
    <init ref="id0"/>
    <transition controllable="false" action="act"><source ref="id0"/><target ref="id1"/><label kind="select">k : int[0,1]</label><label kind="guard">i &lt; 2 &amp;&amp; k &gt;= 0</label><label kind="synchronisation">c!</label><label kind="assignment">i = 1, x = 0</label><nail x="1" y="2"/></transition>
    <transition><source ref="id1"/><target ref="id3"/></transition>
    <transition><source ref="id3"/><target ref="id2"/><label kind="probability">3</label></transition>
  </template>
  <template><name>U</name><location id="id4"><name>C</name></location><init ref="id4"/><transition><source ref="id4"/><target ref="id4"/><label kind="synchronisation">c?</label></transition></template>
  <instantiation>P = T(1);</instantiation>
  <system>system P, U;</system>
  <queries>
    <option key="--diagnostic" value="0"/>
    <query><formula>A[] not deadlock</formula><comment>no deadlock</comment><option key="--search-order" value="1"/>
      <expect outcome="success" type="probability" value="1"><resource type="time" value="0.1" unit="s"/></expect><result outcome="success" type="quality" timestamp="t"><details>x</details></result></query>
    <query><formula>E&lt;&gt; P.B</formula><comment/></query>
  </queries>
</nta>
"""


def toks(alpha):
    return [{"t": t, "n": n, "s": s} for t, n, s in alpha]


# token strings that once broke the library (found by a deeper tier): always replayed, in every tier
REGRESSION = [("T_PROPERTY", "property", True, "{ } control (", "regression"),            # expr_nary(LIST, 0): PrettyPrinter read the back of an empty stack (fix 9f040b5)
              ("T_PROPERTY", "property", True, "{ } control : A[] true", "regression"),
              ("T_PROPERTY", "property", True, "{ i, j } control : A[] true", "regression")]


def lr_candidates(c, quick, lx, gen):
    """-> [(start, part, newxta, text, why)]"""
    out = []
    for start, part, newxta, alpha in ENTRIES:
        params = os.path.join(c.run_dir, "lr_%s.json" % start)
        big = part in ("S_XTA", "S_XTA_PROCESS", "S_SYSTEM", "S_INST", "property")
        extra = int(os.environ.get("C01_EXTRA_DEPTH", "0"))      # exploration beyond the registered tiers (hunting runs; not used by MANIFEST commands)
        json.dump({"start": start, "alphabet": toks(alpha), "maxlen": ((3 if big else 4) if quick else (4 if big else 5)) + extra}, open(params, "w"))
        r = vf.run_tlc("LRDepth", "LRDepth_all.cfg", c.run_dir, env={"LR_TABLES": os.path.join(gen, "lr_tables.json"), "LR_PARAMS": params}, timeout=3000, xmx="16g", keep_out=False)
        c.add_tlc("LRDepth_" + start, r, "every token string <= n at %s with error recovery" % start)
        prop = part == "property"
        seen = set()
        for e in r.emitted:
            text = lx.render([t for t in e["toks"] if t["t"] != "$end"], prop=prop)
            if text in seen:
                continue
            seen.add(text)
            why = "underflow" if e["under"] else "residue" if (e["f"], e["t"], e["fr"]) != (0, 0, 0) else "behaviour"
            if e.get("unknown"):
                c.cov.setdefault("callbacks_without_depth_entry", {})[e["unknown"]] = c.cov.get("callbacks_without_depth_entry", {}).get(e["unknown"], 0) + 1
            out.append((start, part, newxta, text, why))
    return out


def xml_mutations(base, cases):
    """apply every XmlFaults case to the first element it addresses of a base document -> [(case, xml text)]"""
    out = []
    for cs in cases:
        root = ET.fromstring(base)
        parent = {ch: p for p in root.iter() for ch in p}
        tag = "lscTemplate" if cs["elem"] == "lsc" else cs["elem"]
        targets = [root] if root.tag == tag else list(root.iter(tag))
        if not targets:
            continue
        el = targets[0]
        mu = cs["mut"]
        if cs["kind"] == "attr":
            if mu == "drop":
                if cs["attr"] not in el.attrib:
                    continue
                del el.attrib[cs["attr"]]
            elif mu == "empty":
                el.set(cs["attr"], "")
            elif mu == "garbage":
                el.set(cs["attr"], "é<&>\"' 99999999999999999999")
            elif mu == "duplicate-value":
                others = [x.get(cs["attr"]) for x in root.iter() if x is not el and x.get(cs["attr"])]
                if not others:
                    continue
                el.set(cs["attr"], others[0])
        else:
            p = parent.get(el)
            if mu == "delete":
                if p is None:
                    continue
                p.remove(el)
            elif mu == "duplicate":
                if p is None:
                    continue
                p.insert(list(p).index(el) + 1, copy.deepcopy(el))
            elif mu == "empty":
                for ch in list(el):
                    el.remove(ch)
                el.text = None
            elif mu == "blank-text":
                el.text = "  \n "
            elif mu == "unknown-tag":
                el.tag = "zz" + el.tag
            elif mu in ("move-last", "move-first"):
                if p is None:
                    continue
                p.remove(el)
                (p.append(el) if mu == "move-last" else p.insert(0, el))
            elif mu == "nest-in-self":
                el.append(copy.deepcopy(el))
        out.append((cs, '<?xml version="1.0" encoding="utf-8"?>\n' + ET.tostring(root, encoding="unicode")))
    return out


def scale_models(N):
    def model(kind):
        decl = "int i; int a[2]; clock x;\n"
        e = {"src": "id0", "dst": "id0"}
        inv = None
        if kind == "guard_and": e["guard"] = " && ".join(["i < 1"] * N)
        if kind == "guard_plus": e["guard"] = "i" + " + 1" * N + " > 0"
        if kind == "assign_commas": e["assign"] = ", ".join(["i = 1"] * N)
        if kind == "init_plus": decl += "int v = 1" + " + 1" * N + ";\n"
        if kind == "inv_and": inv = " && ".join(["x <= 5"] * N)
        if kind == "nested_ite": e["guard"] = "(" + "i > 0 ? 1 : (" * N + "0" + ")" * N + ") == 1"
        if kind == "fun_stmts": decl += "void f() { " + "i = 1; " * N + "}\n"
        if kind == "nested_parens": e["guard"] = "(" * N + "i" + ")" * N + " > 0"
        if kind == "decls": decl += "".join("int v%d;\n" % k for k in range(N))
        if kind == "init_list": decl += "int w[%d] = {%s};\n" % (N, ",".join(["1"] * N))
        if kind == "locations":
            locs = [{"id": "id%d" % k, "name": "L%d" % k} for k in range(N)]
            return {"decl": decl, "templates": [{"name": "T", "locations": locs, "init": "id0", "edges": [{"src": "id%d" % k, "dst": "id%d" % ((k + 1) % N)} for k in range(N)]}], "system": "system T;"}
        return {"decl": decl, "templates": [{"name": "T", "locations": [{"id": "id0", "name": "A", "inv": inv}], "init": "id0", "edges": [e]}], "system": "system T;"}
    return {k: model(k) for k in ("guard_and", "guard_plus", "assign_commas", "init_plus", "inv_and", "nested_ite", "fun_stmts", "nested_parens", "decls", "init_list", "locations")}


def crashed(r):
    """the statement's oracle on one job result -> None (fine) or a description"""
    if r.get("outcome") in ("signal", "timeout", "abnormal-exit"):
        return "%s%s" % (r["outcome"], " %s" % r.get("sig") if r.get("sig") else "")
    if r.get("sanitizer"):
        return "sanitizer report"
    for part in [r.get("main")] + (r.get("queries") or []) + (r.get("exprs") or []):
        if part and part.get("outcome") == "throw" and not part.get("std", True):
            return "non-std exception"
    return None


def san_site(r):
    txt = r.get("stderr") or r.get("sanitizer") or ""
    m = re.search(r"#\d+ 0x[0-9a-f]+ in ([\w:~<>]+)[^\n]*?/repo/(src|include)/([\w./]+):(\d+)", txt)
    return "%s@%s" % (m.group(1), m.group(3)) if m else "?"


ZOO_SCAFFOLD = ("const int N = 3; typedef int[0,N-1] id_t; typedef struct { int a; } rec_t; int i, j, arr[N]; clock x, y; chan c0; broadcast chan cb[N]; bool b0; dynamic Dyn(int p);"
                " int f(int a) { return a; } int g(int a) { return a; } typedef int[0,1] lt;")


def zoo_part(c, add, gen, scaffold_xml, quick=True, lx=None):
    """RuleCover.tla: which productions of the extracted grammar the zoo (lib/zoo.py) reduces by; every zoo text is then run through the
    document builder + type checker, the pretty printer and (queries) the property builders under the sanitizers"""
    import zoo, xtalex
    tabs = json.load(open(os.path.join(gen, "lr_tables.json")))
    lexed = json.load(open(os.path.join(gen, "lexemes.json")))
    sc = {s: xtalex.Scanner(os.path.join(gen, "lexemes.json"), s) for s in ("new", "old", "property")}
    corpus = zoo.corpus()
    rich_xml = xmlgen.render_xml({"decl": ZOO_SCAFFOLD, "templates": [{"name": "P", "decl": "clock w; int l;", "locations": [{"id": "id0", "name": "A"}, {"id": "id1", "name": "B"}], "init": "id0",
                                                                      "edges": [{"src": "id0", "dst": "id1"}]},
                                                                     {"name": "U", "locations": [{"id": "id2", "name": "l"}], "init": "id2", "edges": []}], "system": "system P, U;"})
    docs = []
    for d in corpus:
        docs.append({"id": d["id"], "start": d["start"], "toks": sc[d["syntax"]].scan(d["text"], zoo.TYPES)})
    path = os.path.join(c.run_dir, "zoodocs.ndjson")
    vf.write_ndjson(path, docs)
    r = vf.run_tlc("RuleCover", "XmlReader.cfg", c.run_dir, env={"LR_TABLES": os.path.join(gen, "lr_tables.json"), "RC_DOCS": path}, timeout=1500, xmx="16g", workers=1, keep_out=False)
    c.add_tlc("RuleCover", r, "the productions each zoo input reduces by, on the extracted automaton")
    used = set()
    spec = {}
    for e in r.emitted:
        used |= set(e["used"])
        spec[e["id"]] = e
    rules = tabs["rules"]
    have_lexeme = set(lexed["lit"]) | {k["tok"] for k in lexed["kw"].values()} | {"T_ID", "T_TYPENAME", "T_NAT", "T_FLOATING", "T_CHARARR", "T_POS_NEG_MAX", "T_ERROR", "error", "$end", "'\\n'"}
    starts = set(tabs["entry"])
    nts = {x["lhs"] for x in rules}
    dead = {k for k, x in enumerate(rules) if any(s not in nts and s not in have_lexeme and s not in starts for s in x["rhs"])}     # a terminal no text produces (T_SWITCH, T_CASE, T_BREAK ...)
    changed = True
    while changed:          # mid-rule actions and list rules that only occur inside dead productions
        changed = False
        for k, x in enumerate(rules):
            if k not in dead and k > 0:
                users = [q for q, y in enumerate(rules) if x["lhs"] in y["rhs"]]
                if users and all(q in dead for q in users) and all(q in dead or q == k for q, y in enumerate(rules) if y["lhs"] == x["lhs"]):
                    dead.add(k); changed = True
    live = [k for k in range(1, len(rules)) if k not in dead]
    unc = [k for k in live if k not in used]
    c.cov["grammar_productions"] = len(rules) - 1
    c.cov["grammar_productions_unreachable_from_text"] = len(dead)
    c.cov["zoo_productions_covered"] = len(live) - len(unc)
    c.cov["zoo_productions_uncovered"] = ["%d %s -> %s" % (k, rules[k]["lhs"], " ".join(rules[k]["rhs"])) for k in unc]
    if len(unc) > 0.08 * len(live):
        print("NOTE property=C01 the zoo reaches %d of %d productions that a text can reach; extend lib/zoo.py (uncovered ones are listed in the evidence)" % (len(live) - len(unc), len(live)))
    # every zoo text through the back ends (the job loop below decides crashes), and once more through the recorder: LR.tla's callbacks = the real parser's
    recjobs = []
    for d in corpus:
        rep = {"zoo": d["id"], "start": d["start"], "text": d["text"][:400]}
        if d["job"]["entry"] == "property":
            # against a model that declares what the queries mention, and against one that declares nothing of it (every name unknown)
            for sname, sx in (("rich", rich_xml), ("bare", scaffold_xml)):
                add("zoo", d["id"], {"entry": "xml_buffer", "text": sx, "queries": [d["text"]], "query_builder": "tiga", "dump": False}, dict(rep, backend="tiga", scaffold=sname))
                add("zoo", d["id"], {"entry": "xml_buffer", "text": sx, "queries": [d["text"]], "query_builder": "property", "dump": False}, dict(rep, backend="property", scaffold=sname))
            add("zoo", d["id"], {"builder": "pretty", "entry": "property", "text": d["text"], "dump": False}, dict(rep, backend="pretty"))
        else:
            j = dict(d["job"], text=d["text"])
            if j["entry"] == "part" and j["part"] != "S_DECLARATION":
                add("zoo", d["id"], dict(j), dict(rep, backend="document", scaffold="none"))          # every identifier unknown
                j["scaffold"] = ZOO_SCAFFOLD
            add("zoo", d["id"], dict(j), dict(rep, backend="document"))
            add("zoo", d["id"], dict(j, builder="pretty", dump=False), dict(rep, backend="pretty"))
            if j["entry"] in ("xta", "part") and "scaffold" not in j:
                recjobs.append(dict(j, id=d["id"], positions=True, analysis=False, walk=False, timeout=60, builtins=False))
    # the error-recovery neighbourhood of every construct: one token-level fault at every (quick: every 9th) position of every zoo text
    stride = 9 if quick else 1
    nfault = 0
    for d, doc in zip(corpus, docs):
        if d["id"].startswith("error"):
            continue
        toks = doc["toks"]
        prop = d["job"]["entry"] == "property"
        for pos in range(len(toks)):
            if (pos + len(d["id"])) % stride:
                continue
            variants = {"delete": toks[:pos] + toks[pos + 1:], "duplicate": toks[:pos + 1] + toks[pos:], "garbage": toks[:pos] + [{"t": "T_ERROR", "n": 0, "s": ""}] + toks[pos + 1:],
                        "close": toks[:pos] + [{"t": "')'", "n": 0, "s": ""}] + toks[pos:], "semicolon": toks[:pos] + [{"t": "';'", "n": 0, "s": ""}] + toks[pos:]}
            for fname, ft in variants.items():
                try:
                    text = lx.render(ft, prop=prop)
                except KeyError:
                    continue
                nfault += 1
                rep = {"zoo": d["id"], "fault": fname, "at_token": pos, "text": text[:600]}
                if prop:
                    add("zoofault", d["id"] + ":" + fname, {"entry": "xml_buffer", "text": rich_xml, "queries": [text], "query_builder": "tiga", "dump": False}, dict(rep, backend="tiga"))
                    add("zoofault", d["id"] + ":" + fname, {"builder": "pretty", "entry": "property", "text": text, "dump": False}, dict(rep, backend="pretty"))
                else:
                    j = dict(d["job"], text=text)
                    if j["entry"] == "part" and j["part"] != "S_DECLARATION":
                        j["scaffold"] = ZOO_SCAFFOLD
                    add("zoofault", d["id"] + ":" + fname, dict(j), dict(rep, backend="document"))
                    add("zoofault", d["id"] + ":" + fname, dict(j, builder="pretty", dump=False), dict(rep, backend="pretty"))
    c.cov["zoo_fault_inputs"] = nfault
    vf.build_harness("record", "plain")
    rres = vf.run_jobs(recjobs, c.run_dir, variant="plain", harness="record", name="zoorec")
    nagree = 0
    for j in recjobs:
        evs = rres[j["id"]].get("events", [])
        starts_ = [i for i, ev in enumerate(evs) if ev["cb"] == "add_position" and ev["a"][1] == 0 and ev["a"][2] == 1]
        real = [ev["cb"] for ev in evs[(starts_[-1] if starts_ else 0):] if ev["cb"] not in ("add_position", "set_position", "is_type", "handle_warning") and "d" not in ev]
        want = [x for x in spec[j["id"]]["cbs"] if x not in ("handle_warning",)]
        real_n = [x for x in real if x != "handle_error"]
        want_n = [x for x in want if x != "handle_error"]          # the lexer reports unknown characters itself; the grammar's own reports are compared by position in C06
        if real_n != want_n:
            k = next((i for i, (a, b) in enumerate(zip(real_n, want_n)) if a != b), min(len(real_n), len(want_n)))
            raise vf.MachineryError("LR.tla and the real parser disagree on zoo input %s at callback %d: real %s, spec %s" % (j["id"], k, real_n[k:k + 3], want_n[k:k + 3]))
        nagree += len(real_n)
    c.cov["zoo_inputs"] = len(corpus)
    c.cov["zoo_callbacks_agreeing_with_real_parser"] = nagree


def run(tier):
    c = vf.Check("C01", tier)
    quick = tier == "quick"
    vf.build_lib("asan")
    rnd = random.Random(c.seed)
    gen = os.path.join(vf.lib_dir("asan"), "gen")
    lx = lrconf.Lexemes(os.path.join(gen, "lexemes.json"))
    jobs, meta = [], {}

    def add(kind, key, job, rep):
        job["id"] = "j%d" % len(jobs)
        job.setdefault("structure", False)
        jobs.append(job)
        meta[job["id"]] = (kind, key, rep)
    # ---- 1. grammar: LR x BuilderDepth over all entry points
    cands = lr_candidates(c, quick, lx, gen)
    by_why = {}
    for start, part, newxta, text, why in cands:
        by_why[why] = by_why.get(why, 0) + 1
    keep = [x for x in cands if x[4] != "behaviour"]
    rest = [x for x in cands if x[4] == "behaviour"]
    rnd.shuffle(rest)
    keep += rest[:(3000 if quick else 40000)]
    keep += [x for x in REGRESSION if x not in keep]
    scaffold_xml = xmlgen.render_xml(QUERY_SCAFFOLD)
    for start, part, newxta, text, why in keep:
        rep = {"entry": part, "start": start, "newxta": newxta, "text": text, "why": why}
        if part == "property":
            add("lr", "%s" % start, {"entry": "xml_buffer", "text": scaffold_xml, "queries": [text], "query_builder": "tiga", "dump": False}, dict(rep, backend="tiga"))
            add("lr", "%s" % start, {"entry": "xml_buffer", "text": scaffold_xml, "queries": [text], "query_builder": "property", "dump": False}, dict(rep, backend="property"))
            add("lr", "%s" % start, {"builder": "pretty", "entry": "property", "text": text, "dump": False}, dict(rep, backend="pretty"))
        else:
            add("lr", "%s" % start, {"entry": "part", "part": part, "newxta": newxta, "text": text, "scaffold": SCAFFOLD}, dict(rep, backend="document"))
            add("lr", "%s" % start, {"builder": "pretty", "entry": "part", "part": part, "newxta": newxta, "text": text, "dump": False}, dict(rep, backend="pretty"))
    # ---- 2. XML structure faults
    xf = vf.run_tlc("XmlFaults", "XmlFaults.cfg", c.run_dir, timeout=300, keep_out=False)
    c.add_tlc("XmlFaults", xf, "fault universe and AttrPresent")
    xfe = xf.emitted[0]
    if not xfe["attrpresent"]:
        raise vf.MachineryError("XmlFaults.tla: AttrPresent is false in the transcription")
    bases = [("rich", RICH_XML)]
    lsc = os.path.join(vf.REPO, "test/models/lsc_example.xml")
    if os.path.exists(lsc):
        bases.append(("lsc", open(lsc).read()))
    fdir = os.path.join(c.run_dir, "files")
    os.makedirs(fdir, exist_ok=True)
    nx = 0
    for bname, base in bases:
        for cs, text in xml_mutations(base, xfe["cases"]):
            nx += 1
            key = "%s:%s%s:%s" % (cs["kind"], cs["elem"], ("@" + cs["attr"]) if cs["attr"] else "", cs["mut"])
            rep = {"base": bname, "case": cs, "xml": text}
            for newxta in (True, False):
                add("xml", key, {"entry": "xml_buffer", "text": text, "newxta": newxta}, dict(rep, entry="xml_buffer", newxta=newxta, backend="document"))
            fp = os.path.join(fdir, "x%d.xml" % nx)
            open(fp, "w").write(text)
            add("xml", key, {"entry": "xml_file", "file": fp}, dict(rep, entry="xml_file", backend="document"))
            add("xml", key, {"entry": "xml_fd", "file": fp}, dict(rep, entry="xml_fd", backend="document"))
            add("xml", key, {"builder": "pretty", "entry": "xml_buffer", "text": text, "dump": False}, dict(rep, entry="xml_buffer", backend="pretty"))
        # truncated documents
        cuts = [m.start() for m in re.finditer(r"[<>]", base)]
        for cut in (cuts if not quick else cuts[::3]):
            for off in (0, 1):
                text = base[:cut + off]
                add("xml", "truncated", {"entry": "xml_buffer", "text": text}, {"base": bname, "cut": cut + off, "xml": text, "entry": "xml_buffer", "backend": "document"})
                add("xml", "truncated", {"builder": "pretty", "entry": "xml_buffer", "text": text, "dump": False}, {"base": bname, "cut": cut + off, "xml": text, "entry": "xml_buffer", "backend": "pretty"})
    # ---- 3. lexemes around the token buffer limit
    lxr = vf.run_tlc("Lexer", "Lexer.cfg", c.run_dir, timeout=300, keep_out=False)
    c.add_tlc("Lexer", lxr, "Bounded and the length cases")
    lcases = lxr.emitted[0]["cases"]
    if not lxr.emitted[0]["bounded"]:
        raise vf.MachineryError("Lexer.tla: Bounded is false")
    lexjobs = []
    for cs in lcases:
        n = cs["len"]
        if cs["cls"] == "identifier":
            name = "q" * n
            variants = [("decl", "S_DECLARATION", "int %s;" % name, True), ("decl3x", "S_DECLARATION", "int %s;" % name, False), ("expr", "S_EXPRESSION", "%s + 1" % name, True),
                        ("xta", "S_XTA", "process P() { state %s; init %s; trans %s -> %s { }, -> %s { }; } system P;" % (name, name, name, name, name), True)]
        elif cs["cls"] == "typename":
            continue      # a type name of that length cannot be declared without an identifier of that length; covered by "identifier"
        else:
            variants = [("string", "S_DECLARATION", 'import "%s" { int fn(); };' % ("s" * (n - 2)), True), ("strexpr", "S_EXPRESSION", '"%s"' % ("s" * (n - 2)), True)]   # the lexeme includes its quotes
        for vname, part, text, newxta in variants:
            j = {"id": "lex:%s:%d:%s" % (cs["cls"], n, vname), "text": text, "part": part, "newxta": newxta, "timeout": 60}
            lexjobs.append((cs, j))
            add("lex", "%s:%s" % (cs["cls"], vname), {"entry": "part" if part != "S_XTA" else "xta", "part": part, "newxta": newxta, "text": text, "builtins": False},
                {"case": cs, "entry": part, "text_len": len(text), "text_head": text[:60], "backend": "document"})
            add("lex", "%s:%s" % (cs["cls"], vname), {"builder": "pretty", "entry": "part" if part != "S_XTA" else "xta", "part": part, "newxta": newxta, "text": text, "dump": False},
                {"case": cs, "entry": part, "text_len": len(text), "text_head": text[:60], "backend": "pretty"})
        if cs["cls"] == "identifier":
            add("lex", "identifier:query", {"entry": "xml_buffer", "text": scaffold_xml, "queries": ["E<> %s > 0" % ("q" * n)], "query_builder": "tiga", "dump": False},
                {"case": cs, "entry": "property", "backend": "tiga"})
    # ---- 4. single characters and unterminated constructs
    for ch in range(1, 256):
        s = bytes([ch]).decode("latin-1")
        add("char", "byte", {"entry": "part", "part": "S_EXPRESSION", "text": "i " + s + " 1", "scaffold": SCAFFOLD}, {"byte": ch, "entry": "S_EXPRESSION", "backend": "document"})
    for text in ["/*", "/* EXPECT:x", "//", "\"abc", "i /* a \n b", "\\", "i \\\n + 1", "1e", "1.e5", "0x10", "'", "i'", "#", "$", "i $ j", "\r\n\r\n", "1 /*/ 2", "*/"]:
        for part in ("S_EXPRESSION", "S_DECLARATION", "S_GUARD", "S_SYSTEM", "S_XTA"):
            add("char", "lexical", {"entry": "part" if part != "S_XTA" else "xta", "part": part, "text": text, "scaffold": SCAFFOLD}, {"text": text, "entry": part, "backend": "document"})
        add("char", "lexical", {"entry": "xml_buffer", "text": scaffold_xml, "queries": [text], "query_builder": "tiga", "dump": False}, {"text": text, "entry": "property", "backend": "tiga"})
    # ---- 5. scaling
    sizes = (2500, 10000) if quick else (2500, 10000, 40000, 100000)
    for N in sizes:
        for k, m in scale_models(N).items():
            add("scale", k, {"entry": "xml_buffer", "text": xmlgen.render_xml(m), "timeout": 300, "write_xml": os.path.join(c.run_dir, "scale.xml"), "stack_mb": 8}, {"probe": k, "N": N, "backend": "document"})
            add("scale", k, {"builder": "pretty", "entry": "xml_buffer", "text": xmlgen.render_xml(m), "timeout": 300, "dump": False}, {"probe": k, "N": N, "backend": "pretty"})
    # ---- 5a. depth instead of length: nests of 6 and of 24 levels whose text the library prints (a diagnostic quotes the expression): work that doubles per level
    # is minutes at 24 levels and nothing at 6
    def deep(kind, N):
        inner = {"neg_plus": "-(1 + ", "not_and": "!(i > 0 && ", "ite": "(i > 0 ? 1 : ", "call": "fd(1 + "}[kind] * N + "i" + ")" * N
        return {"decl": "int i; int fd(int q) { return q; }", "templates": [{"name": "T", "locations": [{"id": "id0", "name": "A"}], "init": "id0",
                "edges": [{"src": "id0", "dst": "id0", "guard": "(%s).f > 0 && (%s).g(1) > 0" % (inner, inner)}]}], "system": "system T;"}
    for N in (6, 24):
        for k in ("neg_plus", "not_and", "ite", "call"):
            add("scale", "deep_" + k, {"entry": "xml_buffer", "text": xmlgen.render_xml(deep(k, N)), "timeout": 120, "stack_mb": 8}, {"probe": "deep_" + k, "N": N, "backend": "document"})
            add("scale", "deep_" + k, {"builder": "pretty", "entry": "xml_buffer", "text": xmlgen.render_xml(deep(k, N)), "timeout": 120, "dump": False}, {"probe": "deep_" + k, "N": N, "backend": "pretty"})
    # ---- 5b. entity references in attribute values (the readers are created with XML_PARSE_HUGE, which lifts libxml2's amplification limits)
    def entity_doc(levels):
        ents = '<!ENTITY e0 "aaaaaaaaaa">' + "".join('<!ENTITY e%d "%s">' % (k, ("&e%d;" % (k - 1)) * 10) for k in range(1, levels + 1))
        return ('<?xml version="1.0"?><!DOCTYPE nta [' + ents + ']><nta><declaration>int i;</declaration><template><name>T</name><location id="id0&e%d;"><name>A</name></location>'
                '<init ref="id0"/></template><system>system T;</system></nta>') % levels
    for L in (5, 6, 7):
        add("entity", "levels", {"entry": "xml_buffer", "text": entity_doc(L), "timeout": 120}, {"levels": L, "bytes": len(entity_doc(L)), "backend": "document"})
    # ---- 5c. production zoo: inputs that together reduce by (nearly) every production of the grammar, through every back end
    zoo_part(c, add, gen, scaffold_xml, quick, lx)
    # the diagnostic zoo: texts that make the builders, the type checker and the query builders report or throw (their error paths), document and pretty back end
    import zoo as _zoo2
    for sj in _zoo2.semantic_jobs():
        zid = sj.pop("zoo")
        add("semzoo", zid, dict(sj, dump=False), {"zoo": zid, "text": sj["text"][-300:], "queries": sj.get("queries", [])[:3], "backend": "document"})
        if "queries" not in sj:
            add("semzoo", zid, dict(sj, builder="pretty", dump=False), {"zoo": zid, "text": sj["text"][-300:], "backend": "pretty"})
    # ---- run
    # scaling probes run against the plain build: sanitizer frames are an order of magnitude larger than the library's own
    sjobs = [j for j in jobs if meta[j["id"]][0] in ("scale", "entity")]
    res = vf.run_jobs([j for j in jobs if meta[j["id"]][0] not in ("scale", "entity")], c.run_dir, variant="asan", name="c01", timeout=3300)
    res.update(vf.run_jobs(sjobs, c.run_dir, variant="plain", name="c01s", timeout=3300))
    counts = {}
    for j in jobs:
        kind, key, rep = meta[j["id"]]
        r = res[j["id"]]
        counts[kind] = counts.get(kind, 0) + 1
        bad = crashed(r)
        if bad:
            site = san_site(r)
            stack_overflow = kind == "scale" and ("stack-overflow" in (r.get("stderr") or "") or r.get("sig") == 11)
            k = "c01:%s:%s:%s" % (kind, key, "stack-overflow" if stack_overflow else site)
            if kind == "scale":
                k = "c01:scale:%s:%s:N=%d" % (key, "stack-overflow" if stack_overflow else bad, rep["N"]) if rep["N"] >= 40000 else "c01:scale:%s:%s:N=%d" % (key, bad, rep["N"])
            c.finding(k, "%s with the %s back end on %s input %s: %s at %s" % (bad, rep.get("backend"), kind, json.dumps({x: rep[x] for x in rep if x not in ("xml", "backend")})[:200], bad, site),
                      dict(rep, job={x: j[x] for x in j if x not in ("id",)}, stderr=(r.get("stderr") or r.get("sanitizer") or "")[:2500]))
    # ---- 6. XmlReader.tla: the transcribed reader vs the real one on the base document and every single structural mutation
    rc = readerconf.run(c, quick)
    ndrift = 0
    for x in rc:
        counts["reader"] = counts.get("reader", 0) + 1
        if x["real_outcome"].startswith("crash"):
            r = x["result"]
            c.finding("c01:reader:%s:%s" % (x["what"].split(" ")[0], san_site(r)), "the XML reader %s on a document with the mutation [%s] (whitespace nodes: %s); XmlReader.tla predicts %s" % (
                x["real_outcome"], x["what"], x["ws"], x["spec_outcome"]), {"xml": x["xml"], "mutation": x["what"], "stderr": (r.get("stderr") or "")[:2000], "job": {"entry": "xml_buffer", "text": x["xml"]}})
        elif not x["terminates"]:
            print("NOTE property=C01 XmlReader.tla: the transcribed reader does not terminate on mutation [%s] but the real reader ended with %s" % (x["what"], x["real_outcome"]))
        if not x["agree"]:
            ndrift += 1
            if ndrift <= 3:
                k = next((i for i, (a, b) in enumerate(zip(x["spec"], x["real"])) if a != b), min(len(x["spec"]), len(x["real"])))
                print("DRIFT property=C01 XmlReader.tla and the real reader disagree on mutation [%s] (ws=%s): outcome %s vs %s; first difference at event %d: %s vs %s" % (
                    x["what"], x["ws"], x["spec_outcome"], x["real_outcome"], k, x["spec"][k:k + 1], x["real"][k:k + 1]))
    c.cov["reader_documents"] = len(rc)
    c.cov["reader_spec_impl_disagreements"] = ndrift
    # lexer expectations (plain lexer/parser conformance: stored length and diagnostic)
    lres = vf.run_jobs([j for _, j in lexjobs], c.run_dir, variant="asan", harness="lr_replay", name="lex")
    nlex = 0
    for cs, j in lexjobs:
        r = lres[j["id"]]
        if r.get("outcome") not in ("return", "throw"):
            continue     # reported above
        nlex += 1
        names = [a for e in r.get("events", []) for a in e["a"] if isinstance(a, str) and len(a) >= min(cs["len"], 3999) and set(a) <= {"q", "s", '"'}]
        diag = any(e["cb"] == "handle_error" and "too_long" in str(e["a"][0]).lower() for e in r.get("events", []))
        longest = max([len(a) for a in names], default=0)
        if names and longest != cs["stored"]:
            c.finding("c01:lexeme-length:%s" % cs["cls"], "a %s of %d characters reaches the builder with %d characters (Lexer.tla: %d)" % (cs["cls"], cs["len"], longest, cs["stored"]),
                      {"case": cs, "entry": j["part"], "text_len": len(j["text"])})
        if diag != cs["diag"] and j["part"] != "S_XTA":
            c.finding("c01:lexeme-diagnostic:%s" % cs["cls"], "a %s of %d characters: too-long diagnostic %s (Lexer.tla: %s)" % (cs["cls"], cs["len"], diag, cs["diag"]),
                      {"case": cs, "entry": j["part"], "text_len": len(j["text"])})
    # scaling: time out of proportion
    times = {}
    for j in jobs:
        kind, key, rep = meta[j["id"]]
        if kind == "scale" and not crashed(res[j["id"]]):
            times[(key, rep["backend"], rep["N"])] = res[j["id"]]["ms"]
    growth = {}
    for (key, be, N), ms in sorted(times.items()):
        big = times.get((key, be, 4 * N))
        if big is not None:
            growth["%s/%s/%d" % (key, be, N)] = round(big / max(ms, 1.0), 1)
            if big > 4000 and big / max(ms, 1.0) > 10.0:
                c.finding("c01:scale:%s:superlinear" % key, "parsing %s with N=%d takes %.0f ms but %.0f ms with N=%d (x%.1f for x4 input) [%s back end]" % (key, N, ms, big, 4 * N, big / max(ms, 1.0), be),
                          {"probe": key, "N": N, "ms": ms, "ms_4N": big, "backend": be})
    ent = {meta[j["id"]][2]["levels"]: (res[j["id"]]["ms"], res[j["id"]]["maxrss_kb"], meta[j["id"]][2]["bytes"]) for j in jobs if meta[j["id"]][0] == "entity" and not crashed(res[j["id"]])}
    c.cov["entity_expansion_ms_rss_bytes"] = ent
    if 6 in ent and 7 in ent and ent[7][0] > 1500 and ent[7][0] > 5 * ent[6][0]:
        c.finding("c01:scale:xml-attribute-entities:superlinear", "a %d-byte document with nested entity references in an attribute value takes %.0f ms and %d MB; the %d-byte one %.0f ms and %d MB (x%.1f time for %d more bytes)" % (
            ent[7][2], ent[7][0], ent[7][1] // 1024, ent[6][2], ent[6][0], ent[6][1] // 1024, ent[7][0] / max(ent[6][0], 1), ent[7][2] - ent[6][2]), {"levels": 7, "job": {"entry": "xml_buffer", "text": entity_doc(7)}})
    c.cov["growth_factor_for_4x_input"] = growth
    # uninitialised reads: the sanitizer build does not see them; the LSC documents (what the reader keeps across chart elements) once more under valgrind's memcheck
    import lsczoo, subprocess
    exe = vf.build_harness("model_run", "plain")
    vin, vout = os.path.join(c.run_dir, "valgrind.in.ndjson"), os.path.join(c.run_dir, "valgrind.out.ndjson")
    vdocs = lsczoo.docs()
    vf.write_ndjson(vin, [{"id": "v%d" % k, "entry": "xml_buffer", "text": x, "structure": False, "timeout": 120} for k, (i, x, e) in enumerate(vdocs)])
    vp = subprocess.run(["valgrind", "-q", "--error-exitcode=9", exe, vin, vout], stdout=subprocess.PIPE, stderr=subprocess.STDOUT, text=True, errors="replace", timeout=1200)
    vres = {r["id"]: r for r in vf.read_ndjson(vout)} if os.path.exists(vout) else {}
    if len(vres) != len(vdocs):
        raise vf.MachineryError("valgrind run lost documents: %d of %d (%s)" % (len(vres), len(vdocs), vp.stdout[-400:]))
    for k, (i, x, e) in enumerate(vdocs):
        r = vres["v%d" % k]
        if crashed(r) or r.get("outcome") == "abnormal-exit":
            c.finding("c01:memcheck:%s" % i, "valgrind's memcheck reports an error (or the process ends abnormally) while the LSC document `%s` is read: %s" % (i, (r.get("stderr") or "")[-300:].replace("\n", " | ")),
                      {"kind": "memcheck", "doc": i, "xml": x, "stderr": (r.get("stderr") or "")[-2000:]})
    c.cov["documents_under_memcheck"] = len(vdocs)
    nlex += len(vdocs)
    # the scanner alone, below the grammar: every text up to a bound over mixed alphabets (Lex.tla: Total - no position without a rule under `nodefault` - and the
    # scan ends), scanned by the real scanner in the sanitizer build
    import lexconf
    nlex += lexconf.run(c, quick, "C01", only=("all", "all_old", "all_query", "numbers", "comment"), variant="asan")
    # which of the library's diagnostics the inputs of this run reached: the error paths of builder callbacks, type checker, reader and scanner are code too
    src_msgs = vf.source_messages()
    seen = {m.rstrip("_") for m in vf.SEEN_MESSAGES}
    hit = sorted(m for m in src_msgs if any(s.startswith(m) for s in seen))
    c.cov["diagnostics_in_source"] = len(src_msgs)
    c.cov["diagnostics_reached"] = len(hit)
    c.cov["diagnostics_not_reached"] = sorted(src_msgs - set(hit))
    c.cov["traces_validated_against_impl"] = len(jobs) + nlex
    c.cov["evaluations"] = len(jobs) + nlex
    c.cov["distinct_nontrivial"] = len(jobs)
    c.cov["by_kind"] = counts
    c.cov["lr_cases"] = by_why
    c.cov["rule"] = ("grammar: TLC-enumerated token strings per entry point (all underflow/residue candidates + a sample of the rest) x {document, pretty, property, tiga}; "
                     "xml: XmlFaults cases x {buffer 4.x/3.x, file, fd, pretty} + truncations; lexemes: Lexer cases; bytes 1..255; scaling probes; everything in the ASan/UBSan build")
    c.sample({"lr": keep[0][3] if keep else None, "xml_case": xfe["cases"][0], "lexeme": lcases[0]})
    c.assumptions += ["TLC 1.8.0", "ASan/UBSan observe memory errors and undefined behaviour on the executed paths only", "libxml2 itself is trusted",
                      "time out of proportion = more than x10 time for x4 input and more than 4 s (plain build, default 8 MB stack)"]
    return c.finish()


def replay(path):
    rec = json.load(open(path))["replay"]
    c = vf.Check("C01", "quick")
    if rec.get("kind") == "memcheck":
        import subprocess
        exe = vf.build_harness("model_run", "plain")
        vin, vout = os.path.join(c.run_dir, "replay.in.ndjson"), os.path.join(c.run_dir, "replay.out.ndjson")
        vf.write_ndjson(vin, [{"id": "r", "entry": "xml_buffer", "text": rec["xml"], "structure": False, "no_fork": True}])
        p = subprocess.run(["valgrind", "--error-exitcode=9", "--track-origins=yes", exe, vin, vout], stdout=subprocess.PIPE, stderr=subprocess.STDOUT, text=True, errors="replace")
        print(p.stdout[-4000:])
        return 1
    if rec.get("kind") == "scan" or rec.get("entry") == "scan_run":
        import lexconf
        return lexconf.replay(c, rec)
    j = dict(rec["job"], id="r")
    r = vf.run_jobs([j], c.run_dir, variant="asan")["r"]
    print(json.dumps({k: r.get(k) for k in ("outcome", "sig", "main", "stderr", "sanitizer")}, indent=1)[:4000])
    return 1
