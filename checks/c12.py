"""C12 — no accepted model writes to a constant.
Constness.tla: type terms as the builder composes them, lvalue terms over declared sources, transcription of
is_mutable / isModifiableLValue, semantic ConstTarget; TLC checks ConstTarget => ~modifiable on the whole universe and
exports it; each case is rendered (update label, function body, select edge, template parameter, reference argument
to function / template instantiation) and type-checked by libutap: const target => rejected, mutable twin => accepted."""
import json, os
import vf, batch

BASE_DECL = """typedef struct { int f; int h[2]; } S;
typedef const int CI;
typedef int MI;
const int cg = 1; const int ca[2] = {1, 2}; const S cs = {1, {1, 2}}; const S csa[2] = {{1, {1, 2}}, {1, {1, 2}}};
CI tc = 1;
typedef struct { const int a[2]; int bb; } MIX; MIX mix = {{1, 2}, 3};
int m; int ma[2]; S ms; S msa[2]; MI tm; bool b; int i;
const struct { int f; int h[2]; } cis = {1, {1, 2}}; struct { int f; int h[2]; } mis;
const double cd = 1.0; const bool cbo = true; double md; bool mb;
void wr(int &q) { q = 1; }
"""
FSIG = "const int cp, const int &cr, const S &crs, int p, int &r, S &rs"
TPARAMS = "const int tp, const int &tcr, int tv, int &tr"
TR = {"name": "TR", "params": "int &q", "locations": [{"id": "id0"}], "init": "id0", "edges": [{"src": "id0", "dst": "id0", "assign": "q = 1"}]}
OPS = {"assign": "%s = 1", "addassign": "%s += 1", "subassign": "%s -= 1", "mulassign": "%s *= 1", "divassign": "%s /= 1",
       "modassign": "%s %%= 1", "andassign": "%s &= 1", "orassign": "%s |= 1", "xorassign": "%s ^= 1", "shlassign": "%s <<= 1",
       "shrassign": "%s >>= 1", "preinc": "++%s", "postinc": "%s++", "predec": "--%s", "postdec": "%s--", "funref": "wr(%s)"}
WHERE = {"cis": "global", "mis": "global", "cd": "global", "cbo": "global", "md": "global", "mb": "global", "cg": "global", "ca": "global", "cs": "global", "csa": "global", "tc": "global", "cl": "flocal", "cp": "fparam", "cr": "fparam",
         "crs": "fparam", "mix": "global", "tp": "tparam", "tcr": "tparam", "ks": "select", "ki": "iter", "m": "global", "ma": "global", "ms": "global",
         "msa": "global", "tm": "global", "l": "flocal", "p": "fparam", "r": "fparam", "rs": "fparam", "tv": "tparam", "tr": "tparam",
         "oc1": "oldtparam", "oc2": "oldtparam", "oc3": "oldtparam", "om": "oldtparam"}
# the 3.x syntax (newxta = false): declarations `const N 1;`, parameter groups separated by `;`, instantiation with `:=`
OLD_DECL = "int m; int i; const cgo 1;"
OLD_TPARAMS = "int om; const oc1, oc2, oc3"


def lv(L):
    k = L[0]
    if k == "id":
        return L[1]
    if k == "idx":
        return lv(L[1]) + "[0]"
    if k == "fld":
        if L[1] == ["id", "mix"]:
            return "mix" + (".a" if L[2] == 1 else ".bb")
        return lv(L[1]) + (".f" if L[2] == 1 else ".h")
    if k == "cond":
        return "(b ? %s : %s)" % (lv(L[1]), lv(L[2]))
    if k == "comma":
        return "(%s, %s)" % (lv(L[1]), lv(L[2]))
    raise ValueError(L)


TR2 = {"name": "TR2", "params": "int &q1, int &q2", "locations": [{"id": "id0"}], "init": "id0", "edges": [{"src": "id0", "dst": "id0", "assign": "q1 = 1, q2 = 1"}]}


def mk_placer():
    return batch.Placer(BASE_DECL, tparams=TPARAMS, extra_templates=[TR, TR2], extra_system="P0 = T(1, cg, 1, m);\nsystem P0;")


def mk_old_placer():
    return batch.Placer(OLD_DECL, tparams=OLD_TPARAMS, extra_system="P0 := T(m, 2, 3, 4);\nsystem P0;", job_extra={"newxta": False})


UPD_STRIDE = 4


def place(n, cs):
    """-> list of cases (one per placement)"""
    text = lv(cs["lv"])
    wheres = {WHERE[r] for r in cs["roots"]}
    out = []
    if cs["wf"] == "tmplref":
        return [{"role": "system", "text": "Q%d = TR(%s);" % (n, text), "ctx": "template-ref-arg"}]
    if cs["wf"] == "tmplref_partial_last":
        return [{"role": "system", "text": "Q%d(int &y) = TR2(y, %s);" % (n, text), "ctx": "partial-instantiation-last-ref-arg"}]
    if cs["wf"] == "tmplref_partial_first":
        return [{"role": "system", "text": "Q%d(int &y) = TR2(%s, y);" % (n, text), "ctx": "partial-instantiation-first-ref-arg"}]
    if cs["lv"][0] == "comma":     # the write is the second operand of a comma expression: `m = 1, <write>`
        w = "%s = 1, %s" % (lv(cs["lv"][1]), OPS[cs["wf"]] % lv(cs["lv"][2]))
    else:
        w = OPS[cs["wf"]] % text
    comma = cs["lv"][0] == "comma"      # the grammar has comma expressions only in update lists
    if wheres <= {"global"}:
        out.append({"role": "assign", "text": w, "ctx": "update"})
        if not comma:
            out.append({"role": "gdecl", "text": "void w%d() { %s; }" % (n, w), "ctx": "function"})
        # the update hooks of the model: a document holds one of each, so such a case has a model of its own
        if n % UPD_STRIDE == 0:
            out.append({"role": "gdecl", "text": "before_update { %s }" % w, "ctx": "before_update", "alone": True})
        if n % UPD_STRIDE == UPD_STRIDE // 2:
            out.append({"role": "gdecl", "text": "after_update { %s }" % w, "ctx": "after_update", "alone": True})
    elif comma:
        pass
    elif wheres & {"flocal", "fparam", "iter"}:
        body = "for (ki : int[0,1]) { %s; }" % w if "iter" in wheres else "%s;" % w
        out.append({"role": "gdecl", "text": "void h%d(%s) { const int cl = 1; int l = 0; %s }" % (n, FSIG, body), "ctx": "function"})
    elif "select" in wheres:
        out.append({"role": "assign", "text": w, "with": {"select": "ks : int[0,1]"}, "ctx": "update+select"})
    elif "tparam" in wheres:
        out.append({"role": "assign", "text": w, "ctx": "update(template parameter)"})
    elif "oldtparam" in wheres and cs["wf"] != "funref" and cs["lv"][0] == "id":
        out.append({"role": "assign", "text": w, "ctx": "update(3.x template parameter)", "old": True})
    return out


def run(tier):
    c = vf.Check("C12", tier)
    outf = os.path.join(c.run_dir, "cases.ndjson")
    mc = vf.run_tlc("ConstnessMC", "Constness.cfg", c.run_dir, env={"OUTF": outf}, timeout=900)
    spec = mc.emitted[0]
    univ = vf.read_ndjson(outf)
    mc.distinct = max(mc.distinct, len(univ)); mc.generated = max(mc.generated, len(univ))
    c.add_tlc("Constness", mc, "Sound=%s TwinOK=%s over %d cases" % (spec["sound"], spec["twinok"], spec["n"]))
    cases, info = [], {}
    for n, cs in enumerate(univ):
        for pl in place(n, cs):
            cid = "c%d" % len(cases)
            case = {"id": cid, "role": pl["role"], "text": pl["text"]}
            if "with" in pl:
                case["with"] = pl["with"]
            if pl.get("old"):
                case["old"] = True
            if pl.get("alone"):
                case["alone"] = True
            cases.append(case)
            info[cid] = (cs, pl)
    verdict = batch.run_placed(vf, [x for x in cases if not x.get("old") and not x.get("alone")], mk_placer, c.run_dir, per=50)
    verdict.update(batch.run_placed(vf, [x for x in cases if x.get("alone")], mk_placer, c.run_dir, per=1, name="upd"))
    verdict.update(batch.run_placed(vf, [x for x in cases if x.get("old")], mk_old_placer, c.run_dir, per=50, name="old"))
    nontrivial = drift = 0
    for case in cases:
        cs, pl = info[case["id"]]
        msgs = verdict[case["id"]]
        accepted = not msgs
        rep = {"decl": BASE_DECL, "fsig": FSIG, "tparams": TPARAMS, "placement": pl, "text": case["text"], "const_target": cs["const"],
               "lvalue": cs["lv"], "write_form": cs["wf"], "diagnostics": msgs}
        key = "%s:%s:%s" % (cs["wf"], json.dumps(cs["lv"]), pl["ctx"])
        if cs["const"]:
            nontrivial += 1
            if accepted:
                c.finding("c12:const-write-accepted:" + key, "write to a constant accepted (%s): %s" % (pl["ctx"], case["text"]), rep)
        elif not accepted and cs["allmut"]:
            c.finding("c12:mutable-write-rejected:" + key, "write to a mutable object rejected (%s): %s (%s)" % (pl["ctx"], case["text"], msgs[:2]), rep)
        if cs["modifiable"] != accepted:
            drift += 1
    if not spec["sound"] and not c.violations and not c.known_hit:
        raise vf.MachineryError("Constness.tla is unsound at spec level but libutap rejected every const write: transcription stale")
    c.cov["traces_validated_against_impl"] = len(cases)
    c.cov["evaluations"] = len(cases)
    c.cov["distinct_nontrivial"] = nontrivial
    c.cov["rule"] = "declared sources (13 const/binder, 11 mutable twins) x int-typed access paths x 16 write forms (+conditional/comma lvalues mixing a mutable object, reference argument to function and to template instantiation), each placed in every scope that can name its roots; non-trivial = target is const"
    c.cov["exhaustive"] = True
    c.cov["transcription_mismatches"] = drift
    c.cov["spec_level"] = spec
    for k in (0, len(cases) // 3, len(cases) // 2, len(cases) - 1):
        cs, pl = info[cases[k]["id"]]
        c.sample({"text": cases[k]["text"], "ctx": pl["ctx"], "const": cs["const"], "accepted": not verdict[cases[k]["id"]]})
    c.assumptions += ["TLC 1.8.0", "type terms in Constness.tla match what the builder composes (checked against the canonical dump when the module was written)"]
    return c.finish()


def replay(path):
    rec = json.load(open(path))["replay"]
    c = vf.Check("C12", "quick")
    case = {"id": "c0", "role": rec["placement"]["role"], "text": rec["text"]}
    if "with" in rec["placement"]:
        case["with"] = rec["placement"]["with"]
    v = batch.run_placed(vf, [case], mk_placer, c.run_dir, per=1)
    print(json.dumps({"text": rec["text"], "accepted": not v["c0"], "diagnostics": v["c0"], "const_target": rec["const_target"]}))
    return 1 if (rec["const_target"] == (not v["c0"])) else 0
