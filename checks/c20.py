"""C20 — the XML writer's template graph mirrors the document it was given.
XmlWriter.tla (EXTENDS DocGen): ExpXml(M) from the statement, Written(M) = transcription of XMLWriter's procedures on the
mirror document; TLC checks Written = ExpXml on the DocGen universe and emits the models. Each accepted M is parsed,
written with write_XML_file (ASan/UBSan build), the file is read with python's expat-based ElementTree (an independent
XML parser, never libutap) and compared with ExpXml(M)."""
import json, os, re
import xml.etree.ElementTree as ET
import vf, docgen, xmlgen


def _labels(el):
    d = {}
    dup = []
    for l in el.findall("label"):
        k = l.get("kind")
        if k in d:
            dup.append(k)
        d[k] = (l.text or "").strip()
    return d, dup


def _selnorm(s):
    """`k : int[0,2], n : id_t` -> [("k","int[0,2]"),("n","id_t")]  (const prefix and blanks are not part of the mirror)"""
    out = []
    for part in [p for p in re.split(r",(?![^\[]*\])", s) if p.strip()]:
        if ":" not in part:
            out.append((part.strip(), "?"))
            continue
        n, t = part.split(":", 1)
        out.append((n.strip(), re.sub(r"\s+", "", t).replace("const", "")))
    return out


def _unparen(s):
    """`(x <= N && i < 3)`: one redundant outer pair of parentheses does not change the label's text"""
    s = s.strip()
    if s.startswith("(") and s.endswith(")"):
        depth = 0
        for k, ch in enumerate(s):
            depth += ch == "("
            depth -= ch == ")"
            if depth == 0 and k < len(s) - 1:
                return s
        return s[1:-1].strip()
    return s


def read_written(path):
    """-> (abstract tree as XmlWriter.ExpXml shapes it, list of structural problems)"""
    root = ET.parse(path).getroot()
    problems = []
    out = []
    for t in root.findall("template"):
        locs, ids = [], {}
        for k, l in enumerate(t.findall("location")):
            lab, dup = _labels(l)
            problems += ["duplicate %s label on a location" % d for d in dup]
            i = l.get("id")
            if i in ids:
                problems.append("location id %s is not unique within template %s" % (i, t.findtext("name")))
            ids[i] = ("loc", k + 1)
            flag = "committed" if l.find("committed") is not None else "urgent" if l.find("urgent") is not None else ""
            locs.append({"name": (l.findtext("name") or "").strip(), "inv": _unparen(lab.get("invariant", "")), "rate": lab.get("exponentialrate", ""), "flag": flag})
        bps = t.findall("branchpoint")
        for k, b in enumerate(bps):
            i = b.get("id")
            if i in ids:
                problems.append("branchpoint id %s is not unique within template" % i)
            ids[i] = ("bp", k + 1)
        inits = t.findall("init")
        init = 0
        if len(inits) > 1:
            problems.append("%d init elements" % len(inits))
        if inits:
            r = ids.get(inits[0].get("ref"))
            if r is None or r[0] != "loc":
                problems.append("init reference %s does not identify a location" % inits[0].get("ref"))
            else:
                init = r[1]
        trans = []
        for e in t.findall("transition"):
            lab, dup = _labels(e)
            problems += ["duplicate %s label on a transition" % d for d in dup]
            s = e.find("source"); d = e.find("target")
            sr = ids.get(s.get("ref")) if s is not None else None
            dr = ids.get(d.get("ref")) if d is not None else None
            if sr is None or dr is None:
                problems.append("transition endpoint reference does not resolve (%s -> %s)" % (s.get("ref") if s is not None else None, d.get("ref") if d is not None else None))
            trans.append({"src": list(sr) if sr else None, "dst": list(dr) if dr else None, "control": e.get("controllable", "true") == "true",
                          "select": [n for n, _ in _selnorm(lab.get("select", ""))], "seltxt": lab.get("select", ""),
                          "guard": lab.get("guard", ""), "sync": lab.get("synchronisation", ""), "assign": lab.get("assignment", ""),
                          "prob": lab.get("probability", "")})
        out.append({"name": (t.findtext("name") or "").strip(), "locs": locs, "nbps": len(bps), "init": init, "trans": trans})
    return out, problems


def run(tier):
    c = vf.Check("C20", tier)
    quick = tier == "quick"
    vf.build_lib("asan")
    models = docgen.generate(c, ["struct", "labels", "mixed"], 1200 if quick else 12000, c.seed, module="XmlWriter", bfs_budget=2 if quick else 3,
                             invariants=("WellFormed", "WriterMirrors", "EmitDoneW"))
    if len(models) < 200:
        raise vf.MachineryError("DocGen produced only %d models" % len(models))
    wdir = os.path.join(c.run_dir, "written")
    os.makedirs(wdir, exist_ok=True)
    jobs = []
    special = {"L0": "a&b", "L1": "x<y", "L2": "q\"r"}       # location names cannot hold XML-special text (identifiers); it lives in labels: `i < 2`, `x <= N && i < 3`
    for n, e in enumerate(models):
        jobs.append({"id": "w%d" % n, "entry": "xml_buffer", "text": xmlgen.render_xml(docgen.to_xmlgen(e["m"])), "write_xml": os.path.join(wdir, "w%d.xml" % n), "structure": False})
    res = vf.run_jobs(jobs, c.run_dir, variant="asan", name="c20")
    ncmp = nbp = nself = npar = nesc = 0
    for n, e in enumerate(models):
        r = res["w%d" % n]
        m = e["m"]
        xml = jobs[n]["text"]
        has_bp_edge = any(x["src"] in t["bps"] or x["dst"] in t["bps"] for t in m["templs"] for x in t["edges"])
        if r.get("outcome") in ("signal", "timeout", "abnormal-exit") or r.get("sanitizer"):
            c.finding("c20:crash:%s" % ("branchpoint-edge" if has_bp_edge else "plain"),
                      "write_XML_file crashed (%s) on an accepted model%s" % (r.get("outcome") or "sanitizer report", " with an edge through a branchpoint" if has_bp_edge else ""),
                      {"xml": xml, "model": m, "stderr": (r.get("stderr") or r.get("sanitizer") or "")[:1500]})
            continue
        if r.get("main", {}).get("outcome") != "return" or r["dump"]["doc"]["errors"]:
            raise vf.MachineryError("generated model not accepted (C04 decides that): %s" % json.dumps(r)[:500])
        w = r.get("write", {})
        if w.get("outcome") != "return":
            c.finding("c20:throw:%s" % w.get("exc"), "write_XML_file threw %s: %s" % (w.get("exc"), w.get("what")), {"xml": xml, "model": m})
            continue
        path = jobs[n]["write_xml"]
        try:
            got, problems = read_written(path)
        except ET.ParseError as ex:
            c.finding("c20:not-well-formed", "the written file is not well-formed XML: %s" % ex, {"xml": xml, "model": m, "written": open(path, errors="replace").read()[:3000]})
            continue
        ncmp += 1
        nbp += has_bp_edge
        nself += any(x["src"] == x["dst"] for t in m["templs"] for x in t["edges"])
        npar += any(len({(x["src"], x["dst"]) for x in t["edges"]}) < len(t["edges"]) for t in m["templs"])
        nesc += any(("<" in (x["guard"] + x["asg"])) or "&" in x["guard"] for t in m["templs"] for x in t["edges"])
        for p in problems:
            c.finding("c20:structure:%s" % re.sub(r"\S*\d\S*", "#", p), p, {"xml": xml, "model": m, "written": open(path).read()[:4000]})
        exp = e["xml"]
        # select: names must match; the binder type is compared as normalised text
        for t_e, t_g in zip(exp, got):
            for x_e, x_g in zip(t_e["trans"], t_g["trans"]):
                if _selnorm(x_e["seltxt"]) == _selnorm(x_g["seltxt"]):
                    x_g["seltxt"] = x_e["seltxt"]
        d = docgen.diff(exp, got)
        if d:
            c.finding("c20:%s" % docgen.diff_class(d[0]), "written file differs from the document at %s: expected %s, got %s" % (d[0][0], json.dumps(d[0][1]), json.dumps(d[0][2])),
                      {"xml": xml, "model": m, "expected": exp, "got": got, "differences": d, "written": open(path).read()[:4000]})
        os.unlink(path)
    # ---- the production zoo's accepted models: declarations with every type / statement / builtin and a template with every element kind;
    # writing must not crash and must give well-formed XML (the comparison with ExpXml is for the DocGen universe)
    import zoo
    zjobs = [{"id": "z%d" % k, "entry": "xml_buffer", "text": xmlgen.render_xml(zm), "write_xml": os.path.join(wdir, "z%d.xml" % k), "structure": False} for k, (zn, zm) in enumerate(zoo.accepted_models())]
    zres = vf.run_jobs(zjobs, c.run_dir, variant="asan", name="c20zoo")
    for (zn, zm), j in zip(zoo.accepted_models(), zjobs):
        r = zres[j["id"]]
        if r.get("outcome") in ("signal", "timeout", "abnormal-exit") or r.get("sanitizer"):
            c.finding("c20:crash:%s" % zn, "write_XML_file crashed (%s) on the accepted model %s" % (r.get("outcome") or "sanitizer report", zn), {"xml": j["text"], "stderr": (r.get("stderr") or r.get("sanitizer") or "")[:1500]})
            continue
        if r.get("main", {}).get("outcome") != "return" or r["dump"]["doc"]["errors"]:
            raise vf.MachineryError("zoo model %s not accepted: %s" % (zn, json.dumps([e["msg"] for e in r.get("dump", {}).get("doc", {}).get("errors", [])])[:400]))
        if r.get("write", {}).get("outcome") != "return":
            c.finding("c20:throw:%s:%s" % (zn, r["write"].get("exc")), "write_XML_file threw %s on the accepted model %s" % (r["write"].get("exc"), zn), {"xml": j["text"]})
            continue
        try:
            ET.parse(j["write_xml"])
            ncmp += 1
        except ET.ParseError as ex:
            c.finding("c20:not-well-formed:%s" % zn, "the file written for %s is not well-formed XML: %s" % (zn, ex), {"xml": j["text"], "written": open(j["write_xml"], errors="replace").read()[:3000]})
    c.cov["traces_validated_against_impl"] = ncmp
    c.cov["evaluations"] = ncmp
    c.cov["distinct_nontrivial"] = sum(1 for e in models if any(t["edges"] for t in e["m"]["templs"]))
    c.cov.update({"models": len(models), "with_branchpoint_edges": nbp, "with_self_loops": nself, "with_parallel_edges": npar, "with_xml_special_text_in_labels": nesc})
    c.cov["rule"] = "models = distinct 'done' states of XmlWriter.tla/DocGen.tla; each parsed, written by write_XML_file under ASan/UBSan, read back with ElementTree and compared with ExpXml(M); non-trivial = has edges"
    c.sample({"model": models[len(models) // 2]["m"], "expected_xml": models[len(models) // 2]["xml"]})
    c.assumptions += ["python xml.etree.ElementTree (expat) is the independent XML parser", "binder types of select labels are compared as text modulo blanks and an implicit const"]
    return c.finish()


def replay(path):
    rec = json.load(open(path))["replay"]
    c = vf.Check("C20", "quick")
    out = os.path.join(c.run_dir, "replay.xml")
    r = vf.run_jobs([{"id": "r", "entry": "xml_buffer", "text": rec["xml"], "write_xml": out, "structure": False}], c.run_dir, variant="asan")["r"]
    print(json.dumps({k: r.get(k) for k in ("outcome", "write", "sig")}))
    if os.path.exists(out):
        print(open(out).read())
    return 1
