"""C15 — a parse result depends only on its input, not on earlier parses in the process.
Tracker.tla: the process-global state of lexer/parser/position tracker (position counter modulo M with the INT_MAX
sentinel scaled to M/2-1, bison's static yylloc, flex start condition, the grammar's array-dimension counter) as a state
machine over call histories; Result(call, g) is computed with the code's own position arithmetic; TLC checks
HistoryIndependent (Result(call, g) = Result(call, G0)) on all histories up to a length and exports them.
B2: every history is mapped to concrete calls (block parses through every kind of entry point, XML, XTA, queries, calls that
report diagnostics, calls that end in an exception thrown through utap_parse, unterminated comments, aborted array
dimensions, inputs placed near 2^31 and 2^32 of the global counter by assigning UTAP::tracker.position) and executed in one
process; every call is also executed alone in a freshly forked child; the two result records (return value / exception
class, diagnostics with path-line-column, document, supported-analysis verdict) must be equal."""
import json, os, random
import vf, docgen, xmlgen, lexconf

SC = "int i; clock x; chan c;"
XML_OK = xmlgen.render_xml({"decl": "int i; clock x;", "templates": [{"name": "T", "locations": [{"id": "id0", "name": "A", "inv": "x <= 3"}], "init": "id0",
                            "edges": [{"src": "id0", "dst": "id0", "guard": "i < 2", "assign": "i = i + 1"}]}], "system": "system T;"})
XML_DIAG = XML_OK.replace("i &lt; 2", "i &lt; nosuch\n + x").replace("x &lt;= 3", "\n\n x + c")
XML_THROW = XML_OK.replace('<target ref="id0"/>', '<target ref="id77"/>')
XTA_OK = "int i; clock x;\nprocess P() { state A { x <= 3 }; init A; trans A -> A { guard i < 2; assign i = 1; }; }\nsystem P;\n"
XTA_DIAG = XTA_OK.replace("i < 2", "i <\n nosuch")

CONCRETE = {   # abstract call kind of Tracker.tla -> concrete model_run calls
    "ok": [{"entry": "part", "part": "S_DECLARATION", "text": "int v = 1;"}, {"entry": "xml_buffer", "text": XML_OK}, {"entry": "xta", "text": XTA_OK},
           {"entry": "xml_buffer", "text": XML_OK, "queries": ["A[] T.A", "E<> i == 1"], "query_builder": "tiga"},
           {"entry": "part", "part": "S_EXPRESSION", "text": "i + 1", "scaffold": SC}, {"builder": "pretty", "entry": "xta", "text": XTA_OK},
           {"entry": "none", "queries": ["E<> true", "A[] 1 < 2"], "query_builder": "tiga"}, {"entry": "none", "queries": ["E<> 2 > 1"], "query_builder": "property"},   # a query as the very first thing a call does
           ],
    "scalar": [{"entry": "part", "part": "S_DECLARATION", "text": "typedef scalar[2] sid; sid sv; scalar[3] anon; int perm[sid];"},                      # scalar sets get generated type labels
           {"entry": "xta", "text": "typedef scalar[3] pid_t;\n" + XTA_OK.replace("process P()", "process P(pid_t id)")},
           {"entry": "xml_buffer", "text": XML_OK.replace("int i; clock x;", "int i; clock x; scalar[2] tok; typedef scalar[4] S4;")},
           {"entry": "xml_buffer", "text": XML_OK.replace("int i; clock x;", "int i; clock x; scalar[2] k0;"), "queries": ["E<> exists (k : scalar[2]) k == k0", "A[] forall (j : scalar[3]) true"], "query_builder": "tiga"}],
    "err": [{"entry": "part", "part": "S_DECLARATION", "text": "int v = ;"}, {"entry": "xml_buffer", "text": XML_DIAG}, {"entry": "xta", "text": XTA_DIAG},
            {"entry": "part", "part": "S_GUARD", "text": "i < ) 2", "scaffold": SC}, {"entry": "xml_buffer", "text": XML_OK, "queries": ["A[] (T.A", "E<> nosuch"], "query_builder": "tiga"},
            {"entry": "part", "part": "S_SYSTEM", "text": "system Nosuch;"}, {"entry": "none", "queries": ["E<> nosuch", "A[] ("], "query_builder": "tiga"},
            {"entry": "part", "part": "S_DECLARATION", "text": "scalar[2] a1; scalar[2] b1; int z = a1 == b1;"}],
    "nlerr": [{"entry": "part", "part": "S_DECLARATION", "text": "int v;\n\nint = 2;"}, {"entry": "part", "part": "S_DECLARATION", "text": "int v;\r\nint w\r\n = ;"},
              {"entry": "part", "part": "S_DECLARATION", "text": "int v; // c\n/* a\n b */ int 5;"}, {"entry": "part", "part": "S_ASSIGN", "text": "i = 1,\n nosuch = 2", "scaffold": SC}],
    "empty": [{"entry": "part", "part": "S_EXPRESSION", "text": "", "builtins": False}, {"entry": "part", "part": "S_DECLARATION", "text": "", "builtins": False},
              {"builder": "pretty", "entry": "part", "part": "S_EXPRESSION", "text": ""}, {"entry": "part", "part": "S_EXPRESSION", "text": ""}, {"entry": "part", "part": "S_GUARD", "text": "", "scaffold": SC}, {"entry": "part", "part": "S_SYSTEM", "text": ""},
              {"entry": "xml_buffer", "text": XML_OK, "queries": [""], "query_builder": "tiga"}, {"entry": "part", "part": "S_PARAMETERS", "text": ""}],
    "blank": [{"entry": "part", "part": "S_EXPRESSION", "text": "\n", "builtins": False}, {"entry": "part", "part": "S_EXPRESSION", "text": "\n"}, {"entry": "part", "part": "S_SYNC", "text": "  \n\n ", "scaffold": SC}, {"entry": "part", "part": "S_EXPRESSION", "text": "// only a comment"}],
    # external functions: the same name imported from a library that has it / from one that lacks it (both libraries are glibc's)
    "extgood": [{"entry": "xta", "text": 'import "libm.so.6" { double j0(double x); };\nprocess P() { state A; init A; }\nsystem P;'},
                {"entry": "part", "part": "S_DECLARATION", "text": 'import "libm.so.6" { double j0(double x); double y1(double x); };'}],
    "extbad": [{"entry": "xta", "text": 'import "libc.so.6" { double j0(double x); };\nprocess P() { state A; init A; }\nsystem P;'},
               {"entry": "part", "part": "S_DECLARATION", "text": 'import "libc.so.6" { double y1(double x); };'}],
    # a document that outlives its call, queries parsed against it later, and whole .xta texts in between
    # (the kept models are long, the .xta texts in between short: the position counter is far ahead when the short text begins)
    "keep": [{"keep_doc": True, "entry": "xml_buffer", "text": XML_OK.replace("int i; clock x;", "int i; clock x; /* " + "a kept model " * 60 + "*/")},
             {"keep_doc": True, "entry": "xta", "text": "/* " + "a kept model " * 60 + "*/\n" + XTA_OK}],
    "late": [{"late_queries": ["E<> i > 0", "A[] nosuch > 0", "E<> i +"], "query_builder": "tiga"}, {"late_queries": ["A[] i >= 0"], "query_builder": "property"}],
    "xtaok": [{"entry": "xta", "text": "process Y() { state A; init A; } system Y;"}, {"entry": "xta", "text": "int q; process Z() { state A; init A; } system Z;"}],
    "dimabort": [{"entry": "part", "part": "S_DECLARATION", "text": "int a[int[0,1]][;"}, {"entry": "part", "part": "S_DECLARATION", "text": "typedef int[0,1] t; int a[t][t]["},
                 {"entry": "part", "part": "S_PARAMETERS", "text": "int &a[int[0,1]]["}],
    "array": [{"entry": "part", "part": "S_DECLARATION", "text": "int g[2]; int h[3][4]; int k[2] = {1, 2};"}, {"entry": "xta", "text": "int g[2][3];\n" + XTA_OK},
              {"entry": "part", "part": "S_PARAMETERS", "text": "int &q[3], int r"}],
    "cmteof": [{"entry": "part", "part": "S_DECLARATION", "text": "int v; /* open"}, {"entry": "part", "part": "S_GUARD", "text": "i < 2 /* EXPECT:x", "scaffold": SC},
               {"entry": "xml_buffer", "text": XML_OK.replace("i = i + 1", "i = 1 /* never closed")},
               {"builder": "pretty", "entry": "part", "part": "S_DECLARATION", "text": "int v; /* open"},        # PrettyPrinter::handle_error throws: the call ends inside the lexer action
               {"builder": "pretty", "entry": "xta", "text": XTA_OK + "/* trailing"}],
    "throw": [{"builder": "expression", "entry": "part", "part": "S_DECLARATION", "text": "int v = 1;"}, {"entry": "xml_buffer", "text": XML_THROW},
              {"builder": "expression", "entry": "part", "part": "S_XTA_PROCESS", "text": "process P() { state A; init A; }"},
              {"builder": "expression", "entry": "part", "part": "S_DECLARATION", "text": "/* in a comment\n */ void f() { }"},
              {"builder": "pretty", "entry": "part", "part": "S_DECLARATION", "text": "int = ;"}, {"builder": "pretty", "entry": "part", "part": "S_GUARD", "text": "i < @ 2"},
              {"builder": "pretty", "entry": "property", "text": "A[] ("}],
}
# the production zoo as calls: rarely used constructs (gantt charts, dynamic templates, struct initialisers, 3.x syntax, every query form) must
# not leave process-global state behind either
import zoo as _zoo
for _d in _zoo.corpus():
    if _d["id"] in ("decls", "decls2", "decls3", "xta", "oldxta", "system") or _d["id"].startswith(("label", "oldlabel")):
        CONCRETE["ok"].append(dict(_d["job"], text=_d["text"]))
    elif _d["id"].startswith("error"):
        if _d["job"]["entry"] != "property":
            CONCRETE["err"].append(dict(_d["job"], text=_d["text"]))
CONCRETE["ok"].append({"entry": "none", "queries": [q for q in _zoo.QUERIES if q][:40], "query_builder": "tiga"})
CONCRETE["ok"].append({"entry": "none", "queries": [q for q in _zoo.QUERIES if q][40:], "query_builder": "property"})
ROOT_SETTERS = [{"entry": "xta", "text": XTA_OK}, {"entry": "xta", "text": XTA_OK.replace("A -> A", "A -u-> A")},
                {"entry": "xta", "text": "int i; clock x;\nprocess P { state A { x <= 3 }, B; init A; trans A -> B { guard i < 2; }, -> A { }; }\nsystem P;\n", "newxta": False},
                {"entry": "part", "part": "S_XTA_PROCESS", "text": "process P() { state A, B; init A; trans B -> A { }; }"}]
ROOT_PROBES = [{"entry": "xta", "text": "process Q() { state A, B; init A; trans -> B { }; }\nsystem Q;\n"},
               {"entry": "xta", "text": "process Q() { state A, B; init A; trans -u-> B { }, A -> B { }; }\nsystem Q;\n"},
               {"entry": "xta", "text": "process Q { state A, B; init A; trans -> B { }; }\nsystem Q;\n", "newxta": False},
               {"entry": "xta", "text": "process Q { state A, B; init A; trans -> B { }, B -> A { }, -> B { }; }\nsystem Q;\n", "newxta": False},
               {"entry": "part", "part": "S_XTA_PROCESS", "text": "process Q() { state A, B; init A; trans -> A { }; }"}]
BIG = {"big31": 2 ** 31 - 20, "big32": 2 ** 32 - 20, "big31b": 2 ** 31 - 3, "big32b": 2 ** 32 - 3}


# ---------------------------------------------------------------- the query builder as an object (QBuilder.tla)
QB_XTA = "clock x; int i; int[0,9] arr[3]; process P(){ state L0, L1; init L0; trans L0 -> L1 { guard x>1; }; } system P;"
QB_TEXT = {"plain": ["A[] i<4", "E<> P.L1", "simulate[<=10; 3]{i, x}", "Pr[<=10](<> P.L1)"],
           "declS": ["strategy S = control: A[] not P.L1", "strategy S = control: A<> P.L1"],
           "declF": ["strategy F = minE(x)[<=10] : <> P.L1", "strategy F = maxE(i)[<=20] : <> P.L1"],
           "declSerr": ["strategy S = control: A[] nosuch", "strategy S = control: A<> (deadlock and P.L1)"],
           "declFunderS": ["strategy F = minE(x)[<=10] : <> P.L1 under S"],
           "underS": ["E<> P.L1 under S", "Pr[<=10](<> P.L1) under S", "E[<=10; 5](max: i) under S"],
           "underF": ["Pr[<=10](<> P.L1) under F", "simulate[<=10; 3]{i, x} under F"],
           "cmpSF": ["Pr[<=10](<> P.L1) under S >= Pr[<=10](<> P.L1) under F"],
           "imitSF": ["maxE(i)[<=10] : <> P.L1 under S imitate F", "maxPr[<=10] : <> P.L1 under S imitate F"],
           "imitF": ["minE(x)[<=10] : <> P.L1 imitate F"],
           "synerrS": ["minE(x)[<=10] : <> P.L1 under S imitate 3", "Pr[<=10](<> P.L1) under S >= 0.5"],
           "typerrS": ["E<> nosuch under S", "Pr[<=10](<> P.L1 + 1 < x.y) under S"],
           "typerrSF": ["maxE(nosuch)[<=10] : <> P.L1 under S imitate F"],
           "throwS": ["A<> (deadlock and P.L1) under S"],
           "quantq": ["E<> forall (q : int[0,1]) arr[q] > 0", "A[] i > sum (q : int[0,2]) arr[q]"],
           "usesq": ["E<> q > 0", "A[] arr[q] < 5"],
           "synerrQ": ["E<> forall (q : int[0,1]) arr[q] +", "E<> i > sum (q : int[0,2]) arr[q] + +", "A[] exists (q : int[0,1]) (arr[q] > 0"],
           "clear": [{"clear": True}]}
QB_DECL = ("declS", "declF", "declFunderS", "declSerr")


def qb_obs(q):
    """what a query call hands to the client"""
    if q.get("cleared"):
        return {"cleared": True}
    return {"outcome": q.get("outcome"), "ret": q.get("ret"), "exc": q.get("exc"),
            "errors": sorted(e["msg"] for e in q.get("errors", [])),
            "props": [{k: p.get(k) for k in ("type", "s", "declaration", "subjections", "imitation")} for p in q.get("props", [])]}


def qbuilder_part(c, quick, rnd):
    """histories of queries on ONE builder: every history of QBuilder.tla, replayed on a TigaPropertyBuilder; the last query's result must be the one it
    gives on a builder that has seen only the strategy declarations in force"""
    consts = "CONSTANTS\n  MaxQueries = %d\n  ResetImit = TRUE\n  ResetOnFail = TRUE\n  ClearDecls = TRUE\n  DeclNeedsProperty = TRUE\n  FramesRestored = %%s\nINIT Init\nNEXT Next\n%%s" % (3 if quick else 4)
    # the design: with every reset in place the three invariants hold on every history
    cfg = os.path.join(c.run_dir, "QBuilder.cfg")
    open(cfg, "w").write(consts % ("TRUE", "VIEW View\n") + "INVARIANTS IndependentOfOtherQueries NoDangling DeclsAreDeclarations\nCHECK_DEADLOCK FALSE\n")
    mc = vf.run_tlc("QBuilder", cfg, c.run_dir, timeout=1500, keep_out=False)
    c.add_tlc("QBuilder", mc, "all histories of queries on one builder object; IndependentOfOtherQueries, NoDangling and DeclsAreDeclarations on every state")
    if mc.violated:
        raise vf.MachineryError("QBuilder.tla: %s is violated with every reset in place" % mc.violated)
    # the code as it is (the scope stack is not restored): the histories that are replayed, and what the model expects of each
    cfg = os.path.join(c.run_dir, "QBuilder_code.cfg")
    # no VIEW here: every HISTORY is a state of its own and is replayed - one representative per abstract state would assume what the replay is to establish,
    # that the implementation's state is a function of the model's
    open(cfg, "w").write(consts % ("FALSE", "") + "INVARIANTS EmitHist\nCHECK_DEADLOCK FALSE\n")
    mc = vf.run_tlc("QBuilder", cfg, c.run_dir, timeout=1500, keep_out=False)
    c.add_tlc("QBuilder_code", mc, "the same with the constants of the code (FramesRestored = FALSE): every history, with the result the model expects and whether it depends on earlier queries")
    hists = [e for e in mc.emitted if e["h"]]
    c.cov["builder_histories_model_says_dependent"] = len([e for e in hists if not e["indep"]])
    seen, uniq = set(), []
    for e in hists:
        if tuple(e["h"]) not in seen:
            seen.add(tuple(e["h"]))
            uniq.append(e)
    jobs, plan, refids = [], [], {}
    base = {"entry": "xta", "text": QB_XTA, "query_builder": "tiga", "one_builder": True, "clear_errors": True, "timeout": 60}
    for n, e in enumerate(uniq):
        h = e["h"]
        qs = [rnd.choice(QB_TEXT[k]) for k in h]
        start = max([i + 1 for i, k in enumerate(h[:-1]) if k == "clear"] or [0])
        ref = [q for k, q in list(zip(h, qs))[start:-1] if k in QB_DECL] + [qs[-1]]
        rk = json.dumps(ref)
        if rk not in refids:              # many histories have the same declarations in force and the same last query: one reference run for all of them
            refids[rk] = "ref%d" % len(refids)
            jobs.append(dict(base, id=refids[rk], queries=ref))
        jobs.append(dict(base, id="q%d" % n, queries=qs))
        plan.append(("q%d" % n, refids[rk], e, qs, ref))
    res = vf.run_jobs(jobs, c.run_dir, variant="asan", harness="model_run", name="qbuilder")
    drift = 0
    for jid, rid, e, qs, ref in plan:
        h = e["h"]
        r, rr = res[jid], res[rid]
        if "queries" not in rr:
            c.finding("c15:builder:%s-after-declarations:crash" % h[-1],
                      "the queries %s handed to one TigaPropertyBuilder end the process (%s)" % (json.dumps(ref), rr.get("outcome")),
                      {"builder_history": [k for k in h[:-1] if k in QB_DECL] + [h[-1]], "queries": ref, "reference": ref, "stderr": (rr.get("stderr") or "")[-1500:]})
            continue
        if "queries" not in r:
            c.finding("c15:builder:%s-after-%s:crash" % (h[-1], "+".join(sorted(set(h[:-1]))) or "-"),
                      "the queries %s handed to one TigaPropertyBuilder end the process (%s); the last one alone, after the declarations in force, gives %s" % (
                          json.dumps(qs), r.get("outcome"), json.dumps(qb_obs(rr["queries"][-1]))[:200]),
                      {"builder_history": h, "queries": qs, "reference": ref, "stderr": (r.get("stderr") or "")[-1500:]})
            continue
        a, b = qb_obs(rr["queries"][-1]), qb_obs(r["queries"][-1])
        if a != b:
            d = docgen.diff(a, b)
            key = "c15:builder:%s:leftover-%s" % (h[-1], "+".join(sorted(e["why"]))) if not e["indep"] else "c15:builder:%s-after-%s:%s" % (h[-1], "+".join(sorted(set(h[:-1]))) or "-", docgen.diff_class(d[0]))
            c.finding(key,
                      "query %s, parsed with a TigaPropertyBuilder that has parsed %s before, gives a different result than after only the strategy declarations in force (%s) at %s: there %s, here %s" % (
                          json.dumps(qs[-1]), json.dumps(qs[:-1]), json.dumps(ref[:-1]), d[0][0], json.dumps(d[0][1])[:160], json.dumps(d[0][2])[:160]),
                      {"builder_history": h, "queries": qs, "reference": ref, "differences": d})
        # the model's prediction of the result (DRIFT only)
        if h[-1] != "clear":
            props = b["props"]
            got = {"has": bool(props), "subj": [s.split(" = ")[0] for s in props[-1]["subjections"]] if props else [],
                   "imit": (props[-1]["imitation"] or "-").split(" = ")[0] if props else "-", "nerr": len(b["errors"]) > 0}
            want = {"has": e["res"]["has"], "subj": list(e["res"]["subj"]), "imit": e["res"]["imit"], "nerr": len(e["res"]["errs"]) > 0}
            if got != want:
                drift += 1
                if drift <= 3:
                    print("DRIFT QBuilder.tla predicts %s for the last query of %s, the builder gives %s" % (json.dumps(want), json.dumps(qs), json.dumps(got)))
    c.cov["builder_histories"] = len(uniq)
    c.cov["builder_history_calls"] = len(jobs)
    c.cov["builder_model_disagreements"] = drift
    return len(plan)


def record(r):
    """observable result of one call, positions as (path, line, column) only"""
    if r.get("outcome") in ("signal", "timeout", "abnormal-exit", "harness-error"):
        return {"crash": r.get("outcome")}
    out = {"main": {k: r.get("main", {}).get(k) for k in ("outcome", "ret", "exc", "what")}}
    if "kept_errors" in r:
        out["kept_errors"] = [(e["msg"], e["path"], e["sl"], e["sc"], e["el"], e["ec"], e["str"]) for e in r["kept_errors"]]
    for part in ("queries", "exprs"):
        if part in r:
            out[part] = [{"outcome": q.get("outcome"), "ret": q.get("ret"), "exc": q.get("exc"),
                          "errors": [(e["msg"], e["path"], e["sl"], e["sc"], e["el"], e["ec"], e["str"]) for e in q.get("errors", [])],
                          "props": [p.get("s") for p in q.get("props", [])]} for q in r[part]]
    d = r.get("dump", {})
    if d.get("outcome") == "return":
        doc = json.loads(json.dumps(d["doc"]))
        for kind in ("errors", "warnings"):
            doc[kind] = [(e["msg"], e["path"], e["sl"], e["sc"], e["el"], e["ec"], e["known"], e["str"]) for e in doc[kind]]
        out["doc"] = doc
    if "pretty" in r:
        out["pretty"] = r["pretty"]
    return out


def run(tier):
    c = vf.Check("C15", tier)
    quick = tier == "quick"
    vf.build_lib("plain")
    rnd = random.Random(c.seed)
    cfg = os.path.join(c.run_dir, "Tracker.cfg")
    open(cfg, "w").write("CONSTANTS\n  M = 64\n  MaxCalls = %d\n  LlocReset = TRUE\n  TypesReset = TRUE\n  ResetBeforeReport = TRUE\n  ScalarPerBuilder = TRUE\n  NoSymbolCache = TRUE\n  XtaKeepsCounter = TRUE\nINIT Init\nNEXT Next\nINVARIANTS EmitHist\nCHECK_DEADLOCK FALSE\n" % (3 if quick else 4))
    mc = vf.run_tlc("Tracker", cfg, c.run_dir, timeout=1500, keep_out=False)
    c.add_tlc("Tracker", mc, "all call histories; HistoryIndependent evaluated on every state (counter scaled to M = 64)")
    hists = [e for e in mc.emitted if e["h"]]
    dep = [e for e in hists if not e["indep"]]
    c.cov["spec_histories"] = len(hists)
    c.cov["spec_history_dependent"] = len(dep)
    c.cov["spec_dependence_through"] = sorted({w for e in dep for w in e["why"]})
    # concrete histories: every abstract history in several concrete instantiations, plus random mixes with counter seeding
    jobs = []
    for n, e in enumerate(hists):
        for rep in range(1 if quick else 3):
            calls = []
            for k in e["h"]:
                if k == "big":
                    base = dict(rnd.choice(CONCRETE["err"]))
                    base["set_position"] = rnd.choice(list(BIG.values()))
                    calls.append(base)
                else:
                    calls.append(dict(rnd.choice(CONCRETE[k])))
            jobs.append({"id": "h%d_%d" % (n, rep), "calls": calls, "abstract": e["h"], "timeout": 120})
    kinds = list(CONCRETE)
    for n in range(150 if quick else 2000):
        ks = [rnd.choice(kinds) for _ in range(rnd.randint(2, 6))]
        calls = [dict(rnd.choice(CONCRETE[k])) for k in ks]
        if rnd.random() < 0.3:
            calls[rnd.randrange(len(calls))]["set_position"] = rnd.choice(list(BIG.values()))
        jobs.append({"id": "r%d" % n, "calls": calls, "abstract": ks, "timeout": 120})
    # the grammar's own statics (the source location remembered for `-> B { }` continuation entries of a `trans` list): a text whose list
    # begins with a continuation entry has no source of its own, so what it gives must not depend on the transitions of earlier texts
    for a, st in enumerate(ROOT_SETTERS):
        for b, pr in enumerate(ROOT_PROBES):
            jobs.append({"id": "root%d_%d" % (a, b), "calls": [dict(st), dict(pr)], "abstract": ["ok", "err"], "timeout": 120})
            jobs.append({"id": "root%d_%d_%d" % (a, b, b), "calls": [dict(st), dict(pr), dict(st), dict(pr)], "abstract": ["ok", "err", "ok", "err"], "timeout": 120})
    for j in jobs:
        last_keep = None
        for cl in j["calls"]:
            cl.setdefault("structure", True)
            if cl.get("keep_doc"):
                last_keep = {k: v for k, v in cl.items() if k in ("keep_doc", "entry", "text", "newxta")}
            elif "late_queries" in cl and last_keep is not None:
                cl["kept_model"] = last_keep          # the fresh reference parses the model the queries are about, and nothing else, first
    res = vf.run_jobs(jobs, c.run_dir, variant="plain", harness="replay_history", name="hist")
    ncalls = 0
    for j in jobs:
        r = res[j["id"]]
        if "history" not in r:
            c.finding("c15:crash", "a history crashed the process: %s (%s)" % (j["abstract"], r.get("outcome")), {"abstract": j["abstract"], "calls": j["calls"], "stderr": (r.get("stderr") or "")[:1500]})
            continue
        for k, (cl, fr, hi) in enumerate(zip(j["calls"], r["fresh"], r["history"])):
            ncalls += 1
            a, b = record(fr), record(hi)
            if a != b:
                d = docgen.diff(a, b)
                wrap = "set_position" in cl or any("set_position" in x for x in j["calls"][:k])
                prev = j["abstract"][k - 1] if k else "-"
                if wrap:
                    key = "c15:position-counter-near-2^31-or-2^32"
                else:
                    key = "c15:%s-after-%s:%s" % (j["abstract"][k], prev, docgen.diff_class(d[0]))
                c.finding(key, "call %d (%s) of the history %s gives a different result than in a fresh process at %s: fresh %s, here %s" % (
                    k, j["abstract"][k], j["abstract"], d[0][0], json.dumps(d[0][1])[:160], json.dumps(d[0][2])[:160]),
                    {"abstract": j["abstract"], "calls": j["calls"], "call_index": k, "differences": d})
    nb = qbuilder_part(c, quick, rnd)
    # the scanner's start condition is process-global: whatever the text (open comments included) the scan must end in INITIAL (LexMC!LeavesInitial on the extracted rules; the real scanner probed after every text)
    nb += lexconf.run(c, quick, "C15", only=("comment", "all", "all_query"))
    c.cov["traces_validated_against_impl"] = len(jobs) + nb
    c.cov["evaluations"] = ncalls + nb
    c.cov["distinct_nontrivial"] = len(jobs)
    c.cov["rule"] = "histories = every history of Tracker.tla up to the bound (each instantiated with concrete calls) + random mixes with the position counter placed near 2^31/2^32; non-trivial = every history (>= 1 call with a fresh-process reference)"
    c.sample({"abstract": jobs[len(jobs) // 2]["abstract"], "calls": [{k: (v if k != "text" else v[:80]) for k, v in cl.items()} for cl in jobs[len(jobs) // 2]["calls"]]})
    c.assumptions += ["TLC 1.8.0", "cumulative input size is simulated by assigning the exported global UTAP::tracker.position (gigabytes of input are not parsed)",
                      "the fresh reference is a forked child that has parsed nothing"]
    return c.finish()


def replay(path):
    rec = json.load(open(path))["replay"]
    c = vf.Check("C15", "quick")
    if "builder_history" in rec:
        base = {"entry": "xta", "text": QB_XTA, "query_builder": "tiga", "one_builder": True, "clear_errors": True, "timeout": 60}
        res = vf.run_jobs([dict(base, id="full", queries=rec["queries"]), dict(base, id="ref", queries=rec["reference"])], c.run_dir, variant="asan", harness="model_run")
        for k in ("full", "ref"):
            r = res[k]
            print(k, json.dumps([qb_obs(q) for q in r["queries"]] if "queries" in r else {"outcome": r.get("outcome"), "stderr": (r.get("stderr") or "")[-800:]}, indent=1))
        return 1
    r = vf.run_jobs([{"id": "r", "calls": rec["calls"]}], c.run_dir, variant="plain", harness="replay_history")["r"]
    k = rec["call_index"]
    print(json.dumps(docgen.diff(record(r["fresh"][k]), record(r["history"][k])), indent=1))
    return 1
