"""C14 — typing of commutative operators, inline-if and reference-parameter compatibility is symmetric.
SymTyping.tla: transcription Rule(op,a,b) of typechecker.cpp over an operand type universe; TLC evaluates Sym on
every ordered pair and exports the cases; each case is rendered in both operand orders, type-checked by the real
library (checkExpression on the parsed tree) and the two outcomes compared (the property) and with Rule (drift)."""
import json, os
import vf

DECL = """int i; int[0,5] bi; bool bo; double d; clock x, y;
typedef scalar[3] SA; typedef scalar[3] SB; SA sa; SB sb;
typedef struct { int f; } RA; typedef struct { int f; int g; } RB; typedef struct { int f; } RA2;
RA ra; RB rb; RA2 ra2;
int ai[3]; int ai2[4]; clock ax[3];
chan c; broadcast chan bc; urgent chan uc;
const int ci = 1; const int[0,5] cbi = 1; const bool cbo = true; const double cd = 1.0;
meta int mi; meta SA msa; meta SB msb; meta bool mbo; meta double md; meta RA mra;
const RA cra = {1}; const RB crb = {1,2}; const RA2 cra2 = {1}; const int cai[3] = {1,2,3}; const int cai2[4] = {1,2,3,4};
"""
TYNAME = {"int": "int", "bint": "int[0,5]", "bool": "bool", "double": "double", "clock": "clock", "scalarA": "SA",
          "scalarB": "SB", "recA": "RA", "recB": "RB", "recA2": "RA2"}
ARR = {"arrInt": ("int", "[3]"), "arrInt2": ("int", "[4]"), "arrClock": ("clock", "[3]")}
# (the meta spellings: a prefix on either operand must not decide whether two types fit)
VARS = {"int": ["i", "1", "i + 1", "mi"], "bint": ["bi"], "bool": ["bo", "true", "!bo", "mbo"], "double": ["d", "1.5", "d * 2.0", "md"],
        "clock": ["x"], "diff": ["x - y"], "scalarA": ["sa", "msa"], "scalarB": ["sb", "msb"], "recA": ["ra", "mra"], "recB": ["rb"],
        "recA2": ["ra2"], "arrInt": ["ai"], "arrInt2": ["ai2"], "arrClock": ["ax"], "chan": ["c"], "bchan": ["bc"], "uchan": ["uc"]}
CONSTVAR = {"int": "ci", "bint": "cbi", "bool": "cbo", "double": "cd", "recA": "cra", "recB": "crb", "recA2": "cra2",
            "arrInt": "cai", "arrInt2": "cai2"}
OPS = {"plus": "+", "mult": "*", "eq": "==", "neq": "!=", "and": "&&", "or": "||", "band": "&", "bor": "|", "bxor": "^",
       "min": "<?", "max": ">?"}


def fun_decls():
    out = []
    for t in list(TYNAME) + list(ARR):
        if t in ARR:
            base, dim = ARR[t]
            out.append("void f_%s(%s &p%s) { }" % (t, base, dim))
            if base != "clock":
                out.append("void fc_%s(const %s &p%s) { }" % (t, base, dim))
        else:
            out.append("void f_%s(%s &p) { }" % (t, TYNAME[t]))
            if t != "clock":
                out.append("void fc_%s(const %s &p) { }" % (t, TYNAME[t]))
    return "\n".join(out) + "\n"


def norm_kind(tree):
    """normalised kind of the root type as dumped (base kind through prefixes)"""
    return tree.get("tb") or tree.get("t")


def run(tier):
    c = vf.Check("C14", tier)
    outf = os.path.join(c.run_dir, "cases.ndjson")
    mc = vf.run_tlc("SymTypingMC", "SymTyping.cfg", c.run_dir, env={"OUTF": outf}, timeout=600)
    spec = mc.emitted[0]
    cases = vf.read_ndjson(outf)
    mc.distinct = max(mc.distinct, len(cases)); mc.generated = max(mc.generated, len(cases))
    c.add_tlc("SymTyping", mc, "Sym/SymIf/SymRef evaluated on every ordered pair: %s" % {k: spec[k] for k in ("sym", "symif", "symref", "refequiv")})
    # build expression list
    exprs, meta = [], []
    def add(text, m):
        exprs.append({"text": text, "check": True}); meta.append(m)
    for n, cs in enumerate(cases):
        a, b = cs["a"], cs["b"]
        if cs["kind"] in ("op", "if"):
            sp_a = VARS[a] if tier == "thorough" else VARS[a][:2]
            sp_b = VARS[b] if tier == "thorough" else VARS[b][:2]
            for ea in sp_a:
                for eb in sp_b:
                    if cs["kind"] == "op":
                        add("(%s) %s (%s)" % (ea, OPS[cs["op"]], eb), {"n": n, "ea": ea, "eb": eb})
                    else:
                        add("%s ? (%s) : (%s)" % ("bo" if (a, ea) <= (b, eb) else "!bo", ea, eb), {"n": n, "ea": ea, "eb": eb})
        else:
            arg = CONSTVAR.get(a) if cs["aconst"] else VARS[a][0]
            if arg is None or (cs["pconst"] and b == "clock") or (cs["pconst"] and b == "arrClock"):
                continue
            add("%s_%s(%s)" % ("fc" if cs["pconst"] else "f", b, arg), {"n": n, "ea": arg, "eb": b})
    # one scaffold parse per chunk of expressions
    jobs = []
    from xmlgen import render_xml
    scaffold = render_xml({"decl": DECL + fun_decls(), "templates": [{"name": "T", "locations": [{"id": "id0"}], "init": "id0"}], "system": "system T;"})
    per = 400
    for k in range(0, len(exprs), per):
        jobs.append({"id": "j%d" % (k // per), "entry": "xml_buffer", "text": scaffold, "exprs": exprs[k:k + per], "structure": False})
    res = vf.run_jobs(jobs, c.run_dir, variant="plain")
    out = {}
    for k in range(0, len(exprs), per):
        r = res["j%d" % (k // per)]
        if r.get("main", {}).get("outcome") != "return" or r["dump"]["doc"]["errors"][:0] or "exprs" not in r:
            raise vf.MachineryError("scaffold failed: %s" % json.dumps(r)[:1500])
        base_err = [e for e in r["dump"]["doc"]["errors"]]
        for j, er in enumerate(r["exprs"]):
            out[k + j] = er
    if any(True for _ in []):
        pass
    # scaffold must be accepted by itself
    r0 = res["j0"]
    # errors attributed to the scaffold (not to expressions) appear before any expr is parsed: check via a dedicated job
    chk = vf.run_jobs([{"id": "s", "entry": "xml_buffer", "text": scaffold, "structure": False}], c.run_dir, variant="plain", name="scaf")["s"]
    if chk["dump"]["doc"]["errors"]:
        raise vf.MachineryError("scaffold rejected: %s" % chk["dump"]["doc"]["errors"][:3])

    def outcome(er):
        if er.get("outcome") != "return":
            return ("THROW:" + er.get("exc", "?"), None)
        if er["errors"] or not er.get("trees"):
            return ("ERR", [e["msg"] for e in er["errors"]])
        t = er["trees"][-1]["t"] or {}
        return (t.get("t", "?"), None)

    byn = {}
    for idx, m in enumerate(meta):
        byn.setdefault((m["n"], m["ea"], m["eb"]), idx)
    lookup = {}
    for idx, m in enumerate(meta):
        cs = cases[m["n"]]
        lookup[(cs["kind"], cs["op"], cs["a"], cs["b"], cs.get("pconst"), cs.get("aconst"), m["ea"], m["eb"])] = idx
    INTEGRALISH = {"INT": "INT", "RANGE": "INT", "BOOL": "BOOL"}
    def kind_norm(k):
        return {"RANGE": "INT", "LABEL": "LABEL"}.get(k, k)
    drift, nontrivial, pairs = 0, 0, 0
    drift_samples = []
    for idx, m in enumerate(meta):
        cs = cases[m["n"]]
        got, msgs = outcome(out[idx])
        got = kind_norm(got)
        text = exprs[idx]["text"]
        if cs["kind"] in ("op", "if"):
            # mirrored case: operands swapped
            j = lookup.get((cs["kind"], cs["op"], cs["b"], cs["a"], None, None, m["eb"], m["ea"]))
            if j is None or j < idx:
                pass
            else:
                pairs += 1
                got2, msgs2 = outcome(out[j]); got2 = kind_norm(got2)
                if cs["a"] != cs["b"] or m["ea"] != m["eb"]:
                    nontrivial += 1
                if (got == "ERR") != (got2 == "ERR"):
                    c.finding("c14:%s:%s,%s:accept" % (cs["op"], cs["a"], cs["b"]),
                              "swapping operands changes acceptance: `%s` -> %s, `%s` -> %s" % (text, got, exprs[j]["text"], got2),
                              {"decl": DECL, "e1": text, "r1": got, "m1": msgs, "e2": exprs[j]["text"], "r2": got2, "m2": msgs2})
                elif got != got2 and "SYSTEM_META" not in (got, got2):      # `meta` is a prefix of the type, not its kind: the result of an inline-if carries the prefix of its first branch
                    c.finding("c14:%s:%s,%s:kind" % (cs["op"], cs["a"], cs["b"]),
                              "swapping operands changes the result kind: `%s` : %s, `%s` : %s" % (text, got, exprs[j]["text"], got2),
                              {"decl": DECL, "e1": text, "r1": got, "e2": exprs[j]["text"], "r2": got2})
            want = cs["r"]
            same = (want == got) or (got == "SYSTEM_META" and want != "ERR") or (want in ("RECORD", "ARRAY", "SCALAR", "CHANNEL") and got not in ("ERR",)) or \
                   (want == "INT" and got in ("INT",)) 
            if not same:
                drift += 1
                if len(drift_samples) < 8: drift_samples.append({"expr": text, "spec": want, "libutap": got})
        else:
            acc = got != "ERR" and not got.startswith("THROW")
            if not cs["aconst"]:
                nontrivial += 1
                # the property: accepted exactly when the types are equivalent, whichever side carries REF/CONST
                j = lookup.get(("ref", "ref", cs["b"], cs["a"], cs["pconst"], False, VARS[cs["b"]][0], cs["a"]))
                if j is not None and j > idx and not cs["pconst"]:   # const T differs from T for int (no default range): only mutable refs are mirrored
                    pairs += 1
                    acc2 = outcome(out[j])[0] != "ERR"
                    if acc != acc2:
                        c.finding("c14:ref:%s,%s:%s" % (cs["a"], cs["b"], "const" if cs["pconst"] else "mut"),
                                  "reference parameter compatibility is not symmetric: `%s` %s, `%s` %s" % (
                                      text, "accepted" if acc else "rejected", exprs[j]["text"], "accepted" if acc2 else "rejected"),
                                  {"decl": DECL + fun_decls(), "e1": text, "e2": exprs[j]["text"]})
                # ... and "exactly when": acceptance of a variable for a reference parameter = equivalence of the two types (SymTyping!RefSem)
                if acc != cs["sem"]:
                    key = "c14:ref:const-int-parameter-accepts-any-integer-range" if (cs["pconst"] and cs["b"] == "int" and acc) else \
                          "c14:ref:%s,%s:%s:%s" % (cs["a"], cs["b"], "const" if cs["pconst"] else "mut", "accepted-not-equivalent" if acc else "rejected-equivalent")
                    c.finding(key, "a variable of type %s is %s for a %sreference parameter of type %s although the types are %sequivalent: `%s`" % (
                        TYNAME.get(cs["a"], cs["a"]), "accepted" if acc else "rejected", "const " if cs["pconst"] else "", TYNAME.get(cs["b"], cs["b"]), "" if cs["sem"] else "not ", text),
                        {"decl": DECL + fun_decls(), "e1": text, "msgs": msgs})
                if cs["a"] == cs["b"] and not acc:
                    c.finding("c14:ref:%s,%s:%s:same-type-rejected" % (cs["a"], cs["b"], "const" if cs["pconst"] else "mut"),
                              "argument of the parameter's own type rejected for a reference parameter: `%s` (%s)" % (text, msgs),
                              {"decl": DECL + fun_decls(), "e1": text, "msgs": msgs})
            if (cs["r"] == "OK") != acc:
                drift += 1
                if len(drift_samples) < 8: drift_samples.append({"expr": text, "spec": cs["r"], "libutap": got, "msgs": msgs})
    if not (spec["sym"] and spec["symif"] and spec["symref"]) and not c.violations and not c.known_hit:
        print("NOTE property=C14 SymTyping.tla's transcription is asymmetric at spec level (%s) but libutap is symmetric on all replayed pairs" % spec["asym"][:4])
    c.cov["traces_validated_against_impl"] = len(exprs)
    c.cov["evaluations"] = len(exprs)
    c.cov["distinct_nontrivial"] = nontrivial
    c.cov["mirrored_pairs_compared"] = pairs
    c.cov["rule"] = "every ordered pair of operand type classes x 11 commutative operators + inline-if, in several operand spellings; reference parameters: every (param type, arg type, const/non-const) combination; non-trivial = operands differ / non-const argument"
    c.cov["exhaustive"] = True
    c.cov["transcription_mismatches"] = drift
    c.cov["transcription_mismatch_samples"] = drift_samples
    c.cov["spec_level"] = spec
    if drift:
        print("NOTE property=C14 transcription disagrees with libutap on %d/%d expressions (see evidence)" % (drift, len(exprs)))
    for i in (0, len(exprs)//3, len(exprs)//2, len(exprs)-1):
        c.sample({"expr": exprs[i]["text"], "result": outcome(out[i])[0]})
    c.assumptions += ["TLC 1.8.0", "expressions are type-checked with TypeChecker::checkExpression in the global scope of the scaffold"]
    return c.finish()


def replay(path):
    rec = json.load(open(path))["replay"]
    from xmlgen import render_xml
    scaffold = render_xml({"decl": rec["decl"], "templates": [{"name": "T", "locations": [{"id": "id0"}], "init": "id0"}], "system": "system T;"})
    c = vf.Check("C14", "quick")
    r = vf.run_jobs([{"id": "r", "entry": "xml_buffer", "text": scaffold, "structure": False,
                      "exprs": [{"text": rec["e1"], "check": True}] + ([{"text": rec["e2"], "check": True}] if "e2" in rec else [])}], c.run_dir, variant="plain")["r"]
    outs = []
    for er in r["exprs"]:
        outs.append("ERR" if er["errors"] else (er["trees"][-1]["t"] or {}).get("t"))
    print(json.dumps({"exprs": [rec["e1"], rec.get("e2")], "results": outs}))
    return 1 if len(set("ERR" if o == "ERR" else "OK" for o in outs)) > 1 or (len(outs) == 1 and outs[0] == "ERR") else 0
