"""C11 — expressions that must be side-effect free are rejected if they can write state.
Effects.tla: families of functions declared in order (base writer + wrappers), semantic may-write (lfp) vs the
transcribed changes-summary; TLC checks Sound (MayWrite => Rejects) on every family and exports them. Each family is
rendered to real declarations, called from side-effect-free contexts, and the real verdict is compared with
MayWrite (property), its write-free twin must be accepted, and function_t::changes is compared with chg (binding)."""
import json, os, random
import vf, batch

BASE_DECL = """typedef struct { int f; int h; } S;
int g; int ga[2]; S gs;
const int cg = 1; const int cga[2] = {0, 0}; const S cgs = {0, 0};
int i; bool b; clock x;
chan cs[4];
double gd; bool gb; const double cgd = 1.0; const bool cgb = true;
"""
TGT = {("global", "scalar"): "g", ("global", "elem"): "ga[0]", ("global", "field"): "gs.f",
       ("local", "scalar"): "l", ("local", "elem"): "la[0]", ("local", "field"): "ls.f",
       ("valparam", "scalar"): "p", ("valparam", "elem"): "p[0]", ("valparam", "field"): "p.f",
       ("refparam", "scalar"): "r", ("refparam", "elem"): "r[0]", ("refparam", "field"): "r.f"}
for _t, _n in (("global", "g"), ("local", "l2"), ("valparam", "p"), ("refparam", "r")):
    TGT[(_t, "condl")] = "(q == 0 ? l : %s)" % _n
    TGT[(_t, "condr")] = "(q == 0 ? %s : l)" % _n
# written objects of other types: the may-write analysis does not depend on the type of what is written
for _sh, _g, _l in (("dscalar", "gd", "ld"), ("bscalar", "gb", "lb")):
    TGT[("global", _sh)], TGT[("local", _sh)], TGT[("valparam", _sh)], TGT[("refparam", _sh)] = _g, _l, "p", "r"
PARAM = {"scalar": "int %s%s", "elem": "int %s%s[2]", "field": "S %s%s", "dscalar": "double %s%s", "bscalar": "bool %s%s"}
GLOB = {"scalar": "g", "elem": "ga", "field": "gs", "dscalar": "gd", "bscalar": "gb"}
CGLOB = {"scalar": "cg", "elem": "cga", "field": "cgs", "dscalar": "cgd", "bscalar": "cgb"}   # constants: arguments of the write-free twins (compile-time contexts)
LOC = {"scalar": "l", "elem": "la", "field": "ls", "dscalar": "ld", "bscalar": "lb"}
for _d in (PARAM, GLOB, CGLOB, LOC):
    for _s in ("condl", "condr"):
        _d[_s] = _d["scalar"]
WF = {"assign": "%s = 1", "addassign": "%s += 1", "preinc": "++%s", "postinc": "%s++", "predec": "--%s", "postdec": "%s--"}


def stmt(sf, e):
    """statement(s) placing int-valued expression e in statement form sf; q is a local loop counter"""
    return {
        "plain": "%s;" % e,
        "if": "if (q == 0) { %s; }" % e,
        "else": "if (q == 1) { q = 0; } else { %s; }" % e,
        "then_else": "if (q == 0) { %s; } else { q = 1; }" % e,                                   # the then-branch of an if that HAS an else
        "elseif": "if (q == 2) { q = 0; } else if (q == 0) { %s; } else { q = 1; }" % e,           # ... also as the middle of an else-if chain
        "for_body": "for (q = 0; q < 1; q++) { %s; }" % e,
        "for_init": "for (%s; q < 1; q++) { }" % e,
        "for_step": "for (q = 0; q < 1; %s) { q++; }" % e,
        "for_cond": "for (q = 0; (%s) != 12345 && q < 1; q++) { }" % e,
        "while_body": "while (q < 1) { %s; q++; }" % e,
        "while_cond": "while ((%s) != 12345 && q < 1) { q++; }" % e,
        "do_body": "do { %s; q++; } while (q < 1);" % e,
        "do_cond": "do { q++; } while ((%s) != 12345 && q < 1);" % e,
        "iter_body": "for (it : int[0,1]) { %s; }" % e,
        "block": "{ { %s; } }" % e,
        "local_init": "{ int z = %s; }" % e,
        "return": "return %s;" % e,
    }[sf]


def render_family(fam, name, twin=False):
    """-> (declaration lines, call expression for a context). twin: no write, reference parameters by value"""
    base = fam[0]
    t, sh = base["target"], base["shape"]
    ref = t == "refparam"
    lines = []
    def sig():
        if t == "valparam":
            return PARAM[sh] % ("", "p")
        if ref:
            return PARAM[sh] % ("" if twin else "&", "r")
        return ""
    locals_ = "int q = 0; int l = 0; int l2 = 0; int la[2]; S ls; double ld; bool lb;"
    for k, st in enumerate(fam):
        if k == 0:
            e = "q" if twin else (WF[st["wf"]] % TGT[(t, sh)]).replace("= 1", "= true" if sh == "bscalar" else "= 1")
        else:
            if t == "valparam":
                arg = (CGLOB if twin else GLOB)[sh]
            elif ref:
                arg = {"g": (CGLOB if twin else GLOB)[sh], "l": LOC[sh], "r": "r"}[st["arg"]]
            else:
                arg = ""
            e = "%s_%d(%s)" % (name, k - 1, arg)
        body = stmt(st["sf"], e)
        tail = "" if st["sf"] == "return" else " return 1;"
        lines.append("int %s_%d(%s) { %s %s%s }" % (name, k, sig(), locals_, body, tail))
    top = "%s_%d(%s)" % (name, len(fam) - 1, (CGLOB if twin else GLOB)[sh] if (ref or t == "valparam") else "")
    return lines, top


# side-effect-free contexts: name -> (role, text template over F, extra)
def contexts(F, n):
    return {
        "guard": ("guard", "%s == 1" % F),
        "invariant": ("inv", "%s == 1" % F),
        "invariant_urgent": ("inv", "%s == 1" % F),            # the same on an urgent / a committed location (CTX_FLAG)
        "invariant_committed": ("inv", "%s == 1" % F),
        "sync": ("sync", "cs[%s]!" % F),
        "prob": ("prob", "%s" % F),
        "select": ("select", "k%d : int[0, %s]" % (n, F)),
        "init_global": ("gdecl", "int vg%d = %s;" % (n, F)),
        "init_local": ("tdecl", "int vl%d = %s;" % (n, F)),
        "init_global_double": ("gdecl", "double vd%d = %s * 0.5;" % (n, F)),       # the rule does not depend on the variable's type
        "init_local_double": ("tdecl", "double vm%d = %s * 0.5;" % (n, F)),
        "init_global_array": ("gdecl", "int vi%d[2] = { %s, 0 };" % (n, F)),
        "arrsize": ("gdecl", "int va%d[%s];" % (n, F)),
        "range": ("gdecl", "int[0,%s] vr%d;" % (F, n)),
        "instarg": ("system", "P%d = TP(%s);" % (n, F)),
        "instarg_ref": ("system", "PR%d = TPR(%s);" % (n, F)),
        "forall_body": ("assign", "b = forall (k : int[0,1]) %s == 1" % F),
        "exists_body": ("assign", "b = exists (k : int[0,1]) %s == 1" % F),
        "sum_body": ("assign", "i = sum (k : int[0,1]) %s" % F),
        "assert": ("gdecl", "void ha%d() { assert(%s == 1); }" % (n, F)),
        "query_EF": ("query", "E<> %s == 1" % F),
        "query_AG": ("query", "A[] %s == 1" % F),
    }


TP = {"name": "TP", "params": "int pp", "locations": [{"id": "id0"}], "init": "id0"}
TPR = {"name": "TPR", "params": "int &pr", "locations": [{"id": "id0"}], "init": "id0"}
SIDE = "side-effect"


CTX_FLAG = {"invariant_urgent": "urgent", "invariant_committed": "committed"}


def mk_placer():
    return batch.Placer(BASE_DECL, extra_templates=[TP, TPR])


def run(tier):
    c = vf.Check("C11", tier)
    quick = tier == "quick"
    rnd = random.Random(c.seed)
    mc = vf.run_tlc("Effects", "Effects_mc.cfg" if quick else "Effects_thorough.cfg", c.run_dir, coverage=True, timeout=3000, xmx="16g")
    c.add_tlc("Effects", mc, "invariants Sound, Precise on every family; families exported")
    if mc.violated:
        vf.log("Effects: %s violated at spec level; replay decides" % mc.violated)
    fams = [e for e in mc.emitted if "fam" in e]
    direct_cases = [d for e in mc.emitted if "direct" in e for d in e["direct"]]
    if not direct_cases:
        raise vf.MachineryError("Effects.tla exported no direct cases")
    if mc.coverage.get("DeclWrapper", (0, 0))[1] == 0:
        raise vf.MachineryError("vacuous Effects run")
    cases = []
    info = {}
    def add_case(n, fam_rec, ctx, twin):
        name = "f%d%s" % (n, "t" if twin else "")
        lines, top = render_family(fam_rec["fam"], name, twin)
        role, text = contexts(top, len(cases))[ctx]
        cid = "c%d" % len(cases)
        cases.append({"id": cid, "role": role, "text": text, "pre": lines, "flag": CTX_FLAG.get(ctx)})
        info[cid] = {"fam": fam_rec, "ctx": ctx, "twin": twin, "decl": lines, "expr": text, "n": n}
    all_ctx = [x for x in contexts("F", 0) if x != "instarg_ref"]       # a function call is not an lvalue: the reference context takes direct writes only
    # every family in the guard context; a sample of families in every context; write-free twins
    rep = [n for n, f in enumerate(fams) if len(f["fam"]) == 1 and f["fam"][0]["wf"] in ("assign", "postinc") and f["fam"][0]["sf"] in ("plain", "do_body", "iter_body", "local_init")]
    deep = [n for n, f in enumerate(fams) if len(f["fam"]) >= 2]
    rep += rnd.sample(deep, min(len(deep), 60 if quick else 600))
    for n, f in enumerate(fams):
        add_case(n, f, "guard", False)
    for n in rep:
        for ctx in all_ctx:
            if ctx.startswith("query_") and fams[n]["fam"][0]["shape"] == "dscalar" and fams[n]["fam"][0]["target"] in ("valparam", "refparam"):
                continue        # the context's call passes a double: symbolic queries exclude doubles, whatever the function does
            if ctx != "guard":
                add_case(n, fams[n], ctx, False)
            add_case(n, fams[n], ctx, True)
    # direct writes in contexts (no function)
    for d in sorted(direct_cases, key=lambda d: (d["ctx"], d["wf"], d["shape"])):
        cid = "c%d" % len(cases)
        role, text = contexts("(" + WF[d["wf"]] % TGT[("global", d["shape"])] + ")", len(cases))[d["ctx"]]
        cases.append({"id": cid, "role": role, "text": text, "flag": CTX_FLAG.get(d["ctx"])})
        info[cid] = {"fam": {"fam": [], "maywrite": True, "rejects": True}, "ctx": d["ctx"], "twin": False, "decl": [], "expr": text, "n": -1}
    for sh in ("scalar", "elem", "field"):          # the write-free twins of the reference context: the bare lvalue
        cid = "c%d" % len(cases)
        role, text = contexts(TGT[("global", sh)], len(cases))["instarg_ref"]
        cases.append({"id": cid, "role": role, "text": text})
        info[cid] = {"fam": {"fam": [], "maywrite": False, "rejects": False}, "ctx": "instarg_ref", "twin": True, "decl": [], "expr": text, "n": -1}
    verdict = batch.run_placed(vf, cases, mk_placer, c.run_dir, per=40)
    nontrivial, drift = 0, 0
    for cs in cases:
        cid = cs["id"]
        inf = info[cid]
        msgs = verdict[cid]
        accepted = not msgs
        fr = inf["fam"]
        rep_obj = {"base_decl": BASE_DECL, "family_decl": inf["decl"], "context": inf["ctx"], "expr": inf["expr"], "role": cs["role"],
                   "maywrite": fr["maywrite"], "twin": inf["twin"], "diagnostics": msgs}
        short = json.dumps(fr["fam"][:1] + [{k: v for k, v in s.items() if k != "kind"} for s in fr["fam"][1:]], sort_keys=True)
        if inf["twin"]:
            if not accepted:
                c.finding("c11:twin-rejected:%s:%s" % (inf["ctx"], short), "write-free twin rejected in %s: %s (%s)" % (inf["ctx"], inf["expr"], msgs[:2]), rep_obj)
            continue
        if fr["maywrite"]:
            nontrivial += 1
            if accepted:
                c.finding("c11:writer-accepted:%s:%s" % (inf["ctx"], short),
                          "%s accepted although it can write state: %s  [%s]" % (inf["ctx"], inf["expr"], " ".join(inf["decl"])[:200]), rep_obj)
        if fr["rejects"] != (not accepted) and inf["ctx"] == "guard":
            drift += 1
    if mc.violated and not c.violations and not c.known_hit:
        raise vf.MachineryError("Effects.tla violates %s but libutap rejected every replayed writer: transcription stale" % mc.violated)
    c.cov["traces_validated_against_impl"] = len(cases)
    c.cov["evaluations"] = len(cases)
    c.cov["distinct_nontrivial"] = nontrivial
    c.cov["rule"] = "every function family of Effects.tla (target x shape x write form x statement form; wrappers x statement form x argument mode, depth<=2) called from a guard; a sample of families and all direct write forms in each of %d side-effect-free contexts; write-free twins; non-trivial = semantics says it can write" % len(all_ctx)
    c.cov["contexts"] = all_ctx
    c.cov["transcription_mismatches"] = drift
    for cid in ("c0", "c%d" % (len(cases) // 2), "c%d" % (len(cases) - 1)):
        c.sample({"decl": info[cid]["decl"], "context": info[cid]["ctx"], "expr": info[cid]["expr"], "maywrite": info[cid]["fam"]["maywrite"], "accepted": not verdict[cid]})
    c.assumptions += ["TLC 1.8.0", "renderer checks/c11.py", "twin = write removed and reference parameters passed by value (the analysis is deliberately conservative for reference arguments)"]
    return c.finish()


def replay(path):
    rec = json.load(open(path))["replay"]
    c = vf.Check("C11", "quick")
    cases = [{"id": "c0", "role": rec["role"], "text": rec["expr"], "pre": rec["family_decl"]}]
    v = batch.run_placed(vf, cases, mk_placer, c.run_dir, per=1)
    print(json.dumps({"expr": rec["expr"], "accepted": not v["c0"], "diagnostics": v["c0"], "maywrite": rec["maywrite"]}))
    bad = (rec["maywrite"] and not rec["twin"] and not v["c0"]) or (rec["twin"] and v["c0"])
    return 1 if bad else 0
