"""C16 — a fault in one text block does not disturb the rest of the document.
Spec side: LR.tla (the bison automaton extracted from the working tree's parser.y) x BuilderDepth.tla (stack effects of
the expression/label callbacks): TLC explores every token string up to a bound at each label entry point, with bison's
full error recovery, and reports the strings after which the builder's stacks are not back at their entry depth
(Residue0) - the mechanism by which one block can leak into the next. Those strings, and one fault of every class at
every token position of every non-declaring label of DocGen models (delete, duplicate, stray token, unknown symbol,
unterminated comment, truncation, undeclared identifier, wrong type, side effect, unbalanced bracket), are injected;
the document outside the label and the diagnostics outside the label must equal those of the fault-free model.
Declaration blocks: a fault in declaration i leaves declarations 1..i-1 present and unchanged."""
import glob, json, os, random, re
import vf, docgen, xmlgen, faults, lrconf


def _conv(a):
    if isinstance(a, bool):
        return {"n": 0, "s": "true" if a else "false"}
    if isinstance(a, int):
        return {"n": a, "s": ""}
    return {"n": 0, "s": str(a) if a is not None else ""}


def depth_conformance(c, xml_texts):
    """B3 for BuilderDepth.tla: recorded callback traces (depths before/after every callback) of the given documents and of the
    repository's models must agree with the stack effects LRDepth.tla relies on"""
    jobs = [{"id": "dx%d" % k, "entry": "xml_buffer", "text": t, "analysis": False, "walk": False} for k, t in enumerate(xml_texts)]
    jobs += [{"id": "repo:" + os.path.basename(f), "entry": "xml_file", "file": f, "analysis": False, "walk": False} for f in sorted(glob.glob(os.path.join(vf.REPO, "test/models/*.xml")))]
    res = vf.run_jobs(jobs, c.run_dir, variant="plain", harness="record", name="depth")
    tr = []
    for j in jobs:
        r = res[j["id"]]
        if "events" not in r:
            continue
        tr.append({"id": j["id"], "ev": [{"cb": e["cb"], "a": [_conv(x) for x in e["a"]], "f": e["f"], "t": e["t"], "fr": e["fr"], "f0": e.get("f0", 0), "t0": e.get("t0", 0),
                                           "fr0": e.get("fr0", 1), "threw": bool(e.get("threw"))} for e in r["events"]]})
    # the traces are validated in parallel chunks (one single-worker TLC each: the trace module is function-shaped)
    import concurrent.futures
    nchunk = min(8, max(1, len(tr) // 40))
    chunks = [tr[k::nchunk] for k in range(nchunk)]

    def one(k):
        d = os.path.join(c.run_dir, "dt%d" % k)
        os.makedirs(d, exist_ok=True)
        path = os.path.join(d, "depthtraces.ndjson")
        vf.write_ndjson(path, chunks[k])
        return vf.run_tlc("DepthTrace", "DepthTrace.cfg", d, env={"TRACES": path}, timeout=3000, xmx="6g", workers=1, keep_out=False)
    with concurrent.futures.ThreadPoolExecutor(max_workers=nchunk) as ex:
        tvs = list(ex.map(one, range(nchunk)))
    for tv in tvs:
        c.add_tlc("DepthTrace", tv, "recorded callback traces vs BuilderDepth!Eff (one of %d chunks)" % nchunk)
    e = {"traces": sum(tv.emitted[0]["traces"] for tv in tvs), "events": sum(tv.emitted[0]["events"] for tv in tvs),
         "unknown": sorted({u for tv in tvs for u in tv.emitted[0]["unknown"]}), "bad": [b for tv in tvs for b in tv.emitted[0]["bad"]]}
    c.cov["depth_traces"] = e["traces"]
    c.cov["depth_events"] = e["events"]
    c.cov["depth_callbacks_without_entry"] = sorted(e["unknown"])
    c.cov["depth_disagreements"] = len(e["bad"])
    for b in e["bad"][:3]:
        print("DRIFT property=C16 BuilderDepth.tla: %s%s moves the stacks from %s to %s in %s" % (b["cb"], [x["s"] or x["n"] for x in b["a"]], b["before"], b["after"], b["id"]))
    return e["traces"]

DECL_NAMES = {  # declaration line -> names it declares (PREAMBLE lines and DocGen's GExtra pool)
    "int i;": ["i"], "int j = 1;": ["j"], "clock x;": ["x"], "chan c;": ["c"], "broadcast chan b;": ["b"], "const int N = 2;": ["N"], "int a[3];": ["a"],
    "typedef int[0,2] id_t;": ["id_t"], "bool pos(int v) { return v > 0; }": ["pos"],
    "int g1;": ["g1"], "clock g2;": ["g2"], "int g3 = N, g4;": ["g3", "g4"], "meta int g5;": ["g5"],
    "typedef struct { int u; int w; } rec_t;\nrec_t r0 = {1, 2};": ["rec_t", "r0"], "int sq(int v) { int t = v; t = t * v; return t; }": ["sq"],
    "before_update { i = 0 }": ["@before_update"], "after_update { j = 1 }": ["@after_update"], "chan priority c < default;": ["@chan_priorities"],
    "const int K2[2] = {1, 2};": ["K2"], "void lp() { for (k : int[0,1]) { i = k; } while (i > 0) { i--; } }": ["lp"],
    "void rt() { if (i > 0) return; i = 1; }": ["rt"],
    "int st(int v) { int t = 0; for (t = 0; t < v; t++) { ; } do { t--; } while (t > 0); if (t == 0) { t = 1; } else t = 2; assert(t > 0); { int u = t; t = u; } return t; }": ["st"]}


def outside(doc, m, b):
    """structure of a dumped document with the label b blanked, without diagnostics"""
    d = json.loads(json.dumps(doc))
    for k in ("errors", "warnings", "supported", "c08"):
        d.pop(k, None)
    kind, ti, idx = b
    t = d["templates"][ti] if ti < len(d["templates"]) else None
    if t is not None:
        lst = t["locations"] if kind in ("inv", "rate") else t["edges"]
        if idx < len(lst):
            lst[idx][faults.dump_field(kind)] = "<L>"
            if kind == "inv":
                lst[idx]["cost_rate"] = "<L>"      # the rate decomposition of the invariant belongs to the invariant
    return d


def diags(doc, path, errors_only=False):
    ds = [(e["msg"], e["path"]) for e in doc["errors"] if e["path"] != path]
    if not errors_only:
        ds += [("W:" + e["msg"], e["path"]) for e in doc["warnings"] if e["path"] != path]
    return sorted(ds)


def decl_prefix(doc, names):
    g = doc["globals"]
    out = []
    for coll in ("vars", "funs", "typedefs"):
        seen = set()
        for v in g[coll]:
            # the first object of a name is the preceding declaration; a faulted line that happens to re-declare the name (`chan priority c < ..` ->
            # `chan c < ..`) adds a second, erroneous object after it, which is not a change of the first
            if v["name"] in names and v["name"] not in seen:
                seen.add(v["name"])
                out.append((coll, json.dumps(v, sort_keys=True)))
    for feat in ("before_update", "after_update", "chan_priorities"):        # declarations that set a document-level feature
        if "@" + feat in names:
            out.append((feat, json.dumps(doc.get(feat), sort_keys=True)))
    return sorted(out)


def residue_strings(c, quick):
    """LR x BuilderDepth: token strings at label entry points after which fragments/types/frames are left behind"""
    gen = os.path.join(vf.lib_dir("plain"), "gen")
    lx = lrconf.Lexemes(os.path.join(gen, "lexemes.json"))
    alphabet = [{"t": "T_ID", "n": 0, "s": "i"}, {"t": "T_NAT", "n": 1, "s": ""}, {"t": "'('", "n": 0, "s": ""}, {"t": "')'", "n": 0, "s": ""},
                {"t": "'['", "n": 0, "s": ""}, {"t": "']'", "n": 0, "s": ""}, {"t": "','", "n": 0, "s": ""}, {"t": "T_PLUS", "n": 0, "s": ""},
                {"t": "T_LT", "n": 0, "s": ""}, {"t": "'?'", "n": 0, "s": ""}, {"t": "':'", "n": 0, "s": ""}, {"t": "T_EXCLAM", "n": 0, "s": ""},
                {"t": "T_ASSIGNMENT", "n": 0, "s": ""}, {"t": "T_FORALL", "n": 0, "s": ""}, {"t": "T_INT", "n": 0, "s": ""}, {"t": "T_ERROR", "n": 0, "s": ""}]
    found = {}
    for kind, start in (("guard", "T_NEW_GUARD"), ("inv", "T_NEW_INVARIANT"), ("sync", "T_NEW_SYNC"), ("asg", "T_NEW_ASSIGN"), ("prob", "T_PROBABILITY"), ("rate", "T_EXPONENTIAL_RATE")):
        params = os.path.join(c.run_dir, "lrdepth_%s.json" % kind)
        json.dump({"start": start, "alphabet": alphabet, "maxlen": 4 if quick else 5}, open(params, "w"))
        r = vf.run_tlc("LRDepth", "LRDepth.cfg", c.run_dir, env={"LR_TABLES": os.path.join(gen, "lr_tables.json"), "LR_PARAMS": params}, timeout=3000, xmx="16g", keep_out=False)
        c.add_tlc("LRDepth_" + kind, r, "all token strings <= n at entry %s with error recovery; terminal configurations with non-zero stack residue are emitted" % start)
        found[kind] = [lx.render([t for t in e["toks"] if t["t"] != "$end"]) for e in r.emitted]
        c.cov.setdefault("residue_strings", {})[kind] = len(found[kind])
    return found


def run(tier):
    c = vf.Check("C16", tier)
    quick = tier == "quick"
    vf.build_lib("plain")
    rnd = random.Random(c.seed)
    residue = residue_strings(c, quick)
    models = docgen.generate(c, ["labels", "mixed"], 800 if quick else 6000, c.seed, bfs=False)
    cand = [e["m"] for e in models if len(faults.blocks(e["m"], faults.NONDECL)) >= 2]
    rnd.shuffle(cand)
    budget = 9000 if quick else 120000
    cases = []   # (model index, block, fault class, token index, text)
    base = []
    for m in cand:
        if len(cases) >= budget:
            break
        mi = len(base)
        base.append(m)
        for b in faults.blocks(m, faults.NONDECL):
            text = faults.get_text(m, b)
            fs = faults.single_faults(text, b[0])
            extra = residue.get(b[0], [])
            if extra:
                fs += [("lr-residue", -1, s) for s in rnd.sample(extra, min(len(extra), 6))]
            if quick and len(fs) > 40:
                fs = rnd.sample(fs, 40)
            for (fc, pos, ftext) in fs:
                if b[0] == "sync" and faults.is_csp_sync(ftext):
                    continue      # `c?` -> `c` is a valid CSP synchronisation: mixing it with `!`/`?` elsewhere is a constraint between blocks, not a fault of this one
                if ftext.strip() and ftext != text:
                    cases.append((mi, b, fc, pos, ftext))
    jobs = []
    for mi, m in enumerate(base):
        x = xmlgen.render_xml(docgen.to_xmlgen(m))
        jobs.append({"id": "B%d" % mi, "entry": "xml_buffer", "text": x, "analysis": False})
        jobs.append({"id": "BA%d" % mi, "entry": "xml_buffer", "text": x})
    for n, (mi, b, fc, pos, ftext) in enumerate(cases):
        x = xmlgen.render_xml(docgen.to_xmlgen(faults.set_text(base[mi], b, ftext)))
        jobs.append({"id": "F%d" % n, "entry": "xml_buffer", "text": x, "analysis": False})
        jobs.append({"id": "FA%d" % n, "entry": "xml_buffer", "text": x})
    # declaration blocks: fault inside declaration k of the global block
    dcases = []
    decl_models = [m for m in cand[:40 if quick else 400]]
    for di, m in enumerate(decl_models):
        lines = docgen.PREAMBLE.strip().split("\n") + m["gdecl"]
        for k, line in enumerate(lines):
            fs = [f for f in faults.single_faults(line, "decl") if f[0] in ("delete", "truncate", "stray-symbol", "open-comment")]
            for (fc, pos, ftext) in (rnd.sample(fs, min(len(fs), 4 if quick else 12))):
                dcases.append((di, k, fc, ftext))
    for n, (di, k, fc, ftext) in enumerate(dcases):
        m = decl_models[di]
        lines = docgen.PREAMBLE.strip().split("\n") + m["gdecl"]
        lines[k] = ftext
        mm = docgen.to_xmlgen(dict(m, gdecl=[]), preamble="\n".join(lines) + "\n")
        jobs.append({"id": "D%d" % n, "entry": "xml_buffer", "text": xmlgen.render_xml(mm), "analysis": False})
    res = vf.run_jobs(jobs, c.run_dir, variant="plain", name="c16")

    def ok(r):
        return r.get("outcome") is None and r.get("main", {}).get("outcome") == "return" and r.get("dump", {}).get("outcome") == "return"
    ncmp = 0
    by_class = {}
    for n, (mi, b, fc, pos, ftext) in enumerate(cases):
        m = base[mi]
        path = faults.block_path(m, b)
        rb, rf, rba, rfa = res["B%d" % mi], res["F%d" % n], res["BA%d" % mi], res["FA%d" % n]
        rep = {"model": m, "block": list(b), "path": path, "fault": fc, "token": pos, "original": faults.get_text(m, b), "faulted": ftext,
               "xml": jobs[2 * len(base) + 2 * n]["text"]}
        if not ok(rb) or not ok(rba):
            raise vf.MachineryError("fault-free model did not parse: %s" % json.dumps(rb)[:400])
        if not ok(rf) or not ok(rfa):
            bad = rf if not ok(rf) else rfa
            if bad.get("main", {}).get("outcome") == "throw":
                # the whole parse ended in an exception: nothing outside the label survives
                c.finding("c16:%s:%s:exception:%s" % (b[0], fc, bad["main"].get("exc")), "a %s fault in a %s label ended the whole parse with %s: %s" % (fc, b[0], bad["main"].get("exc"), bad["main"].get("what")), rep)
            else:
                c.finding("c16:%s:%s:crash" % (b[0], fc), "a %s fault in a %s label crashed the parse (%s)" % (fc, b[0], bad.get("outcome")), dict(rep, stderr=(bad.get("stderr") or "")[:1500]))
            continue
        ncmp += 1
        by_class[fc] = by_class.get(fc, 0) + 1
        db, df = rb["dump"]["doc"], rf["dump"]["doc"]
        d = docgen.diff(outside(db, m, b), outside(df, m, b))
        if d and b[0] in ("inv", "rate") and all(re.match(r"/templates\[%d\]/locations\[%d\]/(inv|exp_rate)$" % (b[1], b[2]), x[0]) for x in d):
            # call site: XMLReader::invariant -> a failed S_INVARIANT / S_EXPONENTIAL_RATE parse leaves its operands on the builder's
            # stack and proc_location() takes them for the location's other label
            c.finding("c16:location-labels:failed-parse-residue-taken-by-proc_location",
                      "a %s fault in the %s label `%s` -> `%s` replaced the same location's %s label: %s -> %s" % (fc, b[0], rep["original"], ftext, "invariant" if b[0] == "rate" else "rate", json.dumps(d[0][1]), json.dumps(d[0][2])),
                      dict(rep, differences=d))
        elif d and re.search(r"\b(forall|exists|sum)\s*\(", rep["original"]) and all(re.search(r"/symbols|/typedefs|/warnings", x[0]) for x in d):
            # call site: expr_forall_begin / expr_exists_begin / expr_sum_begin push a scope that only the matching *_end pops; a fault in the
            # body abandons the rule, the scope stays on the builder's frame stack and later declarations (here: the system block's) land in it
            c.finding("c16:scope-of-abandoned-quantifier-stays-open",
                      "a %s fault in the body of the quantifier in the %s label `%s` -> `%s` leaves the quantifier's scope open: %s: %s -> %s" % (fc, b[0], rep["original"], ftext, d[0][0], json.dumps(d[0][1])[:80], json.dumps(d[0][2])[:80]),
                      dict(rep, differences=d))
        elif d:
            c.finding("c16:%s:%s:%s" % (b[0], fc, docgen.diff_class(d[0])),
                      "a %s fault in the %s label `%s` -> `%s` changed the document outside the label at %s: %s -> %s" % (fc, b[0], rep["original"], ftext, d[0][0], json.dumps(d[0][1])[:120], json.dumps(d[0][2])[:120]),
                      dict(rep, differences=d))
        if diags(db, path) != diags(df, path):
            extra = [x for x in diags(df, path) if x not in diags(db, path)]
            quant = re.search(r"\b(forall|exists|sum)\s*\(", rep["original"]) is not None
            if quant and extra and all(x[0].startswith("W:") for x in extra):
                c.finding("c16:scope-of-abandoned-quantifier-stays-open", "a %s fault in the body of the quantifier in the %s label `%s` -> `%s` leaves the quantifier's scope open: later blocks get %s" % (fc, b[0], rep["original"], ftext, extra[:2]), dict(rep, diagnostics_outside=extra))
                extra = []
            if extra or not quant:
              c.finding("c16:%s:%s:diag-elsewhere" % (b[0], fc), "a %s fault in the %s label `%s` -> `%s` produced a diagnostic attributed to another block: %s" % (fc, b[0], rep["original"], ftext, extra[:2]),
                      dict(rep, diagnostics_outside=extra))
        # with static analysis
        dba, dfa = rba["dump"]["doc"], rfa["dump"]["doc"]
        stray = [x for x in diags(dfa, path, errors_only=True) if x not in diags(dba, path, errors_only=True)]
        if stray:
            c.finding("c16:%s:%s:diag-elsewhere-analysis" % (b[0], fc), "a %s fault in the %s label `%s` -> `%s` produced an error attributed to another block: %s" % (fc, b[0], rep["original"], ftext, stray[:2]),
                      dict(rep, diagnostics_outside=stray))
        builder_errors = [e for e in dfa["errors"] if e.get("ctx") != "(typechecking)"]
        if not builder_errors:
            d = docgen.diff(outside(dba, m, b), outside(dfa, m, b))
            if d:
                c.finding("c16:%s:%s:analysis:%s" % (b[0], fc, docgen.diff_class(d[0])),
                          "a %s fault in the %s label `%s` -> `%s` changed the analysed document outside the label at %s" % (fc, b[0], rep["original"], ftext, d[0][0]), dict(rep, differences=d))
    ndecl = 0
    for n, (di, k, fc, ftext) in enumerate(dcases):
        m = decl_models[di]
        r = res["D%d" % n]
        lines = docgen.PREAMBLE.strip().split("\n") + m["gdecl"]
        rep = {"model": m, "declaration_index": k, "fault": fc, "original": lines[k], "faulted": ftext}
        if not ok(r):
            c.finding("c16:decl:%s:no-document" % fc, "a %s fault in declaration %d (`%s` -> `%s`) ended the parse: %s" % (fc, k, lines[k], ftext, json.dumps(r.get("main"))[:200]), rep)
            continue
        rb = res["B%d" % base.index(m)] if m in base else None
        if rb is None:
            continue
        ndecl += 1
        names = [x for l in lines[:k] for x in DECL_NAMES[l]]
        want, got = decl_prefix(rb["dump"]["doc"], names), decl_prefix(r["dump"]["doc"], names)
        if want != got:
            c.finding("c16:decl:%s:prefix" % fc, "a %s fault in declaration %d (`%s` -> `%s`) changed or dropped a declaration that precedes it" % (fc, k, lines[k], ftext),
                      dict(rep, expected=want, got=got))
    sample_xml = [jobs[2 * k]["text"] for k in range(min(len(base), 60 if quick else 400))] + [jobs[2 * len(base) + 2 * k]["text"] for k in range(0, len(cases), max(1, len(cases) // (150 if quick else 1500)))]
    ntr = depth_conformance(c, sample_xml)
    c.cov["traces_validated_against_impl"] = ncmp + ndecl + ntr
    c.cov["evaluations"] = 2 * ncmp + ndecl
    c.cov["distinct_nontrivial"] = ncmp
    c.cov.update({"models": len(base), "label_faults_compared": ncmp, "declaration_faults_compared": ndecl, "by_fault_class": by_class})
    c.cov["rule"] = "one fault per (non-declaring label, token position, fault class) of DocGen models + LR-residue strings found by TLC; each compared with the fault-free parse, with and without static analysis"
    if cases:
        mi, b, fc, pos, ftext = cases[len(cases) // 2]
        c.sample({"block": list(b), "fault": fc, "original": faults.get_text(base[mi], b), "faulted": ftext})
    c.level = "model_checking"
    c.assumptions += ["TLC 1.8.0", "static analysis is skipped by design when the builder reported errors: builder-only documents are compared for every fault, analysed documents when the builder reported none",
                      "an invariant's cost-rate decomposition belongs to the invariant label"]
    return c.finish()


def replay(path):
    rec = json.load(open(path))["replay"]
    c = vf.Check("C16", "quick")
    r = vf.run_jobs([{"id": "r", "entry": "xml_buffer", "text": rec["xml"], "analysis": False}], c.run_dir, variant="plain")["r"]
    print(json.dumps({"errors": r.get("dump", {}).get("doc", {}).get("errors")}, indent=1))
    return 1
