"""C04 — the document built from an XML model mirrors the XML's structure exactly.
DocGen.tla: author state machine generating abstract models M (exhaustive small universe + random walks in four
profiles) together with Expected(M), the mirror the statement prescribes. Each M is rendered to XML, parsed by
parse_XML_buffer (and the file entry point, which drops blank nodes) and the canonical dump, projected on the mirror's
fields, must equal Expected(M): order, nothing added / dropped / duplicated / re-attached, endpoints through ids,
argument i bound to parameter i. Spec side: Builder.tla x XmlReader.tla (C08) derive the same mirror from the callbacks."""
import json, re, os
import vf, docgen, xmlgen


def classify(c, e, r, tag, xml):
    """compare one parse result with the mirror; returns True when compared"""
    m, exp = e["m"], e["exp"]
    if r.get("outcome") in ("signal", "timeout", "abnormal-exit") or r.get("main", {}).get("outcome") != "return" or r.get("dump", {}).get("outcome") != "return":
        c.finding("c04:%s:no-document" % tag, "parse of a generated well-formed model did not return a document: %s" % json.dumps(r)[:300],
                  {"xml": xml, "model": m, "result": {k: r.get(k) for k in ("outcome", "main", "sig", "stderr")}})
        return False
    doc = r["dump"]["doc"]
    if doc["errors"]:
        # the generator promises accepted models: a diagnostic means the universe (or the library) is off; decide by reading it
        c.finding("c04:%s:diagnostic:%s" % (tag, doc["errors"][0]["msg"].split(" ")[0]),
                  "generated model is rejected: %s at %s" % (doc["errors"][0]["msg"], doc["errors"][0].get("path")),
                  {"xml": xml, "model": m, "errors": doc["errors"][:5]})
        return False
    got = docgen.project(doc, docgen.builtin_vars(c))
    d = docgen.diff(exp, got)
    if d:
        c.finding("c04:%s:%s" % (tag, docgen.diff_class(d[0])),
                  "document differs from the XML at %s: expected %s, got %s" % (d[0][0], json.dumps(d[0][1]), json.dumps(d[0][2])),
                  {"xml": xml, "model": m, "expected": exp, "got": got, "differences": d})
    if doc.get("c08"):
        c.cov["c08_violations_seen"] = c.cov.get("c08_violations_seen", 0) + len(doc["c08"])
    return True


# ---- invariants that carry clock rates: the library stores them as `1 && <conjuncts>`; the conjuncts must be those of the source - nothing added, dropped or duplicated
RATE_INVS = ["x <= 5 && forall (q : id_t) hz[q]' == 0", "forall (q : id_t) hz[q]' == 0", "x <= 5 && hz[0]' == 0", "x' == 2 && x <= 5", "x' == 2",
             "forall (q : id_t) hz[q]' == 0 && x <= 5 && hz[1] <= 3", "x <= 5 && forall (q : id_t) (hz[q]' == 0 && hz[q] <= 7)", "forall (q : id_t) forall (r : id_t) hz[q]' == r",
             "x <= 5 && forall (q : id_t) hz[q] <= 5", "hz[0]' == 1 && hz[1]' == 0 && x <= 2"]


def _conjuncts(s):
    """top-level conjuncts of an expression text, without blanks and without redundant outer parentheses"""
    out, depth, cur = [], 0, ""
    i = 0
    while i < len(s):
        ch = s[i]
        if ch in "([":
            depth += 1
        elif ch in ")]":
            depth -= 1
        if depth == 0 and s.startswith("&&", i) and not cur.replace(" ", "").startswith(("forall(", "exists(", "sum(")):        # the body of a quantifier extends as far to the right as it can
            out.append(cur)
            cur = ""
            i += 2
            continue
        cur += ch
        i += 1
    out.append(cur)
    res = []
    for x in out:
        x = x.replace(" ", "")
        while x.startswith("(") and x.endswith(")") and _balanced(x[1:-1]):
            x = x[1:-1]
        m = re.match(r"^((?:forall|exists|sum)\([a-z]+:[a-z_]+\))\((.*)\)$", x)
        while m and _balanced(m.group(2)):          # parentheses around the whole body of a quantifier are redundant
            x = m.group(1) + m.group(2)
            m = re.match(r"^((?:forall|exists|sum)\([a-z]+:[a-z_]+\))\((.*)\)$", x)
        inner = _conjuncts(x) if not x.startswith(("forall(", "exists(", "sum(")) and _top_and(x) else [x]      # a parenthesised conjunction is its conjuncts
        res += inner
    return sorted(res)


def _top_and(s):
    d = 0
    for i, ch in enumerate(s):
        d += ch in "(["
        d -= ch in ")]"
        if d == 0 and s.startswith("&&", i):
            return True
    return False


def _balanced(s):
    d = 0
    for ch in s:
        d += ch == "("
        d -= ch == ")"
        if d < 0:
            return False
    return d == 0


def rate_part(c):
    jobs = []
    for k, inv in enumerate(RATE_INVS):
        for flag in ("", "urgent A; "):
            jobs.append({"id": "r%d%s" % (k, flag[:1]), "entry": "xta", "inv": inv,
                         "text": "typedef int[0,2] id_t; clock x; clock hz[3]; process P(){ state A { %s }, B; %sinit A; trans A -> B { }; } system P;" % (inv, flag)})
            m = {"decl": "typedef int[0,2] id_t; clock x; clock hz[3];", "templates": [{"name": "P", "locations": [{"id": "id0", "name": "A", "inv": inv}, {"id": "id1", "name": "B"}], "init": "id0",
                 "edges": [{"src": "id0", "dst": "id1"}]}], "system": "system P;"}
            jobs.append({"id": "x%d%s" % (k, flag[:1]), "entry": "xml_buffer", "inv": inv, "text": xmlgen.render_xml(m)})
    res = vf.run_jobs([{k: v for k, v in j.items() if k != "inv"} for j in jobs], c.run_dir, variant="plain", name="c04rate")
    n = 0
    for j in jobs:
        r = res[j["id"]]
        doc = r.get("dump", {}).get("doc") if r.get("dump", {}).get("outcome") == "return" else None
        if doc is None or doc["errors"]:
            c.finding("c04:rate-invariant:rejected", "a model whose location invariant is `%s` is not read: %s" % (j["inv"], json.dumps((doc or {}).get("errors", r.get("main")))[:200]), {"text": j["text"], "invariant": j["inv"]})
            continue
        n += 1
        got = doc["templates"][0]["locations"][0].get("inv") or ""
        want = _conjuncts(j["inv"].replace("forall (q : id_t)", "forall(q:id_t)").replace("forall (r : id_t)", "forall(r:id_t)"))
        have = [x for x in _conjuncts(got) if x != "1"]
        if have != want:
            c.finding("c04:rate-invariant:conjuncts", "the invariant `%s` is stored as `%s`: its conjuncts are %s, those of the source %s" % (j["inv"], got, have, want), {"text": j["text"], "invariant": j["inv"], "stored": got})
    c.cov["rate_invariants_compared"] = n
    return n


def run(tier):
    c = vf.Check("C04", tier)
    quick = tier == "quick"
    vf.build_lib("plain")
    # Mirror.tla = DocGen x XmlReaderOps x Builder: MirrorDesign (the transcribed reader feeding the transcribed builder yields Expected(M)'s template
    # graphs) is an invariant of the same TLC runs that generate the models
    models = docgen.generate(c, ["struct", "labels", "system", "mixed"], 1600 if quick else 16000, c.seed, bfs_budget=2 if quick else 3, module="Mirror",
                             invariants=("WellFormed", "MirrorDesign", "EmitDone"))
    if len(models) < 200:
        raise vf.MachineryError("DocGen produced only %d models" % len(models))
    jobs, texts = [], {}
    os.makedirs(os.path.join(c.run_dir, "files"), exist_ok=True)
    for n, e in enumerate(models):
        xml = xmlgen.render_xml(docgen.to_xmlgen(e["m"]), cdata=(n % 5 == 2), rate_first=(n % 7 == 3), comments=(n % 4 if n % 4 < 3 else 0))      # alternative spellings of the same document
        texts[n] = xml
        jobs.append({"id": "b%d" % n, "entry": "xml_buffer", "text": xml})
        if n % (4 if quick else 2) == 0:       # the file entry point parses with XML_PARSE_NOBLANKS: a different reader event stream
            fp = os.path.join(c.run_dir, "files", "m%d.xml" % n)
            open(fp, "w").write(xml)
            jobs.append({"id": "f%d" % n, "entry": "xml_file", "file": fp})
    res = vf.run_jobs(jobs, c.run_dir, variant="plain", name="c04")
    ncmp = 0
    feat = {"select": 0, "shadowing_select": 0, "branchpoint_edge": 0, "anonymous_loc": 0, "partial_inst": 0, "chain_inst": 0, "zero_arg_inst": 0,
            "priorities": 0, "self_loop": 0, "parallel_edges": 0, "templates>1": 0, "ref_param": 0, "all_labels": 0}
    for n, e in enumerate(models):
        m = e["m"]
        for tag in ("b", "f"):
            r = res.get("%s%d" % (tag, n))
            if r is not None and classify(c, e, r, {"b": "buffer", "f": "file"}[tag], texts[n]):
                ncmp += 1
        for t in m["templs"]:
            bp = set(t["bps"])
            pairs = [(x["src"], x["dst"]) for x in t["edges"]]
            feat["parallel_edges"] += len(pairs) != len(set(pairs))
            for x in t["edges"]:
                feat["select"] += bool(x["sel"])
                feat["shadowing_select"] += x["sel"].startswith(("i :", "j :"))
                feat["branchpoint_edge"] += x["src"] in bp or x["dst"] in bp
                feat["self_loop"] += x["src"] == x["dst"]
                feat["all_labels"] += bool(x["sel"] and x["guard"] and x["sync"] and x["asg"])
            feat["anonymous_loc"] += any(not l["name"] for l in t["locs"])
            feat["ref_param"] += any("&" in p for p in t["params"])
        feat["templates>1"] += len(m["templs"]) > 1
        names = {i["name"] for i in m["insts"]}
        for i in m["insts"]:
            feat["partial_inst"] += bool(i["own"])
            feat["chain_inst"] += i["base"] in names
            feat["zero_arg_inst"] += not i["args"]
        feat["priorities"] += "<" in m["seps"]
    # ---- the reader's own trace on a sample of the models: every structural callback with its key arguments and every setPath XPath that
    # XmlReader.tla predicts for the document must be what the real reader does (B3 on the universe's shapes, not only on the mutated base documents)
    import readerconf
    rnd2 = __import__("random").Random(c.seed)
    smp = list(models)
    rnd2.shuffle(smp)
    smp = smp[:(150 if quick else 1500)]
    rdocs = [{"id": "g%d%s" % (k, "w" if ws else "n"), "what": "model", "ws": ws, "tree": readerconf.model_tree(e["m"])} for k, e in enumerate(smp) for ws in ((k % 2 == 0),)]
    rc = readerconf.compare(c, rdocs, "plain", "models")
    nrd = 0
    for x in rc:
        if not x["agree"]:
            nrd += 1
            if nrd <= 3:
                k = next((i for i, (a, b) in enumerate(zip(x["spec"], x["real"])) if a != b), min(len(x["spec"]), len(x["real"])))
                print("DRIFT property=C04 XmlReader.tla: on a generated model the transcribed reader and the real one part at event %d: spec %s, real %s (outcomes %s / %s)" % (
                    k, x["spec"][k:k + 1], x["real"][k:k + 1], x["spec_outcome"], x["real_outcome"]))
    c.cov["reader_traces_on_models"] = len(rc)
    c.cov["reader_trace_disagreements_on_models"] = nrd
    ncmp += rate_part(c)
    c.cov["traces_validated_against_impl"] = ncmp
    c.cov["evaluations"] = ncmp
    c.cov["distinct_nontrivial"] = sum(1 for e in models if any(t["edges"] for t in e["m"]["templs"]))
    c.cov["models"] = len(models)
    c.cov["feature_counts"] = feat
    c.cov["rule"] = ("models = distinct 'done' states of DocGen.tla (BFS of the small universe + random walks, 4 profiles); non-trivial = has at least one edge; "
                     "every model parsed through parse_XML_buffer, every 4th (2nd) also through parse_XML_file; full mirror compared")
    for e in models[:1] + models[len(models) // 2:len(models) // 2 + 1]:
        c.sample({"model": e["m"], "expected": e["exp"]})
    c.assumptions += ["TLC 1.8.0", "renderer lib/docgen.py + lib/xmlgen.py writes the XML the abstract model denotes", "pool texts are in the printer's canonical spelling (labels are compared as printed text)"]
    return c.finish()


def replay(path):
    rec = json.load(open(path))["replay"]
    c = vf.Check("C04", "quick")
    r = vf.run_jobs([{"id": "r", "entry": "xml_buffer", "text": rec["xml"]}], c.run_dir, variant="plain")["r"]
    got = docgen.project(r["dump"]["doc"], docgen.builtin_vars(c)) if r.get("dump", {}).get("outcome") == "return" else None
    print(json.dumps({"errors": r.get("dump", {}).get("doc", {}).get("errors"), "differences": docgen.diff(rec.get("expected"), got) if got and rec.get("expected") else None}, indent=1))
    return 1
