"""C07 — identifiers bind to the innermost preceding declaration in scope.
Scopes.tla: one name declared at any admissible subset D of nine scope levels (global, template parameter, template
local, function parameter, function block, nested block, iteration binder, quantifier binder, select binder), 29 use
sites (21 in expressions, 8 inside types; harness/dump.hpp exports the expression trees written inside types) described by their enclosing scope chain and by which declarations textually precede them; LexBind (the statement)
vs ImplBind (the builder's frame walk); TLC checks Agree on the whole universe and exports it. For every D a model holding
every site is rendered; each occurrence is written `n + <site id>` so that it can be found in the parsed trees, and every
level declares n with its own type int[k,k], so the symbol the occurrence was bound to identifies the level."""
import json, os, re
import vf, xmlgen

GK = {"gline": 19, "gentry": 21}
K = {"global": 10, "tparam": 11, "tlocal": 12, "fparam": 13, "fblock": 14, "nested": 15, "iter": 16, "quant": 17, "select": 18}
LEVEL = {v: k for k, v in K.items()}
LEVEL.update({v: k for k, v in GK.items()})


# sites at which the builder's frame stack lacks a lexically enclosing scope (Scopes.tla: SH): key suffix, what, example
DETACHED = {130: ("later-function-parameter-type-does-not-see-earlier-parameter", "an identifier in the type of a function parameter is not looked up among the function's earlier parameters",
                  "`int f(int n, int[0,n] y)` binds the bound to an outer n or reports it unknown"),
            131: ("later-template-parameter-type-does-not-see-earlier-parameter", "an identifier in the type of a template parameter is not looked up among the template's earlier parameters",
                  "`process T(const int n, int[0,n] x)` binds the bound to a global n or reports it unknown")}


def render(D, keep, queries=True):
    """model for declaration set D containing the sites in `keep`"""
    D = set(D)

    def use(sid, fmt="%s"):
        return fmt % ("n + %d" % sid) if sid in keep else fmt % ("cz + %d" % sid)
    g = ["int w; bool bb; const int cz = 0;", use(117, "const int u0 = %s;")]
    if "global" in D:
        g.append("const int[10,10] n = 10;")
    g.append(use(118, "const int u8 = %s;"))
    g.append(use(133, "int[0, %s] u33;"))
    qn = "n" if "quant" in D else "zq"
    l = [use(101, "int u1 = %s;")]
    if "tlocal" in D:
        l.append("const int[12,12] n = 12;")
    l.append(use(102, "int u2 = %s;"))
    l.append(use(134, "int arr34[%s];"))
    f = ["void f(%s, %s) {" % ("int[13,13] n" if "fparam" in D else "int zz", use(130, "int[0, %s] p30")), use(103, "    int q3 = %s;")]
    if "fblock" in D:
        f.append("    int[14,14] n = 14;")
    f += [use(104, "    int q4 = %s;"), use(132, "    int[0, %s] q32;"), "    {", use(105, "        int q5 = %s;")]
    if "nested" in D:
        f.append("        int[15,15] n = 15;")
    f += [use(106, "        int q6 = %s;"), "        w = 0;", "    }", use(107, "    w = %s;"),
          "    for (%s : int[16,16]) { %s for (z37 : int[0, %s]) { w = 1; } }" % ("n" if "iter" in D else "zi", use(108, "w = %s;"), use(137)), use(109, "    w = %s;"),
          "    bb = forall (%s : int[17,17]) %s && forall (z36 : int[0, %s]) z36 >= 0;" % (qn, use(110, "%s > 0"), use(136)), "}"]
    T = {"name": "T", "params": ("const int[11,11] n, " if "tparam" in D else "") + use(131, "const int[0, %s] m"), "decl": "\n".join(l + f),
         "locations": [{"id": "id0", "name": "A", "inv": use(115, "%s > 0")}], "init": "id0",
         "edges": [{"src": "id0", "dst": "id0", "select": "%s : int[18,18], s35 : int[0, %s]" % ("n" if "select" in D else "zs", use(135)),
                    "guard": "%s && forall (%s : int[17,17]) %s" % (use(111, "%s > 0"), qn, use(113, "%s > 0")), "assign": use(112, "w = %s")},
                   {"src": "id0", "dst": "id0", "guard": use(114, "%s > 0")}]}
    T2 = {"name": "T2", "locations": [{"id": "id1", "name": "B"}], "init": "id1", "edges": [{"src": "id1", "dst": "id1", "guard": use(116, "%s > 0")}]}
    system = "P = T(%s%s);\nsystem P, T2;" % ("11, " if "tparam" in D else "", use(119))
    return {"decl": "\n".join(g), "templates": [T, T2], "system": system}


def render_gantt(D, keep):
    """model with a gantt chart for n declared at the levels D (global, line parameter, entry binder)"""
    D = set(D)

    def use(sid, fmt="%s"):
        return fmt % ("n + %d" % sid) if sid in keep else fmt % ("cz + %d" % sid)
    g = ["int w; const int cz = 0;"] + (["const int[10,10] n = 10;"] if "global" in D else [])
    T = {"name": "T", "locations": [{"id": "id0", "name": "A"}], "init": "id0", "edges": []}
    gl = "G1(%s : int[19,19]) : for (%s : int[21,21]) %s -> %s, %s -> 1;" % ("n" if "gline" in D else "zl", "n" if "gentry" in D else "ze", use(140, "%s > 0"), use(141), use(142, "%s > 0"))
    return {"decl": "\n".join(g), "templates": [T], "system": "system T;\ngantt { %s G2 : %s -> 1; }" % (gl, use(143, "%s > 0"))}


TK = {"global": 20, "tlocal": 22, "fblock": 24, "nested": 26}
TLEVEL = {v: k for k, v in TK.items()}
TVAR = {201: "vg", 202: "v2", 203: "v3", 204: "q4", 205: "q5", 206: "q6", 207: "v7", 208: "q8", 209: "v9"}


def render_types(D, keep):
    """model for the type name `tn` declared at the levels D, with the variable-declaring sites in `keep`"""
    D = set(D)

    def var(sid, indent=""):
        return indent + ("tn %s;" % TVAR[sid] if sid in keep else "int %s;" % TVAR[sid])
    g = ["int w;"]
    if "global" in D:
        g.append("typedef int[20,20] tn;")
    g.append(var(201))
    l = [var(202)]
    if "tlocal" in D:
        l.append("typedef int[22,22] tn;")
    l.append(var(203))
    f = ["void f() {", var(204, "    ")]
    if "fblock" in D:
        f.append("    typedef int[24,24] tn;")
    f += [var(205, "    "), "    {"]
    if "nested" in D:
        f.append("        typedef int[26,26] tn;")
    f += [var(206, "        "), "        w = 0;", "    }", "    w = 1;", "}", var(207), "void g() {", var(208, "    "), "    w = 2;", "}"]
    T = {"name": "T", "decl": "\n".join(l + f), "locations": [{"id": "id0", "name": "A"}], "init": "id0", "edges": []}
    T2 = {"name": "T2", "decl": var(209), "locations": [{"id": "id1", "name": "B"}], "init": "id1", "edges": []}
    return {"decl": "\n".join(g), "templates": [T, T2], "system": "system T, T2;"}


def var_types(doc):
    out = {}
    for v in doc["globals"]["vars"]:
        out[v["name"]] = v["type"]
    for t in doc["templates"]:
        for v in t["decls"]["vars"]:
            out[v["name"]] = v["type"]
        for f in t["decls"]["funs"]:
            for v in f["locals"]:
                out[v["name"]] = v["type"]
    return out


def tlevel_of(ty):
    if ty is None:
        return "not-found"
    m = re.search(r'"(\d+)" "(\d+)"', ty)
    if "tn" in ty and m and int(m.group(1)) in TLEVEL:
        return TLEVEL[int(m.group(1))]
    return "other:" + ty


SUBST_MODEL = {"decl": "const int c = 7;",
               "templates": [{"name": "T", "params": "const int a, const int b", "decl": "int[0,a] va; int[0,b] vb; typedef int[0,a] ta_t; ta_t vta; typedef int[0,b] tb_t; tb_t vtb; typedef struct { int[0,a] fa; int[0,b] fb; } rec_t; rec_t vr; int[0,b] arr[ta_t];", "locations": [{"id": "id0", "name": "A"}], "init": "id0", "edges": []}],
               "system": "D = T(3,4);\nQ(const int c) = T(1, c);\nR = Q(2);\nQ2(const int e) = Q(e);\nR2 = Q2(5);\nQ3(const int g, const int h) = T(h, g);\nQ4(const int k) = Q3(k, 6);\nR4 = Q4(8);\nsystem D, R, R2, R4;"}


def find_dot(x):
    if isinstance(x, dict):
        if x.get("k") == "DOT":
            return x.get("ts")
        for v in x.values():
            f = find_dot(v)
            if f:
                return f
    elif isinstance(x, list):
        for v in x:
            f = find_dot(v)
            if f:
                return f
    return None


def member_type(props, member):
    """type of the left operand of the `== 0` comparison of the query"""
    def find_eq(x):
        if isinstance(x, dict):
            if x.get("k") == "EQ" and x.get("c"):
                return x["c"][0]
            for v in x.values():
                f = find_eq(v)
                if f:
                    return f
        elif isinstance(x, list):
            for v in x:
                f = find_eq(v)
                if f:
                    return f
        return None
    n = find_eq(props)
    return None if n is None else n.get("ts") or n.get("xt")


def walk(x, found):
    if isinstance(x, dict):
        if x.get("k") == "PLUS" and len(x.get("c", [])) == 2 and isinstance(x["c"][1], dict) and x["c"][1].get("k") == "CONSTANT" and 101 <= x["c"][1].get("v", 0) <= 143:
            found.setdefault(x["c"][1]["v"], []).append(x["c"][0])
        for v in x.values():
            walk(v, found)
    elif isinstance(x, list):
        for v in x:
            walk(v, found)


def level_of(node):
    """which declaration an occurrence is bound to, from the parsed tree"""
    if node is None:
        return "?"
    if node.get("k") == "CONSTANT":
        return "unknown"          # expr_identifier pushes `false` for an unknown name
    if node.get("k") == "IDENTIFIER":
        if node.get("sym") == "cz":
            return "absent"
        m = re.search(r'"(\d+)" "(\d+)"', node.get("st") or "")
        if node.get("sym") == "n" and m and m.group(1) == m.group(2) and int(m.group(1)) in LEVEL:
            return LEVEL[int(m.group(1))]
        return "other:%s:%s" % (node.get("sym"), node.get("st"))
    if node.get("k") == "DOT":
        return "member"
    return "other:" + str(node.get("k"))


def frames_part(c, tier):
    """Frames.tla: every history of symbol-table operations up to a bound, invariants LatestWins / Innermost / RemoveExact by TLC,
    every behaviour executed on real frame_t objects with the observation compared after each step"""
    quick = tier == "quick"
    vf.build_lib("asan")
    vf.build_harness("replay_frame", "asan")
    mc = vf.run_tlc("Frames", "Frames.cfg", c.run_dir, timeout=1500, workers=8, keep_out=False, coverage=True)
    never = [a for a in ("AddSymbol", "AddExisting", "AddFrame", "MoveTo", "RemoveSym") if mc.coverage.get(a, (0, 0))[0] == 0]
    if never:
        raise vf.MachineryError("vacuous Frames run: %s never taken" % never)
    c.add_tlc("Frames", mc, "LatestWins, Innermost, RemoveExact on every history of 4 symbol-table operations (3 frames, names a / b / anonymous); behaviours exported")
    cases = [e for e in mc.emitted if "ops" in e]
    closed = vf.run_tlc("Frames", "Frames_closed.cfg", c.run_dir, timeout=1500, workers=12, keep_out=False)
    c.add_tlc("Frames(closed)", closed, "LatestWins, Innermost on the CLOSED state space over 2 symbols and at most 3 entries per frame: histories of any length (no operation bound, nothing logged)")
    if not quick:
        deep = vf.run_tlc("Frames", "Frames_deep.cfg", c.run_dir, timeout=3000, workers=12, keep_out=False)
        c.add_tlc("Frames(deep)", deep, "the same invariants on every history of 5 operations (not exported)")
        sim = vf.run_tlc("Frames", "Frames_sim.cfg", c.run_dir, timeout=1500, workers=4, keep_out=False, simulate=3000, depth=8, seed=c.seed)
        c.add_tlc("Frames(sim)", sim, "random histories of 7 operations over 4 symbols, exported")
        cases += [e for e in sim.emitted if "ops" in e]
    if not cases:
        raise vf.MachineryError("Frames.tla exported no behaviour")
    jobs = [{"id": "fr%d" % k, "cases": cases[i:i + 4000], "timeout": 300} for k, i in enumerate(range(0, len(cases), 4000))]
    res = vf.run_jobs(jobs, c.run_dir, variant="asan", harness="replay_frame", name="frames")
    nsteps = 0
    for j in jobs:
        r = res[j["id"]]
        if r.get("outcome", "return") not in ("return",) or "cases" not in r:
            c.finding("c07:frames:crash", "executing symbol-table histories on frame_t ended with %s" % json.dumps({k: v for k, v in r.items() if k != "bad"})[:300], {"job": j["id"], "first_case": j["cases"][0]})
            continue
        nsteps += r["steps"]
        for b in r["bad"]:
            names = [o["op"] for o in b.get("ops", [])][:b.get("step", 0)]
            c.finding("c07:frames:%s:%s" % (b["what"].split(" ")[0], "-".join(names)),
                      "after the symbol-table operations %s the real frames differ from Frames.tla (%s): spec %s, real %s" % (
                          [(o["op"], o["f"], o["g"], o["n"], o["u"]) for o in b.get("ops", [])][:b.get("step", 0)], b["what"], json.dumps(b.get("spec")), json.dumps(b.get("real"))), b)
    c.cov["symbol_table_histories_replayed"] = len(cases)
    c.cov["symbol_table_steps_compared"] = nsteps
    return nsteps


def run(tier):
    c = vf.Check("C07", tier)
    vf.build_lib("plain")
    mc = vf.run_tlc("Scopes", "Scopes.cfg", c.run_dir, timeout=600, keep_out=False)
    c.add_tlc("Scopes", mc, "Agree: ImplBind = LexBind on all declaration sets x sites")
    head = [e for e in mc.emitted if "agree" in e][0]
    cases = [e for e in mc.emitted if "d" in e]
    tcases = [e for e in mc.emitted if "td" in e]
    scases = [e for e in mc.emitted if "proc" in e]
    gcases = [e for e in mc.emitted if "gd" in e]
    if len(gcases) != 8 or not all(e["gagree"] for e in gcases):
        raise vf.MachineryError("Scopes.tla: gantt universe %d cases, GAgree %s" % (len(gcases), [e["gagree"] for e in gcases][:1]))
    head2 = [e for e in mc.emitted if "tagree" in e][0]
    c.cov["spec_type_names_agree"] = head2["tagree"]
    c.cov["spec_substitution_agree"] = head2["substagree"]
    c.cov["spec_substitution_depends_on_symbol_order"] = head2["ordersensitive"]
    c.cov["spec_agree"] = head["agree"]
    c.cov["spec_agree_where_stack_is_lexical_chain"] = head["agreeonstack"]
    c.cov["spec_predicted_disagreements"] = head["ndisagree"]
    if not head["agreeonstack"]:
        print("NOTE property=C07 Scopes.tla: the frame walk and the lexical definition disagree on a site whose frame stack is its lexical chain (see the module)")
    jobs = []
    for n, cs in enumerate(cases):
        exp = {s["id"]: s["bind"] for s in cs["sites"]}
        allsites = set(exp) - {120, 121}
        impl = {s["id"]: s["impl"] for s in cs["sites"]}
        known = {s for s in allsites if exp[s] != "unknown" and impl[s] != "unknown" and s < 130}       # the query models are analysed: no type sites (bounds must be compile-time constants)
        jobs.append({"id": "a%d" % n, "entry": "xml_buffer", "text": xmlgen.render_xml(render(cs["d"], allsites)), "trees": True, "analysis": False})
        for sid, q in ((120, "E<> n + 120 > 0"), (121, "E<> P.n + 121 > 0")):      # one job per query: a rejected query leaves an error in the document
            jobs.append({"id": "q%d_%d" % (sid, n), "entry": "xml_buffer", "text": xmlgen.render_xml(render(cs["d"], known)), "queries": [q], "query_builder": "property", "structure": False})
    for n, cs in enumerate(tcases):
        exp = {x["id"]: x["bind"] for x in cs["sites"]}
        bound = {x for x in exp if exp[x] != "unknown"}
        jobs.append({"id": "t%d" % n, "entry": "xml_buffer", "text": xmlgen.render_xml(render_types(cs["td"], bound)), "analysis": False})
        for x in sorted(set(exp) - bound):       # a use without a type name in scope: one model per site, it has to be rejected
            jobs.append({"id": "tu%d_%d" % (n, x), "entry": "xml_buffer", "text": xmlgen.render_xml(render_types(cs["td"], bound | {x})), "analysis": False})
    for n, cs in enumerate(gcases):
        jobs.append({"id": "g%d" % n, "entry": "xml_buffer", "text": xmlgen.render_xml(render_gantt(cs["gd"], {140, 141, 142, 143})), "trees": True, "analysis": False})
    # the same members reached directly, through a template-local type name, as record fields and as array element / index types
    MEMBERS = [("va", "va", "va == 0"), ("vb", "vb", "vb == 0"), ("vta", "va", "vta == 0"), ("vtb", "vb", "vtb == 0"), ("vr.fa", "va", "vr.fa == 0"), ("vr.fb", "vb", "vr.fb == 0"), ("arr[0]", "vb", "arr[0] == 0")]
    sq = ["E<> %s.%s" % (e["proc"], m[2]) for e in scases for m in MEMBERS]
    jobs.append({"id": "subst", "entry": "xml_buffer", "text": xmlgen.render_xml(SUBST_MODEL), "queries": sq, "query_builder": "tiga", "query_types": True, "structure": False})
    res = vf.run_jobs(jobs, c.run_dir, variant="plain", name="c07")
    nsites = 0
    nontrivial = 0
    for n, cs in enumerate(cases):
        exp = {s["id"]: s["bind"] for s in cs["sites"]}
        impl_of = {s["id"]: s["impl"] for s in cs["sites"]}
        D = sorted(cs["d"])
        ra = res["a%d" % n]
        rep = {"declared_at": D, "xml": jobs[3 * n]["text"]}
        if ra.get("main", {}).get("outcome") != "return" or ra.get("dump", {}).get("outcome") != "return":
            c.finding("c07:no-document", "model with n declared at %s did not parse: %s" % (D, json.dumps(ra.get("main"))[:200]), rep)
            continue
        doc = ra["dump"]["doc"]
        dup = [e for e in doc["errors"] if "uplicate" in e["msg"]]
        if dup:
            raise vf.MachineryError("declaration set %s is not admissible: %s" % (D, dup[0]["msg"]))
        found = {}
        walk(doc, found)
        for sid in sorted(set(exp) - {120, 121}):
            nsites += 1
            nodes = found.get(sid, [])
            got = sorted({level_of(x) for x in nodes}) if nodes else ["not-found"]
            want = exp[sid]
            nontrivial += want not in ("unknown",) and len(D) > 1
            if got != [want] and sid in DETACHED and got == [impl_of[sid]]:
                c.finding("c07:site%d:%s" % (sid, DETACHED[sid][0]), "%s: with n declared at %s the occurrence binds to %s instead of %s (the behaviour Scopes!ImplBind predicts for the detached `params` frame), e.g. %s" % (
                    DETACHED[sid][1], D, got[0], want, DETACHED[sid][2]), dict(rep, site=sid, expected=want, got=got))
            elif got != [want]:
                c.finding("c07:site%d:%s->%s" % (sid, want, got[0]), "with n declared at %s, the occurrence at site %d binds to %s; the innermost preceding declaration in scope is %s" % (D, sid, got, want),
                          dict(rep, site=sid, expected=want, got=got))
            if want == "unknown":
                msgs = [e["msg"] for e in doc["errors"]]
                if not any("nknown_identifier" in m or "n" == m.split(" ")[-1] for m in msgs):
                    c.finding("c07:site%d:unknown-not-reported" % sid, "with n declared at %s, site %d has no declaration in scope but no unknown-identifier error is reported" % (D, sid), dict(rep, errors=msgs))
        # queries (model b holds only sites with a binding, so that it has no errors)
        for sid in (120, 121):
            rb = res["q%d_%d" % (sid, n)]
            if rb.get("main", {}).get("outcome") == "return" and "queries" in rb:
                q = rb["queries"][0]
                want = exp[sid]
                nsites += 1
                found = {}
                walk(q.get("props"), found)
                nodes = found.get(sid, [])
                if want == "unknown":
                    if not q.get("errors") and q.get("outcome") == "return" and nodes and level_of(nodes[0]) not in ("unknown",):
                        c.finding("c07:site%d:unknown-bound" % sid, "with n declared at %s, the query occurrence at site %d is bound to %s although nothing is in scope" % (D, sid, level_of(nodes[0])), dict(rep, site=sid))
                else:
                    got = level_of(nodes[0]) if nodes else "not-found"
                    ok = (got == want) if sid == 120 else (got in ("member", want))
                    if q.get("errors") or not ok:
                        c.finding("c07:site%d:%s->%s" % (sid, want, got), "with n declared at %s, the query occurrence at site %d binds to %s (errors %s); expected %s" % (D, sid, got, [e["msg"] for e in q.get("errors", [])][:2], want),
                                  dict(rep, site=sid, expected=want, got=got))
    # ---- scenario charts: when the chart is done (whatever its instance lines were) its declarations are out of scope again
    import lsczoo
    ldocs = [(i, x, e) for (i, x, e) in lsczoo.docs() if e.get("unknown_in_system")]
    lres = vf.run_jobs([{"id": "l%d" % k, "entry": "xml_buffer", "text": x, "structure": False} for k, (i, x, e) in enumerate(ldocs)], c.run_dir, variant="plain", name="c07lsc")
    for k, (i, x, e) in enumerate(ldocs):
        r = lres["l%d" % k]
        nsites += 1
        errs = r.get("dump", {}).get("doc", {}).get("errors", []) if r.get("dump", {}).get("outcome") == "return" else None
        if errs is None or not any(q["path"] == "/nta/system" and "nknown_identifier" in q["msg"] and q["msg"].endswith(" " + e["unknown_in_system"]) for q in errs):
            c.finding("c07:lsc:%s:chart-local-visible-in-system" % i, "scenario document `%s`: `%s` is declared only inside the chart, and its use in <system> is not reported as unknown: %s" % (
                i, e["unknown_in_system"], [(q["msg"], q["path"]) for q in (errs or [])][:5]), {"doc": i, "xml": x})
    # ---- gantt binders
    for n, cs in enumerate(gcases):
        exp = {s["id"]: s["bind"] for s in cs["sites"]}
        D = sorted(cs["gd"])
        rg = res["g%d" % n]
        rep = {"declared_at": D, "xml": xmlgen.render_xml(render_gantt(cs["gd"], {140, 141, 142, 143}))}
        if rg.get("main", {}).get("outcome") != "return" or rg.get("dump", {}).get("outcome") != "return":
            c.finding("c07:gantt:no-document", "model with a gantt chart and n declared at %s did not parse: %s" % (D, json.dumps(rg.get("main"))[:200]), rep)
            continue
        doc = rg["dump"]["doc"]
        found = {}
        walk(doc, found)
        for sid in sorted(exp):
            nsites += 1
            nodes = found.get(sid, [])
            got = sorted({level_of(x) for x in nodes}) if nodes else ["not-found"]
            nontrivial += exp[sid] != "unknown" and len(D) > 1
            if got != [exp[sid]]:
                c.finding("c07:site%d:%s->%s" % (sid, exp[sid], got[0]), "gantt chart with n declared at %s: the occurrence at site %d binds to %s; the innermost preceding declaration in scope is %s" % (D, sid, got, exp[sid]),
                          dict(rep, site=sid, expected=exp[sid], got=got))
            if exp[sid] == "unknown" and not any("nknown_identifier" in e["msg"] for e in doc["errors"]):
                c.finding("c07:site%d:unknown-not-reported" % sid, "gantt chart with n declared at %s: site %d has no declaration in scope but no unknown-identifier error is reported" % (D, sid), rep)
    # ---- type names
    for n, cs in enumerate(tcases):
        exp = {x["id"]: x["bind"] for x in cs["sites"]}
        D = sorted(cs["td"])
        r = res["t%d" % n]
        rep = {"type_name_declared_at": D, "xml": [j for j in jobs if j["id"] == "t%d" % n][0]["text"]}
        if r.get("dump", {}).get("outcome") != "return" or r["dump"]["doc"]["errors"]:
            c.finding("c07:types:rejected:%s" % "+".join(D), "a model whose type-name uses all have a declaration in scope is rejected: %s" % [e["msg"] for e in r.get("dump", {}).get("doc", {}).get("errors", [])][:2], rep)
            continue
        vt = var_types(r["dump"]["doc"])
        for sid, want in sorted(exp.items()):
            nsites += 1
            if want == "unknown":
                ru = res["tu%d_%d" % (n, sid)]
                ty = var_types(ru["dump"]["doc"]).get(TVAR[sid]) if ru.get("dump", {}).get("outcome") == "return" else None
                if ru.get("dump", {}).get("outcome") == "return" and not ru["dump"]["doc"]["errors"]:
                    c.finding("c07:typesite%d:unknown-bound" % sid, "with the type name declared at %s, the use at site %d has no declaration in scope but is accepted (variable type %s)" % (D, sid, ty), dict(rep, site=sid))
                continue
            nontrivial += len(D) > 1
            got = tlevel_of(vt.get(TVAR[sid]))
            if got != want:
                c.finding("c07:typesite%d:%s->%s" % (sid, want, got.split(":")[0]), "with the type name declared at %s, the use at site %d binds to %s; the innermost preceding declaration in scope is %s" % (D, sid, got, want), dict(rep, site=sid))
    # ---- P.x with P's arguments substituted
    rs = res["subst"]
    if rs.get("main", {}).get("outcome") != "return" or "queries" not in rs:
        raise vf.MachineryError("substitution model failed: %s" % json.dumps(rs)[:300])
    k = 0
    for e in scases:
        for member, v, _ in MEMBERS:
            q = rs["queries"][k]
            k += 1
            nsites += 1
            nontrivial += 1
            ts = member_type(q.get("props"), member)
            want = '(range (int) "0" "%d")' % e[v]
            if q.get("errors") or ts is None or want not in ts or re.search(r'"[a-z]\w*"', ts):
                c.finding("c07:qualified:%s.%s" % (e["proc"], member), "%s.%s has type %s in a query (errors %s); with the process' arguments substituted it is %s" % (e["proc"], member, ts, [x["msg"] for x in q.get("errors", [])][:2], want),
                          {"model": SUBST_MODEL, "query": sq[k - 1]})
    nsites += frames_part(c, tier)
    c.cov["traces_validated_against_impl"] = nsites
    c.cov["evaluations"] = nsites
    c.cov["distinct_nontrivial"] = nontrivial
    c.cov["declaration_sets"] = len(cases)
    c.cov["exhaustive"] = True
    c.cov["rule"] = "every admissible subset of the 9 scope levels x 21 use sites (Scopes.tla); non-trivial = a site with a binding in a model that declares n at more than one level"
    c.sample({"declared_at": sorted(cases[len(cases) // 2]["d"]), "expected": cases[len(cases) // 2]["sites"][:6]})
    c.assumptions += ["TLC 1.8.0", "renderer checks/c07.py places each site as Scopes.tla describes it (chain, before)", "the symbol type int[k,k] identifies the declaration"]
    return c.finish()


def replay(path):
    rec = json.load(open(path))["replay"]
    c = vf.Check("C07", "quick")
    r = vf.run_jobs([{"id": "r", "entry": "xml_buffer", "text": rec["xml"], "trees": True, "analysis": False}], c.run_dir, variant="plain")["r"]
    found = {}
    walk(r["dump"]["doc"], found)
    print(json.dumps({k: [level_of(x) for x in v] for k, v in found.items()}, indent=1))
    return 1
