"""C19 — expression cloning, substitution and equality obey their algebraic laws.
ExprHeap.tla: expression_t as handles on shared reference-counted nodes; Clone / CloneDeeper / Subst / SetChild transcribed
from expression.cpp on an explicit heap; the laws are invariants and step properties; TLC explores every operation sequence
up to a bound from five initial heaps (incl. a quantifier binder, a member access, a synchronisation, a node used twice)
and exports the behaviours.
B2: every behaviour is executed on real expression_t objects built through the public factory functions; the tree under
every handle and the node-sharing relation between handles (identity = operator==) must equal the spec's final state.
Laws on parsed expressions: every expression of TLC-generated models (DocGen.tla), of a scaffold rich in member accesses,
synchronisations, calls, lists, quantifiers and doubles, and of the query forms of Queries.tla is put through the laws of
the statement, for every symbol occurring in it and for every single-node perturbation (constant, double, symbol, kind,
operand order, member index, synchronisation direction, number of children of n-ary nodes)."""
import json, os, random
import vf, docgen, xmlgen, c03

RICH_DECL = """typedef struct { int lo; int hi; } R2;
R2 s; R2 arr[2]; int i, j, k; bool b1; double d = 1.5; int a[3]; int m[2][2];
chan c; chan cc[2]; broadcast chan bc; clock x, y;
int f2(int u, int w) { int t[2] = {u, w}; if (u > w) { return t[0]; } while (i < 3) { i++; } for (k : int[0,1]) { j = j + k; } return u + w * 2; }
"""
RICH_T = {"name": "P", "decl": "clock lx; int v; int w2[2] = {1, 2};", "locations": [{"id": "id0", "name": "L1", "inv": "x <= 5 && lx <= s.hi"}, {"id": "id1", "name": "L2"}], "init": "id0",
          "edges": [{"src": "id0", "dst": "id1", "guard": "s.lo + 1 > i", "sync": "c!", "assign": "i = arr[0].lo + f2(i, j), d = d * 2.5"},
                    {"src": "id1", "dst": "id0", "guard": "s.hi + 1 > i", "sync": "c?", "assign": "i = arr[0].hi + f2(i, j)"},
                    {"src": "id0", "dst": "id0", "select": "e : int[0,1]", "guard": "forall (q : int[0,2]) a[q] > j && exists (r : int[0,1]) m[r][e] == i", "sync": "cc[e]!", "assign": "a[e] = (i > j ? i : j), v = sum (q : int[0,2]) a[q]"},
                    {"src": "id1", "dst": "id1", "guard": "x - y < 3 && !(i == j) || b1", "sync": "bc?", "assign": "i++, j--, i += j << 1"}]}
RICH_QUERIES = ["A[] P.L1 imply s.lo <= s.hi", "E<> P.v == 1 && P.lx > 2", "simulate [<=10] {i, j, P.v}", "simulate [<=10; 5] {i, x} : 2 : i > 1", "Pr[<=10] (<> P.L2)",
                "E[<=10; 7] (max: i + j)", "sup{P.L1}: x, i", "A[] forall (q : int[0,2]) a[q] >= 0", "P.L1 --> P.L2"]


def run(tier):
    c = vf.Check("C19", tier)
    quick = tier == "quick"
    vf.build_lib("asan")
    rnd = random.Random(c.seed)
    # ---- spec behaviours
    cfg = os.path.join(c.run_dir, "ExprHeap.cfg")
    open(cfg, "w").write("CONSTANTS\n  MaxOps = %d\n  MaxNodes = %d\n  MaxHandles = 4\nINIT Init\nNEXT Next\nINVARIANTS Laws ArityIsSub EmitState\nCHECK_DEADLOCK FALSE\n" % ((3, 16) if quick else (4, 24)))
    mc = vf.run_tlc("ExprHeap", cfg, c.run_dir, timeout=3000, xmx="16g", keep_out=False, coverage=True)
    never = [a for a in ("CloneN", "DeepN", "SubstN", "SetChildN", "ChildN") if mc.coverage.get(a, (0, 0))[0] == 0]
    if never:
        raise vf.MachineryError("vacuous ExprHeap run: %s never taken" % never)
    c.add_tlc("ExprHeap", mc, "Laws (clone, clone_deeper, subst, set_child) on every operation sequence")
    if mc.violated:
        c.finding("c19:spec:%s" % mc.violated, "ExprHeap.tla: %s is violated by the transcribed operations" % mc.violated, {"tlc": mc.out[-3000:]})
    beh = mc.emitted
    if not quick and len(beh) > 150000:
        beh = rnd.sample(beh, 150000)
    per = 1000
    jobs = [{"id": "b%d" % (k // per), "cases": beh[k:k + per], "timeout": 300} for k in range(0, len(beh), per)]
    # ---- laws on parsed expressions
    qf = os.path.join(c.run_dir, "queries.ndjson")
    mq = vf.run_tlc("Queries", "Queries.cfg", c.run_dir, env={"OUTF": qf}, timeout=300, keep_out=False)
    c.add_tlc("Queries", mq, "query forms")
    qs = ["strategy S = control: A[] P.L1"] + [c03.render_query(q) for q in vf.read_ndjson(qf)]
    ljobs = [{"id": "rich", "laws": True, "text": xmlgen.render_xml({"decl": RICH_DECL, "templates": [RICH_T], "system": "system P;"}), "queries": RICH_QUERIES, "timeout": 300},
             {"id": "forms", "laws": True, "text": xmlgen.render_xml({"decl": c03.SCAFFOLD_DECL, "templates": [c03.P_TEMPLATE], "system": "system P;"}), "queries": qs, "timeout": 300}]
    models = docgen.generate(c, ["labels", "mixed"], 500 if quick else 5000, c.seed, bfs=False)
    for n, e in enumerate(models[:(300 if quick else 4000)]):
        ljobs.append({"id": "m%d" % n, "laws": True, "text": xmlgen.render_xml(docgen.to_xmlgen(e["m"])), "queries": ["E<> i + j > N", "A[] x >= 0 imply a[0] <= a[1] + pos(i)"], "timeout": 120})
    res = vf.run_jobs(jobs + ljobs, c.run_dir, variant="asan", harness="replay_heap", name="heap")
    nb = 0
    for j in jobs:
        r = res[j["id"]]
        if "n" not in r:
            c.finding("c19:replay-crash", "executing TLC's operation sequences on expression_t crashed: %s" % r.get("outcome"), {"stderr": (r.get("stderr") or "")[:2000]})
            continue
        nb += r["n"]
        for mm in r["mismatches"]:
            ops = [o["op"] for o in mm["ops"]]
            if "law" in mm:
                upto = ops[:mm.get("step", len(ops))]
                c.finding("c19:behaviour-law:%s:%s" % (upto[-1], mm["law"].split(" ")[0]), "after %s on the heap %s: %s" % ([(o["op"], o["h"], o["i"], o["x"], o["s"]) for o in mm["ops"]][:len(upto)], json.dumps(mm["heap0"])[:160], mm["law"]), mm)
                continue
            d = docgen.diff({"trees": mm["expected_trees"], "share": mm["expected_share"]}, {"trees": mm["trees"], "share": mm["share"]})
            c.finding("c19:behaviour:%s:%s" % (ops[-1], docgen.diff_class(d[0]).split("/")[1]),
                      "after %s on the heap %s the real expressions differ from ExprHeap.tla at %s: expected %s, got %s" % (ops, json.dumps(mm["heap0"])[:120], d[0][0], json.dumps(d[0][1])[:100], json.dumps(d[0][2])[:100]), mm)
    nexpr = npert = nsub = npairs = 0
    kinds = {}
    for j in ljobs:
        r = res[j["id"]]
        if "violations" not in r:
            c.finding("c19:laws-crash", "checking the laws on a parsed document crashed: %s" % r.get("outcome"), {"xml": j["text"], "stderr": (r.get("stderr") or r.get("sanitizer") or "")[:2000]})
            continue
        nexpr += r["expressions"]; npert += r["perturbations"]; nsub += r["substitutions"]; npairs += r["pairs"]
        for k, v in r["kinds"].items():
            kinds[k] = kinds.get(k, 0) + v
        for v in r["violations"]:
            c.finding("c19:law:%s" % v["law"], "%s: %s [%s]" % (v["law"], v["what"], v["expr"]), {"xml": j["text"], "queries": j.get("queries"), "violation": v})
        if r.get("sanitizer"):
            c.finding("c19:sanitizer", "sanitizer report while executing the laws", {"xml": j["text"], "report": r["sanitizer"][:2000]})
    c.cov["traces_validated_against_impl"] = nb
    c.cov["evaluations"] = nb + nexpr
    c.cov["distinct_nontrivial"] = nexpr
    c.cov.update({"behaviours_replayed": nb, "expressions": nexpr, "perturbations": npert, "substitutions": nsub, "pairs_compared": npairs, "node_kinds_seen": len(kinds), "kinds": kinds})
    c.cov["rule"] = "behaviours = terminal states of ExprHeap.tla; expressions = every label, initialiser, statement, instantiation argument and query of DocGen models, a rich scaffold and the query forms of Queries.tla; non-trivial = a parsed expression put through all laws"
    c.sample({"ops": beh[len(beh) // 2]["ops"], "heap0": beh[len(beh) // 2]["heap0"]})
    c.assumptions += ["TLC 1.8.0", "node identity is observed through expression_t::operator==", "the laws are executed through the public API only"]
    return c.finish()


def replay(path):
    rec = json.load(open(path))["replay"]
    c = vf.Check("C19", "quick")
    if "xml" in rec:
        r = vf.run_jobs([{"id": "r", "laws": True, "text": rec["xml"], "queries": rec.get("queries") or []}], c.run_dir, variant="asan", harness="replay_heap")["r"]
        print(json.dumps(r.get("violations"), indent=1))
    else:
        r = vf.run_jobs([{"id": "r", "cases": [{"heap0": rec["heap0"], "ops": rec["ops"], "trees": rec["expected_trees"], "share": rec["expected_share"]}]}], c.run_dir, variant="asan", harness="replay_heap")["r"]
        print(json.dumps(r.get("mismatches"), indent=1)[:3000])
    return 1
