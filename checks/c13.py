"""C13 — sizes, bounds, initialisers and value arguments must be compile-time computable.
Computable.tla: dependence chains declared link by link (const initialisers, function bodies, locals, calls) from a
leaf to a compile-time context; semantic computability (lfp) vs the transcribed depends/compileTimeComputableValues
mechanism; TLC checks Sound/Complete on every chain and exports them; plus template-parameter/instantiation chains
(restricted parameters). Every chain is rendered in each compile-time context and checked by libutap."""
import json, os
import vf, batch
from xmlgen import render_xml

BASE_DECL = """typedef struct { int u; int w; } SR;
const int cc = 2; const int cca[2] = {1, 2};
int m = 1; int ma[2] = {1, 1};
int qa[4]; bool b; int i;
int idf(int q) { return q; }
"""
LEAF = {"lit": "3", "const": "cc", "mut": "m", "mutelem": "ma[0]", "constelem": "cca[0]", "binder": "k"}
TV = {"name": "TV", "params": "const int pp", "locations": [{"id": "id0"}], "init": "id0"}
TC = {"name": "TC", "params": "const int &pp", "locations": [{"id": "id0"}], "init": "id0"}
# namesakes: another template declares CONSTANTS called like the mutable globals, and VARIABLES called like the constant ones - whether a name is computable is a
# question about the declaration it is bound to, not about its spelling
TS = {"name": "TS", "decl": "const int m = 1; const int ma[2] = {1, 1}; int cc = 2; int cca[2] = {1, 2};", "locations": [{"id": "id0"}], "init": "id0"}


def render_chain(n, leaf, chain):
    """-> (global decl lines, template decl lines, expression, in_template)"""
    g, t = [], []
    e = LEAF[leaf]
    in_t = False
    for k, link in enumerate(chain):
        nm = "n%d_%d" % (n, k)
        if link == "tinit":
            in_t = True
        tgt = t if in_t else g
        if link in ("cinit", "tinit"):
            tgt.append("const int %s = %s;" % (nm, e)); e = nm
        elif link == "fun":
            tgt.append("int %s() { return %s; }" % (nm, e)); e = nm + "()"
        elif link == "flocal":
            tgt.append("int %s() { int t = %s; return t; }" % (nm, e)); e = nm + "()"
        elif link == "flocalarr":
            tgt.append("int %s() { int t[2] = {%s, 0}; return t[0]; }" % (nm, e)); e = nm + "()"
        elif link == "flocalrec":
            tgt.append("int %s() { SR t = {%s, 0}; return t.u; }" % (nm, e)); e = nm + "()"
        elif link == "fcall":
            tgt.append("int %s() { return idf(%s); }" % (nm, e)); e = nm + "()"
        elif link == "flhsidx":
            tgt.append("int %s() { int t[2] = {0, 0}; t[(%s) %% 2] = 1; return t[0]; }" % (nm, e)); e = nm + "()"
        elif link == "fcompound":
            tgt.append("int %s() { int t = 0; t += %s; return t; }" % (nm, e)); e = nm + "()"
        elif link == "fcond":
            tgt.append("int %s() { if ((%s) > 0) return 1; return 0; }" % (nm, e)); e = nm + "()"
        elif link == "floop":
            tgt.append("int %s() { int t = 0; for (t = 0; t < (%s); t++) { } return t; }" % (nm, e)); e = nm + "()"
        elif link == "fwhile":
            tgt.append("int %s() { int t = 0; while (t < (%s)) { t++; } return t; }" % (nm, e)); e = nm + "()"
        elif link == "fthenelse":
            tgt.append("int %s() { int t = 0; if (t == 0) { t = %s; } else { t = 1; } return t; }" % (nm, e)); e = nm + "()"
        else:
            raise vf.MachineryError("unknown link " + link)
    return g, t, e, in_t


def contexts(E, n, in_t):
    c = {
        "arrsize_t": ("tdecl", "int At%d[%s];" % (n, E)),
        "range_t": ("tdecl", "int[0,%s] Rt%d;" % (E, n)),
        "init_t": ("tdecl", "int It%d = %s;" % (n, E)),
        "fparam_size_t": ("tdecl", "void Fs%d(int a[%s]) { }" % (n, E)),          # the type of a function parameter is a type like any other
        "fparam_range_t": ("tdecl", "void Fr%d(int[0,%s] v) { }" % (n, E)),
        "init_t_double": ("tdecl", "double Dt%d = %s * 0.5;" % (n, E)),
        "init_t_bool": ("tdecl", "bool Bt%d = %s > 0;" % (n, E)),
        "select_dom": ("select", "ks%d : int[0,%s]" % (n, E)),
        "quant_dom": ("assign", "b = forall (k : int[0,%s]) true" % E),
    }
    if not in_t:
        c.update({
            "arrsize_g": ("gdecl", "int Ag%d[%s];" % (n, E)),
            "arrsize_f": ("gdecl", "void Ff%d() { int a[%s]; }" % (n, E)),
            "range_g": ("gdecl", "int[0,%s] Rg%d;" % (E, n)),
            "scalar_g": ("gdecl", "typedef scalar[%s] SS%d; SS%d sv%d;" % (E, n, n, n)),
            "init_g": ("gdecl", "int Ig%d = %s;" % (n, E)),
            # an initialiser is an initialiser whatever the type of the variable
            "fparam_size_g": ("gdecl", "void Gs%d(int a[%s]) { }" % (n, E)),
            "fparam_refsize_g": ("gdecl", "void Gq%d(int &a[%s]) { }" % (n, E)),
            "fparam_range_g": ("gdecl", "int Gr%d(int[0,%s] v) { return v; }" % (n, E)),
            "init_g_double": ("gdecl", "double Dg%d = %s * 0.5;" % (n, E)),
            "init_g_bool": ("gdecl", "bool Bg%d = %s > 0;" % (n, E)),
            "init_g_array": ("gdecl", "int Ga%d[2] = { %s, 0 };" % (n, E)),
            "init_g_tdarray": ("gdecl", "typedef int TA%d[2]; TA%d Gt%d[2] = { { %s, 0 }, { 0, 0 } };" % (n, n, n, E)),      # an array whose elements are arrays through a type name
            "init_g_record": ("gdecl", "struct { int a; int b; } Gs%d = { 1, %s };" % (n, E)),
            "init_meta": ("gdecl", "meta int Im%d = %s;" % (n, E)),
            "iter_dom": ("gdecl", "void Gi%d() { for (it : int[0,%s]) { } }" % (n, E)),
            "valarg": ("system", "Va%d = TV(%s);" % (n, E)),
            "crefarg": ("system", "Cr%d = TC(%s);" % (n, E)),
        })
    return c


def mk_placer():
    return batch.Placer(BASE_DECL, extra_templates=[TV, TC, TS])


def inst_model(cs):
    """template-parameter chain -> model"""
    use = cs["use"]
    hops = cs.get("hops", 0)
    hd = "".join("const int h%d = %s + %d; " % (k + 1, "N" if k == 0 else "h%d" % k, k % 2) for k in range(hops))
    top_name = "N" if hops == 0 else "h%d" % hops
    lead = cs.get("lead", 0)
    arr = {"size": "int a[%s];", "upper": "int a[int[0,%s]];", "lower": "int a[int[%s,5]];"}[cs.get("dim", "size")] % top_name
    arr = {"templ": arr, "func": "void fa() { %s }" % arr, "block": "void fa() { int z = 0; { %s } }" % arr}[cs.get("place", "templ")]
    ta = {"name": "TA", "params": ("const int[0,1] a0, " if lead else "") + "const int[1,2] N", "locations": [{"id": "id0"}], "init": "id0", "decl": hd + (arr if use == "arrsize" else ""),
          "edges": [{"src": "id0", "dst": "id0", "guard": "%s > 0" % top_name}] if use == "guard" else []}
    sysl, top = [], "TA"
    for k in range(cs["passes"]):
        sysl.append("P%d(const int[1,2] q%d) = %s(%sq%d);" % (k + 1, k + 1, top, "0, " if (lead and k == 0) else "", k + 1)); top = "P%d" % (k + 1)
    if cs["end"] != "free":
        arg = {"lit": "1", "const": "cc1", "mut": "m"}[cs["end"]]
        sysl.append("PE = %s(%s%s);" % (top, "0, " if (lead and cs["passes"] == 0) else "", arg)); top = "PE"
    sysl.append("system %s;" % top)
    return {"decl": "const int cc1 = 1; int m = 1;", "templates": [ta], "system": "\n".join(sysl)}


def run(tier):
    c = vf.Check("C13", tier)
    mc = vf.run_tlc("ComputableMC", "Computable_mc.cfg" if tier == "quick" else "Computable_thorough.cfg", c.run_dir, coverage=True, timeout=1200)
    c.add_tlc("Computable", mc, "invariants Sound, Complete after every link")
    if mc.violated:
        vf.log("Computable: %s violated at spec level; replay decides" % mc.violated)
    chains = [e for e in mc.emitted if "leaf" in e]
    inst = [e for e in mc.emitted if "inst" in e][0]["inst"]
    if mc.coverage.get("AddLink", (0, 0))[1] == 0:
        raise vf.MachineryError("vacuous Computable run")
    cases, info = [], {}
    for n, ch in enumerate(chains):
        if ch["leaf"] == "binder":
            # a binder is only nameable inside its quantifier: used directly in an initialiser
            for role, text in (("gdecl", "int Bs%d = sum (k : int[0,1]) (cca[k] + k);" % n), ("tdecl", "bool Bf%d = forall (k : int[0,1]) cca[k] >= k;" % n)):
                cid = "c%d" % len(cases)
                cases.append({"id": cid, "role": role, "text": text}); info[cid] = (ch, "binder_in_init", [], [])
            continue
        g, t, E, in_t = render_chain(n, ch["leaf"], ch["chain"])
        for ctx, (role, text) in contexts(E, len(cases), in_t).items():
            cid = "c%d" % len(cases)
            role, text = contexts(E, len(cases), in_t)[ctx]
            cases.append({"id": cid, "role": role, "text": text, "pre": g, "tpre": t}); info[cid] = (ch, ctx, g, t)
    verdict = batch.run_placed(vf, cases, mk_placer, c.run_dir, per=40)
    nontrivial = 0
    for cs in cases:
        ch, ctx, g, t = info[cs["id"]]
        msgs = verdict[cs["id"]]
        accepted = not msgs
        rep = {"base_decl": BASE_DECL, "global_lines": g, "template_lines": t, "context": ctx, "role": cs["role"], "text": cs["text"],
               "computable": ch["sem"], "diagnostics": msgs, "kind": "chain"}
        key = "%s:%s:%s" % (ch["leaf"], ",".join(ch["chain"]), ctx)
        if not ch["sem"]:
            nontrivial += 1
            if accepted:
                c.finding("c13:noncomputable-accepted:" + key, "%s accepted although it depends on a mutable variable: %s [%s]" % (ctx, cs["text"], " ".join(g + t)[:160]), rep)
        elif not accepted:
            c.finding("c13:computable-rejected:" + key, "%s rejected although computable: %s (%s) [%s]" % (ctx, cs["text"], msgs[:2], " ".join(g + t)[:160]), rep)
    # instantiation chains: one model each
    jobs = [{"id": "i%d" % k, "entry": "xml_buffer", "text": render_xml(inst_model(cs)), "structure": False} for k, cs in enumerate(inst)]
    res = vf.run_jobs(jobs, c.run_dir, variant="plain", name="inst")
    for k, cs in enumerate(inst):
        r = res["i%d" % k]
        if r.get("main", {}).get("outcome") != "return":
            raise vf.MachineryError("instantiation model failed: %s" % json.dumps(r)[:800])
        msgs = [e["msg"] for e in r["dump"]["doc"]["errors"]]
        accepted = not msgs
        key = "inst:%d:%s:%s:hops%d:%s:lead%d" % (cs["passes"], cs["end"], cs["use"], cs.get("hops", 0), cs.get("dim", "size"), cs.get("lead", 0)) + (":" + cs["place"] if cs.get("place", "templ") != "templ" else "")
        rep = {"kind": "inst", "case": cs, "model": inst_model(cs), "diagnostics": msgs}
        if not cs["accepted"]:
            nontrivial += 1
        if accepted and not cs["accepted"]:
            c.finding("c13:" + key + ":accepted", "instantiation chain accepted but must be rejected (%s)" % key, rep)
        if not accepted and cs["accepted"]:
            c.finding("c13:" + key + ":rejected", "instantiation chain rejected but must be accepted (%s): %s" % (key, msgs[:2]), rep)
    if mc.violated and not c.violations and not c.known_hit:
        raise vf.MachineryError("Computable.tla violates %s but libutap agrees with the semantics on every replayed case: transcription stale" % mc.violated)
    c.cov["traces_validated_against_impl"] = len(cases) + len(inst)
    c.cov["evaluations"] = len(cases) + len(inst)
    c.cov["distinct_nontrivial"] = nontrivial
    c.cov["rule"] = "every dependence chain (6 leaves x link sequences of length<=3 over {const init, function return, function local, by-value call, template-level const}) in each of 26 compile-time contexts; 24 template-parameter/instantiation chains; non-trivial = semantics says not computable / must be rejected"
    c.cov["exhaustive"] = True
    for k in (0, len(cases) // 2, len(cases) - 1):
        ch, ctx, g, t = info[cases[k]["id"]]
        c.sample({"decl": g + t, "context": ctx, "text": cases[k]["text"], "computable": ch["sem"], "accepted": not verdict[cases[k]["id"]]})
    c.assumptions += ["TLC 1.8.0", "renderer checks/c13.py"]
    return c.finish()


def replay(path):
    rec = json.load(open(path))["replay"]
    c = vf.Check("C13", "quick")
    if rec["kind"] == "inst":
        r = vf.run_jobs([{"id": "i", "entry": "xml_buffer", "text": render_xml(rec["model"]), "structure": False}], c.run_dir, variant="plain")["i"]
        msgs = [e["msg"] for e in r["dump"]["doc"]["errors"]]
        print(json.dumps({"case": rec["case"], "accepted": not msgs, "diagnostics": msgs}))
        return 1 if (not msgs) != rec["case"]["accepted"] else 0
    case = {"id": "c0", "role": rec["role"], "text": rec["text"], "pre": rec["global_lines"], "tpre": rec["template_lines"]}
    v = batch.run_placed(vf, [case], mk_placer, c.run_dir, per=1)
    print(json.dumps({"text": rec["text"], "accepted": not v["c0"], "diagnostics": v["c0"], "computable": rec["computable"]}))
    return 1 if (rec["computable"] != (not v["c0"])) else 0
