// Parses text with the real lexer+parser into a traced no-op builder and reports the callback sequence
// (B2 conformance for LR.tla: the real parser must emit exactly the callbacks the spec predicts).
// job: {id, text, part | "property", newxta, types:[names treated as type names], positions: bool}
#include "TraceBuilder.hpp"
#include "jobloop.hpp"

#include "utap/utap.h"

using nlohmann::json;
using namespace UTAP;

static xta_part_t part_of(const std::string& s)
{
    static const std::map<std::string, xta_part_t> m = {
        {"S_XTA", S_XTA}, {"S_DECLARATION", S_DECLARATION}, {"S_LOCAL_DECL", S_LOCAL_DECL}, {"S_INST", S_INST},
        {"S_SYSTEM", S_SYSTEM}, {"S_PARAMETERS", S_PARAMETERS}, {"S_INVARIANT", S_INVARIANT},
        {"S_EXPONENTIAL_RATE", S_EXPONENTIAL_RATE}, {"S_SELECT", S_SELECT}, {"S_GUARD", S_GUARD}, {"S_SYNC", S_SYNC},
        {"S_ASSIGN", S_ASSIGN}, {"S_EXPRESSION", S_EXPRESSION}, {"S_EXPRESSION_LIST", S_EXPRESSION_LIST},
        {"S_PROPERTY", S_PROPERTY}, {"S_XTA_PROCESS", S_XTA_PROCESS}, {"S_PROBABILITY", S_PROBABILITY},
        {"S_MESSAGE", S_MESSAGE}, {"S_UPDATE", S_UPDATE}, {"S_CONDITION", S_CONDITION}};
    auto it = m.find(s);
    if (it == m.end()) throw std::invalid_argument("bad part " + s);
    return it->second;
}

static json run_job(const json& job)
{
    json out{{"id", job["id"]}};
    vh::TraceSink sink;
    vh::Traced<vh::NullBuilder> b;
    b.sink = &sink;
    b.log_positions = job.value("positions", false);
    if (job.contains("types")) for (auto& t : job["types"]) b.type_names.insert(t.get<std::string>());
    const std::string text = job["text"];
    try {
        if (job.value("part", "") == "property") out["ret"] = parseProperty(text.c_str(), &b);
        else out["ret"] = parse_XTA(text.c_str(), &b, job.value("newxta", true), part_of(job["part"]), "");
        out["outcome"] = "return";
    } catch (const std::exception& e) {
        out["outcome"] = "throw"; out["exc"] = vh::exc_name(e); out["what"] = e.what();
    }
    out["events"] = sink.events;
    return out;
}

int main(int argc, char** argv) { return vh::jobloop_main(argc, argv, run_job); }
