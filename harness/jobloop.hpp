// fork-per-job driver shared by the harnesses: fresh process-global state per job, crash isolation, sanitizer capture
#pragma once
#include <nlohmann/json.hpp>
#include <chrono>
#include <fcntl.h>
#include <fstream>
#include <iostream>
#include <string>
#include <sys/resource.h>
#include <sys/wait.h>
#include <unistd.h>
#include <csignal>

namespace vh {
using nlohmann::json;
template <class F>
int jobloop_main(int argc, char** argv, F run_job)
{
    if (argc < 3) { std::cerr << "usage: model_run jobs.ndjson out.ndjson\n"; return 2; }
    std::ifstream in(argv[1]);
    std::ofstream out(argv[2]);
    std::string line;
    std::string errfile = std::string(argv[2]) + ".stderr";
    std::string resfile = std::string(argv[2]) + ".res";
    while (std::getline(in, line)) {
        if (line.empty()) continue;
        json job = json::parse(line);
        int timeout = job.value("timeout", 20);
        auto t0 = std::chrono::steady_clock::now();
        pid_t pid = fork();
        if (pid == 0) {
            int fd = open(errfile.c_str(), O_WRONLY | O_CREAT | O_TRUNC, 0644);
            dup2(fd, 2);
            int dn = open("/dev/null", O_WRONLY);
            dup2(dn, 1);  // library code prints to stdout in places
            alarm(timeout);
            struct rlimit rl{(rlim_t)job.value("stack_mb", 64) * 1024 * 1024, (rlim_t)job.value("stack_mb", 64) * 1024 * 1024};
            setrlimit(RLIMIT_STACK, &rl);
            json res;
            try { res = run_job(job); } catch (const std::exception& e) { res = json{{"id", job["id"]}, {"outcome", "harness-error"}, {"what", e.what()}}; }
            std::ofstream r(resfile);
            r << res.dump(-1, ' ', false, json::error_handler_t::replace) << "\n";
            r.close();
            _exit(0);
        }
        int st = 0;
        struct rusage ru{};
        wait4(pid, &st, 0, &ru);
        double ms = std::chrono::duration<double, std::milli>(std::chrono::steady_clock::now() - t0).count();
        json res;
        bool ok = false;
        if (WIFEXITED(st) && WEXITSTATUS(st) == 0) {
            std::ifstream r(resfile);
            std::string l;
            if (std::getline(r, l)) { try { res = json::parse(l); ok = true; } catch (...) {} }
        }
        if (!ok) {
            res = json{{"id", job["id"]}};
            if (WIFSIGNALED(st)) { res["outcome"] = WTERMSIG(st) == SIGALRM ? "timeout" : "signal"; res["sig"] = WTERMSIG(st); }
            else { res["outcome"] = "abnormal-exit"; res["status"] = WIFEXITED(st) ? WEXITSTATUS(st) : -1; }
            std::ifstream e(errfile);
            std::string all((std::istreambuf_iterator<char>(e)), std::istreambuf_iterator<char>());
            if (all.size() > 6000) all = all.substr(0, 6000);
            res["stderr"] = all;
        } else {
            // sanitizer reports that did not kill the process (UBSan)
            std::ifstream e(errfile);
            std::string all((std::istreambuf_iterator<char>(e)), std::istreambuf_iterator<char>());
            if (all.find("runtime error:") != std::string::npos || all.find("ERROR: AddressSanitizer") != std::string::npos) {
                if (all.size() > 4000) all = all.substr(0, 4000);
                res["sanitizer"] = all;
            }
        }
        res["ms"] = ms;
        res["maxrss_kb"] = ru.ru_maxrss;
        unlink(resfile.c_str());
        out << res.dump(-1, ' ', false, json::error_handler_t::replace) << "\n";
        out.flush();
    }
    unlink(errfile.c_str());
    return 0;
}

}  // namespace vh
