// Canonical JSON projection of libutap objects (Document, expressions, types, diagnostics) and the
// C08 structural-invariant walker. Kept small: this is the abstract-state projection the TLA+ modules
// are bound through, so every field here is something a spec variable talks about.
#pragma once
#include "utap/utap.h"
#include "utap/statement.h"

#include <nlohmann/json.hpp>

#include <cstring>
#include <set>
#include <sstream>
#include <string>

namespace vh {
using nlohmann::json;
using namespace UTAP;

inline const char* kind_name(int k)
{
    static const char* names[] = {
#define KIND(x) #x,
#include "kind_names.inc"
#undef KIND
    };
    constexpr int n = sizeof(names) / sizeof(names[0]);
    return (k >= 0 && k < n) ? names[k] : "?";
}

inline std::string safe_str(const expression_t& e)
{
    if (e.empty()) return "";
    try { return e.str(); } catch (const std::exception& ex) { return std::string("<<str() threw: ") + ex.what() + ">>"; }
}

inline std::string safe_type_str(const type_t& t)
{
    if (t.unknown()) return "";  // type_t() default
    try { return t.str(); } catch (const std::exception& ex) { return std::string("<<type str threw: ") + ex.what() + ">>"; }
}

inline std::string dbits(double d)
{
    uint64_t u; std::memcpy(&u, &d, 8);
    char b[20]; snprintf(b, sizeof b, "%016llx", (unsigned long long)u);
    return b;
}

struct PosCtx { const Document* doc = nullptr; };

inline json pos_json(const Document* doc, const position_t& p)
{
    json j{{"s", p.start}, {"e", p.end}};
    if (doc && p.start != (uint32_t)position_t::unknown_pos) {
        try {
            const auto& l = doc->find_position(p.start);
            j["path"] = l.path ? *l.path : "";
            j["line"] = l.line;
            j["col"] = (int64_t)p.start - (int64_t)l.position + l.offset;
        } catch (...) {}
    }
    return j;
}

inline json type_trees(const type_t& t, const Document* doc);
// expression tree: kind, children in order, symbol (name, declared type, declaration position), exact constants
inline json expr_tree(const expression_t& e, const Document* doc = nullptr, bool types = false, int depth = 0)
{
    if (e.empty()) return nullptr;
    json j;
    auto k = e.get_kind();
    j["k"] = kind_name(k);
    if (depth > 200) { j["deep"] = true; return j; }
    if (types && !e.get_type().unknown()) j["t"] = kind_name(e.get_type().get_kind());
    if (k == Constants::CONSTANT) {
        auto t = e.get_type();
        if (t.is(Constants::DOUBLE)) j["d"] = dbits(e.get_double_value());
        else if (t.is_string()) j["s"] = std::string(e.get_string_value());
        else if (t.is_integral()) { j["v"] = e.get_value(); if (t.isBoolean()) j["b"] = true; }
        else j["v?"] = safe_type_str(t);
    } else if (k == Constants::IDENTIFIER) {
        symbol_t s = e.get_symbol();
        if (s == symbol_t()) j["sym"] = nullptr;
        else {
            j["sym"] = s.get_name();
            j["st"] = safe_type_str(s.get_type());
            j["sp"] = pos_json(doc, s.get_position());
        }
    } else if (k == Constants::DOT) {
        j["i"] = e.get_index();
        if (types) j["ts"] = safe_type_str(e.get_type());
    } else if (k == Constants::ARRAY) {
        if (types) j["ts"] = safe_type_str(e.get_type());
    } else if (k == Constants::SYNC) {
        j["sync"] = (int)e.get_sync();
    } else if (k == Constants::VAR_INDEX) {
        j["v"] = e.get_value();
    }
    size_t n = e.get_size();
    if (n) {
        json ch = json::array();
        for (size_t i = 0; i < n; ++i) ch.push_back(expr_tree(e.get(i), doc, types, depth + 1));
        if (types && (k == Constants::FORALL || k == Constants::EXISTS || k == Constants::SUM) && e.get(0).get_kind() == Constants::IDENTIFIER && !(e.get(0).get_symbol() == symbol_t())) {
            json tx = type_trees(e.get(0).get_symbol().get_type(), doc);      // what is written in the binder's type
            if (!tx.empty()) j["btx"] = std::move(tx);
        }
        j["c"] = std::move(ch);
    }
    return j;
}

// the expressions written inside a type (range bounds, array sizes), as trees: which declaration an identifier used in a TYPE is bound to
inline void type_trees(const type_t& t, const Document* doc, json& out, int depth = 0)
{
    if (t == type_t() || depth > 40) return;       // (range bounds live in children of kind UNKNOWN)
    if (!t.get_expression().empty()) out.push_back(expr_tree(t.get_expression(), doc, true));
    for (uint32_t i = 0; i < t.size(); ++i) type_trees(t.get(i), doc, out, depth + 1);
}
inline json type_trees(const type_t& t, const Document* doc) { json a = json::array(); type_trees(t, doc, a); return a; }

inline json err_json(const UTAP::error_t& e)
{
    json j;
    j["msg"] = e.msg;
    if (!e.context.empty()) j["ctx"] = e.context;
    j["path"] = e.start.path ? *e.start.path : "";
    j["epath"] = e.end.path ? *e.end.path : "";
    j["ps"] = e.position.start; j["pe"] = e.position.end;
    bool known = !(e.position.start < e.start.position || e.position.end < e.end.position);
    j["known"] = known;
    j["sl"] = e.start.line; j["el"] = e.end.line;
    // columns as error_t::str() computes them, and in-element offsets
    j["sc"] = (int64_t)e.position.start - (int64_t)e.start.position;
    j["ec"] = (int64_t)e.position.end - (int64_t)e.end.position;
    j["so"] = (int64_t)e.position.start - (int64_t)e.start.position + e.start.offset;
    j["eo"] = (int64_t)e.position.end - (int64_t)e.end.position + e.end.offset;
    try { j["str"] = e.str(); } catch (...) { j["str"] = "<<threw>>"; }
    return j;
}

// expressions of a function body in source order (statement expressions, conditions, return values)
// after a failed parse a function body may hold compound statements whose sub-statement is null (the builder pops from an empty
// block during error recovery); the library's own printers and visitors dereference it, so the walker looks first
inline bool stmt_incomplete(const Statement* s)
{
    if (!s) return true;
    if (auto* b = dynamic_cast<const BlockStatement*>(s)) {
        for (auto it = b->begin(); it != b->end(); ++it) if (stmt_incomplete(it->get())) return true;
        return false;
    }
    if (auto* f = dynamic_cast<const ForStatement*>(s)) return stmt_incomplete(f->stat.get());
    if (auto* i = dynamic_cast<const IterationStatement*>(s)) return stmt_incomplete(i->stat.get());
    if (auto* w = dynamic_cast<const WhileStatement*>(s)) return stmt_incomplete(w->stat.get());
    if (auto* d = dynamic_cast<const DoWhileStatement*>(s)) return stmt_incomplete(d->stat.get());
    if (auto* c = dynamic_cast<const IfStatement*>(s)) return stmt_incomplete(c->trueCase.get()) || (c->falseCase && stmt_incomplete(c->falseCase.get()));
    return false;
}

struct StmtExprs : public AbstractStatementVisitor
{
    std::vector<expression_t> exprs;
    std::vector<type_t> binder_types;      // types of iteration binders: for (i : T)
    int32_t visitIterationStatement(IterationStatement* s) override { binder_types.push_back(s->symbol.get_type()); return s->stat ? s->stat->accept(this) : 0; }
    int32_t visitExprStatement(ExprStatement* s) override { exprs.push_back(s->expr); return 0; }
    int32_t visitAssertStatement(AssertStatement* s) override { exprs.push_back(s->expr); return 0; }
    int32_t visitForStatement(ForStatement* s) override { exprs.push_back(s->init); exprs.push_back(s->cond); exprs.push_back(s->step); return s->stat ? s->stat->accept(this) : 0; }
    int32_t visitWhileStatement(WhileStatement* s) override { exprs.push_back(s->cond); return s->stat ? s->stat->accept(this) : 0; }
    int32_t visitDoWhileStatement(DoWhileStatement* s) override { int32_t r = s->stat ? s->stat->accept(this) : 0; exprs.push_back(s->cond); return r; }
    int32_t visitIfStatement(IfStatement* s) override
    {
        exprs.push_back(s->cond);
        if (s->trueCase) s->trueCase->accept(this);
        if (s->falseCase) s->falseCase->accept(this);
        return 0;
    }
    int32_t visitReturnStatement(ReturnStatement* s) override { if (!s->value.empty()) exprs.push_back(s->value); return 0; }
};

struct Dumper
{
    Document& doc;
    bool trees = false;   // include expression trees next to their text
    json viol = json::array();   // C08 invariant violations found while walking

    json ex(const expression_t& e)
    {
        if (e.empty()) return nullptr;
        if (trees) return json{{"s", safe_str(e)}, {"t", expr_tree(e, &doc, true)}};
        return safe_str(e);
    }
    void bad(const std::string& what, const std::string& where) { viol.push_back(json{{"inv", what}, {"at", where}}); }

    json frame_json(const frame_t& f)
    {
        json a = json::array();
        if (f == frame_t()) return a;
        for (uint32_t i = 0; i < f.get_size(); ++i) {
            const symbol_t& s = f[i];
            a.push_back(json{{"name", s.get_name()}, {"type", safe_type_str(s.get_type())}});
            if (trees) a.back()["tx"] = type_trees(s.get_type(), &doc);
        }
        return a;
    }
    json names(const std::set<symbol_t>& s)
    {
        std::multiset<std::string> v;
        for (auto& x : s) v.insert(x.get_name());
        return json(v);
    }
    json decls(declarations_t& d, const std::string& where)
    {
        json j;
        json vars = json::array();
        for (auto& v : d.variables) {
            vars.push_back(json{{"name", v.uid.get_name()}, {"type", safe_type_str(v.uid.get_type())}, {"init", ex(v.init)}});
            if (trees) vars.back()["tx"] = type_trees(v.uid.get_type(), &doc);
            if (v.uid.get_data() != &v) bad("variable is not the user object of its symbol", where + "/var:" + v.uid.get_name());
        }
        j["vars"] = vars;
        json funs = json::array();
        for (auto& f : d.functions) {
            json fj{{"name", f.uid.get_name()}, {"type", safe_type_str(f.uid.get_type())},
                    {"changes", names(f.changes)}, {"depends", names(f.depends)}};
            json lv = json::array();
            for (auto& v : f.variables) {
                lv.push_back(json{{"name", v.uid.get_name()}, {"type", safe_type_str(v.uid.get_type())}, {"init", ex(v.init)}});
                if (trees) lv.back()["tx"] = type_trees(v.uid.get_type(), &doc);
                if (v.uid.get_data() != &v) bad("function local is not the user object of its symbol", where + "/fun:" + f.uid.get_name() + "/var:" + v.uid.get_name());
            }
            fj["locals"] = lv;
            const bool incomplete = f.body && stmt_incomplete(f.body.get());
            if (incomplete) fj["text"] = "<<incomplete body>>";
            else try { std::ostringstream os; if (f.body) { f.print(os); } fj["text"] = os.str(); } catch (const std::exception& e) { fj["text"] = std::string("<<threw ") + e.what(); }
            if (trees && f.body && !incomplete) {
                StmtExprs se;
                try { f.body->accept(&se); } catch (...) {}
                json ea = json::array();
                for (auto& e : se.exprs) ea.push_back(expr_tree(e, &doc, true));
                fj["exprs"] = ea;
                json bt = json::array();
                for (auto& ty : se.binder_types) type_trees(ty, &doc, bt);
                fj["iter_tx"] = bt;
                fj["tx"] = type_trees(f.uid.get_type(), &doc);
            }
            funs.push_back(fj);
            if (f.uid.get_data() != &f) bad("function is not the user object of its symbol", where + "/fun:" + f.uid.get_name());
        }
        j["funs"] = funs;
        json tds = json::array();
        for (uint32_t i = 0; i < d.frame.get_size(); ++i) {
            const symbol_t& s = d.frame[i];
            if (s.get_type().get_kind() == Constants::TYPEDEF) tds.push_back(json{{"name", s.get_name()}, {"type", safe_type_str(s.get_type())}});
        }
        j["typedefs"] = tds;
        json syms = json::array();
        for (uint32_t i = 0; i < d.frame.get_size(); ++i) syms.push_back(d.frame[i].get_name());
        j["symbols"] = syms;
        json prog = json::array();
        for (auto& p : d.progress) prog.push_back(json{{"guard", ex(p.guard)}, {"measure", ex(p.measure)}});
        if (!prog.empty()) j["progress"] = prog;
        if (!d.ganttChart.empty()) {
            json g = json::array();
            for (auto& x : d.ganttChart) g.push_back(x.name);
            j["gantt"] = g;
            if (trees) {       // the lines with their entries: binder frames and the two expressions of every entry (C07: scopes of the gantt binders)
                json gl = json::array();
                for (auto& x : d.ganttChart) {
                    json entries = json::array();
                    for (auto& m : x.mapping) entries.push_back(json{{"params", frame_json(m.parameters)}, {"pred", ex(m.predicate)}, {"map", ex(m.mapping)}});
                    gl.push_back(json{{"name", x.name}, {"params", frame_json(x.parameters)}, {"entries", entries}});
                }
                j["gantt_lines"] = gl;
            }
        }
        if (!d.iodecl.empty()) j["iodecl"] = d.iodecl.size();
        return j;
    }
    json instance_common(instance_t& i, const std::string& where)
    {
        json j;
        j["name"] = i.uid.get_name();
        j["params"] = frame_json(i.parameters);
        j["unbound"] = i.unbound;
        j["arguments"] = i.arguments;
        j["templ"] = i.templ ? json(i.templ->uid.get_name()) : json(nullptr);
        json map = json::array();
        // parameter order
        for (uint32_t k = 0; k < i.parameters.get_size(); ++k) {
            auto it = i.mapping.find(i.parameters[k]);
            if (it != i.mapping.end()) map.push_back(json{{"param", i.parameters[k].get_name()}, {"idx", k}, {"arg", ex(it->second)}});
        }
        j["mapping"] = map;
        j["restricted"] = names(i.restricted);
        // C08: unbound parameters first; type arity == unbound; mapping domain == bound parameters
        size_t np = i.parameters.get_size();
        if (i.unbound > np) bad("unbound exceeds parameter count", where);
        else {
            for (uint32_t k = 0; k < np; ++k) {
                bool mapped = i.mapping.find(i.parameters[k]) != i.mapping.end();
                if (k < i.unbound && mapped) bad("unbound parameter has a mapping", where + "/param:" + i.parameters[k].get_name());
                if (k >= i.unbound && !mapped) bad("bound parameter has no mapping", where + "/param:" + i.parameters[k].get_name());
            }
            if (i.mapping.size() != np - i.unbound) bad("mapping size differs from number of bound parameters", where);
        }
        type_t t = i.uid.get_type();
        if (!t.unknown()) {
            j["type_kind"] = kind_name(t.get_kind());
            if ((t.get_kind() == Constants::INSTANCE || t.get_kind() == Constants::LSC_INSTANCE) && t.size() != i.unbound)
                bad("instance type arity differs from number of unbound parameters", where);
        }
        return j;
    }

    json dump(bool structure = true)
    {
        json j;
        json errs = json::array(), warns = json::array();
        for (auto& e : doc.get_errors()) errs.push_back(err_json(e));
        for (auto& e : doc.get_warnings()) warns.push_back(err_json(e));
        j["errors"] = errs;
        j["warnings"] = warns;
        auto sm = doc.get_supported_methods();
        j["supported"] = json{{"symbolic", sm.symbolic}, {"stochastic", sm.stochastic}, {"concrete", sm.concrete}};
        if (!structure) return j;
        j["globals"] = decls(doc.get_globals(), "globals");
        json ts = json::array();
        for (auto& t : doc.get_templates()) {
            std::string tw = "template:" + t.uid.get_name();
            json tj = instance_common(t, tw);
            tj["is_TA"] = t.is_TA; tj["instantiated"] = t.is_instantiated; tj["dynamic"] = t.dynamic;
            if (!t.type.empty()) tj["lsc_type"] = t.type;
            if (!t.mode.empty()) tj["lsc_mode"] = t.mode;
            tj["decls"] = decls(t, tw);
            if (t.uid.get_data() != static_cast<instance_t*>(&t) && t.uid.get_data() != &t) bad("template is not the user object of its symbol", tw);
            if (t.templ != &t) bad("template's templ pointer is not itself", tw);
            json locs = json::array();
            int32_t nr = 0;
            std::set<const location_t*> own_locs; std::set<const branchpoint_t*> own_bps;
            for (auto& l : t.locations) {
                own_locs.insert(&l);
                type_t lt = l.uid.get_type();
                locs.push_back(json{{"name", l.uid.get_name()}, {"nr", l.nr}, {"inv", ex(l.invariant)}, {"exp_rate", ex(l.exp_rate)},
                                    {"cost_rate", ex(l.cost_rate)}, {"urgent", lt.is(Constants::URGENT)}, {"committed", lt.is(Constants::COMMITTED)}});
                if (l.uid.get_data() != &l) bad("location is not the user object of its symbol", tw + "/loc:" + l.uid.get_name());
                if (l.nr != nr) bad("location numbers not dense/in order", tw + "/loc:" + l.uid.get_name());
                ++nr;
            }
            tj["locations"] = locs;
            json bps = json::array();
            nr = 0;
            for (auto& b : t.branchpoints) {
                own_bps.insert(&b);
                bps.push_back(json{{"name", b.uid.get_name()}, {"nr", b.bpNr}});
                if (b.uid.get_data() != &b) bad("branchpoint is not the user object of its symbol", tw + "/bp:" + b.uid.get_name());
                if (b.bpNr != nr) bad("branchpoint numbers not dense/in order", tw + "/bp:" + b.uid.get_name());
                ++nr;
            }
            tj["branchpoints"] = bps;
            tj["init"] = (t.init == symbol_t()) ? json(nullptr) : json(t.init.get_name());
            if (!(t.init == symbol_t())) {
                auto* il = static_cast<const location_t*>(t.init.get_data());
                if (!own_locs.count(il)) bad("initial location is not among the template's own locations", tw);
            }
            json es = json::array();
            nr = 0;
            for (auto& e : t.edges) {
                std::string ew = tw + "/edge:" + std::to_string(nr);
                json ej{{"nr", e.nr}, {"control", e.control}, {"actname", e.actname}};
                int nsrc = (e.src ? 1 : 0) + (e.srcb ? 1 : 0), ndst = (e.dst ? 1 : 0) + (e.dstb ? 1 : 0);
                if (nsrc != 1) bad("edge does not have exactly one source", ew);
                if (ndst != 1) bad("edge does not have exactly one target", ew);
                if (e.src && !own_locs.count(e.src)) bad("edge source location belongs to another template", ew);
                if (e.dst && !own_locs.count(e.dst)) bad("edge target location belongs to another template", ew);
                if (e.srcb && !own_bps.count(e.srcb)) bad("edge source branchpoint belongs to another template", ew);
                if (e.dstb && !own_bps.count(e.dstb)) bad("edge target branchpoint belongs to another template", ew);
                if (e.nr != nr) bad("edge numbers not dense/in order", ew);
                ej["src"] = e.src && own_locs.count(e.src) ? json(e.src->uid.get_name()) : e.srcb && own_bps.count(e.srcb) ? json(e.srcb->uid.get_name()) : json(nullptr);
                ej["dst"] = e.dst && own_locs.count(e.dst) ? json(e.dst->uid.get_name()) : e.dstb && own_bps.count(e.dstb) ? json(e.dstb->uid.get_name()) : json(nullptr);
                ej["src_bp"] = e.srcb != nullptr; ej["dst_bp"] = e.dstb != nullptr;
                ej["select"] = frame_json(e.select);
                ej["guard"] = ex(e.guard); ej["sync"] = ex(e.sync); ej["assign"] = ex(e.assign); ej["prob"] = ex(e.prob);
                es.push_back(ej);
                ++nr;
            }
            tj["edges"] = es;
            if (!t.is_TA) {
                tj["lsc"] = json{{"instances", t.instances.size()}, {"messages", t.messages.size()}, {"updates", t.updates.size()},
                                 {"conditions", t.conditions.size()}, {"prechart", t.has_prechart}};
                for (auto& il : t.instances)
                    if (!(il.uid == symbol_t()) && il.uid.get_data() != &il) bad("instance line is not the user object of its symbol", tw);
            }
            ts.push_back(tj);
        }
        j["templates"] = ts;
        json ps = json::array();
        for (auto& p : doc.get_processes()) {
            json pj = instance_common(p, "process:" + p.uid.get_name());
            if (p.uid.get_data() != &p) bad("process is not the user object of its symbol", "process:" + p.uid.get_name());
            ps.push_back(pj);
        }
        j["processes"] = ps;
        // instances (partial/full instantiations) are reachable through the global frame's INSTANCE symbols
        json is = json::array();
        {
            auto& gf = doc.get_globals().frame;
            for (uint32_t k = 0; k < gf.get_size(); ++k) {
                symbol_t s = gf[k];
                auto kind = s.get_type().unknown() ? Constants::UNKNOWN : s.get_type().get_kind();
                if (kind == Constants::INSTANCE || kind == Constants::LSC_INSTANCE) {
                    auto* inst = static_cast<instance_t*>(s.get_data());
                    if (!inst) { bad("instance symbol without user object", "instance:" + s.get_name()); continue; }
                    if (!(inst->uid == s)) bad("instance is not the user object of its symbol", "instance:" + s.get_name());
                    else if (static_cast<instance_t*>(inst->templ) != inst) is.push_back(instance_common(*inst, "instance:" + s.get_name()));
                }
            }
        }
        j["instances"] = is;
        json cps = json::array();
        for (auto& c : doc.get_chan_priorities()) {  // not c.str(): it dereferences the empty 'default' entry
            json t = json::array();
            for (auto& e : c.tail) t.push_back(json{{"sep", std::string(1, e.first)}, {"chan", e.second.empty() ? json("default") : ex(e.second)}});
            cps.push_back(json{{"head", c.head.empty() ? json("default") : ex(c.head)}, {"tail", t}});
        }
        j["chan_priorities"] = cps;
        j["has_priorities"] = doc.has_priority_declaration();
        j["all_broadcast"] = doc.all_broadcast();
        j["dynamic_templates"] = doc.has_dynamic_templates();
        json qs = json::array();
        for (auto& q : doc.get_queries()) {
            json oj = json::array();
            for (auto& o : q.options) oj.push_back(json{{"name", o.name}, {"value", o.value}});
            json rj = json::array();
            for (auto& r : q.expectation.resources) rj.push_back(json{{"name", r.name}, {"value", r.value}, {"unit", r.unit ? json(*r.unit) : json(nullptr)}});
            qs.push_back(json{{"formula", q.formula}, {"comment", q.comment}, {"location", q.location}, {"options", oj},
                              {"expect", json{{"type", (int)q.expectation.value_type}, {"status", (int)q.expectation.status}, {"value", q.expectation.value}, {"resources", rj}}}});
        }
        j["queries"] = qs;
        json os = json::array();
        for (auto& o : doc.get_options()) os.push_back(json{{"name", o.name}, {"value", o.value}});
        j["options"] = os;
        j["before_update"] = ex(doc.get_before_update());
        j["after_update"] = ex(doc.get_after_update());
        j["c08"] = viol;
        return j;
    }
};

}  // namespace vh
