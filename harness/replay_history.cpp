// C15 (B2 for Tracker.tla): a history of parsing calls is executed in ONE process, and every call of it also alone in a
// freshly forked child (the reference "first call in a fresh process"). Both result records are reported; the check compares.
// job: {id, calls: [model_run job + optional "set_position": n (assigned to UTAP::tracker.position before the call)]}
#define VH_NO_MAIN
#include "model_run.cpp"
#include "libparser.h"

static json call_once(json call)
{
    if (call.contains("set_position")) UTAP::tracker.position = call["set_position"].get<uint32_t>();
    call["id"] = "c";
    json r;
    try { r = run_job(call); } catch (const std::exception& e) { r = json{{"outcome", "harness-error"}, {"what", e.what()}}; }
    return r;
}

static json fresh(const json& call)
{
    int fds[2];
    if (pipe(fds) != 0) return json{{"outcome", "harness-error"}};
    pid_t pid = fork();
    if (pid == 0) {
        close(fds[0]);
        json c = call;
        c.erase("set_position");    // a fresh process has parsed nothing before
        json r = call_once(c);
        std::string s = r.dump(-1, ' ', false, json::error_handler_t::replace);
        size_t off = 0;
        while (off < s.size()) { ssize_t n = write(fds[1], s.data() + off, s.size() - off); if (n <= 0) break; off += n; }
        _exit(0);
    }
    close(fds[1]);
    std::string s;
    char buf[65536];
    ssize_t n;
    while ((n = read(fds[0], buf, sizeof buf)) > 0) s.append(buf, n);
    close(fds[0]);
    int st = 0;
    waitpid(pid, &st, 0);
    if (!(WIFEXITED(st) && WEXITSTATUS(st) == 0)) return json{{"outcome", WIFSIGNALED(st) ? "signal" : "abnormal-exit"}, {"sig", WIFSIGNALED(st) ? WTERMSIG(st) : 0}};
    try { return json::parse(s); } catch (...) { return json{{"outcome", "harness-error"}, {"what", "unparsable child result"}}; }
}

static json run_history(const json& job)
{
    json out{{"id", job["id"]}};
    json ref = json::array(), hist = json::array();
    for (auto& c : job["calls"]) ref.push_back(fresh(c));      // before anything is parsed in this process
    for (auto& c : job["calls"]) hist.push_back(call_once(c));
    out["fresh"] = ref;
    out["history"] = hist;
    return out;
}

int main(int argc, char** argv) { return vh::jobloop_main(argc, argv, run_history); }
