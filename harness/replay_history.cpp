// C15 (B2 for Tracker.tla): a history of parsing calls is executed in ONE process, and every call of it also alone in a
// freshly forked child (the reference "first call in a fresh process"). Both result records are reported; the check compares.
// job: {id, calls: [model_run job + optional "set_position": n (assigned to UTAP::tracker.position before the call)]}
#define VH_NO_MAIN
#include "model_run.cpp"
#include "libparser.h"

// A document that lives across calls: a call {"keep_doc": true, entry xml_buffer / xta, text} parses its model into `kept` (and stays there);
// a call {"late_queries": [...], "query_builder": ...} parses queries against the kept document - what a client does that loads a model, parses other
// things in between and then asks queries about the first model.
static std::unique_ptr<Document> kept;

static json keep_call(const json& call)
{
    json r;
    kept = std::make_unique<Document>();
    try {
        const std::string text = call["text"];
        int ret = call.value("entry", "xml_buffer") == "xta" ? (parse_XTA(text.c_str(), kept.get(), call.value("newxta", true)) ? 1 : 0)
                                                            : parse_XML_buffer(text.c_str(), kept.get(), call.value("newxta", true));
        r["main"] = json{{"outcome", "return"}, {"ret", ret}};
    } catch (const std::exception& e) { r["main"] = json{{"outcome", "throw"}, {"exc", demangle(typeid(e).name())}, {"what", e.what()}}; }
    json errs = json::array();
    for (auto& e : kept->get_errors()) errs.push_back(vh::err_json(e));
    r["kept_errors"] = errs;
    return r;
}

static json late_call(const json& call)
{
    json r;
    if (!kept) kept = std::make_unique<Document>();
    json arr = json::array();
    for (auto& qj : call["late_queries"]) {
        kept->clear_errors();
        json q;
        try {
            std::unique_ptr<PropertyBuilder> pb;
            if (call.value("query_builder", "tiga") == "tiga") pb = std::make_unique<TigaPropertyBuilder>(*kept); else pb = std::make_unique<PropertyBuilder>(*kept);
            q["ret"] = parseProperty(qj.get<std::string>().c_str(), pb.get());
            json props = json::array();
            for (auto& p : pb->getProperties()) props.push_back(json{{"type", (int)p.type}, {"s", vh::safe_str(p.intermediate)}});
            q["props"] = props;
            q["outcome"] = "return";
        } catch (const std::exception& e) { q["outcome"] = "throw"; q["exc"] = demangle(typeid(e).name()); q["what"] = e.what(); }
        json errs = json::array();
        for (auto& e : kept->get_errors()) errs.push_back(vh::err_json(e));
        q["errors"] = errs;
        arr.push_back(q);
    }
    r["main"] = json{{"outcome", "return"}, {"ret", 0}};
    r["queries"] = arr;
    return r;
}

static json call_once(json call)
{
    if (call.contains("set_position")) UTAP::tracker.position = call["set_position"].get<uint32_t>();
    if (call.value("keep_doc", false)) return keep_call(call);
    if (call.contains("late_queries")) return late_call(call);
    call["id"] = "c";
    json r;
    try { r = run_job(call); } catch (const std::exception& e) { r = json{{"outcome", "harness-error"}, {"what", e.what()}}; }
    return r;
}

static json fresh(const json& call)
{
    int fds[2];
    if (pipe(fds) != 0) return json{{"outcome", "harness-error"}};
    pid_t pid = fork();
    if (pid == 0) {
        close(fds[0]);
        json c = call;
        c.erase("set_position");    // a fresh process has parsed nothing before
        if (c.contains("late_queries") && c.contains("kept_model")) { json k = c["kept_model"]; k.erase("set_position"); kept.reset(); keep_call(k); }   // ... but the model the queries are about
        json r = call_once(c);
        std::string s = r.dump(-1, ' ', false, json::error_handler_t::replace);
        size_t off = 0;
        while (off < s.size()) { ssize_t n = write(fds[1], s.data() + off, s.size() - off); if (n <= 0) break; off += n; }
        _exit(0);
    }
    close(fds[1]);
    std::string s;
    char buf[65536];
    ssize_t n;
    while ((n = read(fds[0], buf, sizeof buf)) > 0) s.append(buf, n);
    close(fds[0]);
    int st = 0;
    waitpid(pid, &st, 0);
    if (!(WIFEXITED(st) && WEXITSTATUS(st) == 0)) return json{{"outcome", WIFSIGNALED(st) ? "signal" : "abnormal-exit"}, {"sig", WIFSIGNALED(st) ? WTERMSIG(st) : 0}};
    try { return json::parse(s); } catch (...) { return json{{"outcome", "harness-error"}, {"what", "unparsable child result"}}; }
}

static json run_history(const json& job)
{
    json out{{"id", job["id"]}};
    json ref = json::array(), hist = json::array();
    for (auto& c : job["calls"]) ref.push_back(fresh(c));      // before anything is parsed in this process
    for (auto& c : job["calls"]) hist.push_back(call_once(c));
    out["fresh"] = ref;
    out["history"] = hist;
    return out;
}

int main(int argc, char** argv) { return vh::jobloop_main(argc, argv, run_history); }
