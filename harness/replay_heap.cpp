// C19. Two modes.
//  behaviours: {id, cases: [{heap0: [node], ops: [..], trees: [..], share: [[..]]}]} - operation sequences explored by TLC on
//      ExprHeap.tla are executed on real expression_t objects built through the public factory functions; the tree under every
//      handle and the node-sharing relation between handles (node identity = expression_t::operator==) must equal the spec's.
//  laws: {id, laws: true, entry/text/queries as model_run} - every expression of a parsed document (labels, initialisers,
//      function bodies, instantiation arguments, queries) is put through the algebraic laws of the statement.
#define VH_NO_MAIN
#include "model_run.cpp"

static json tree_of(const expression_t& e)
{
    if (e.empty()) return nullptr;
    auto k = e.get_kind();
    json j{{"k", vh::kind_name(k)}, {"v", 0}, {"s", ""}};
    if (k == Constants::CONSTANT) j["v"] = e.get_value();
    else if (k == Constants::IDENTIFIER) j["s"] = e.get_symbol().get_name();
    else if (k == Constants::DOT) j["v"] = e.get_index();
    else if (k == Constants::SYNC) j["v"] = e.get_sync() == Constants::SYNC_BANG ? 1 : 0;
    else if (k == Constants::LIST) j["v"] = 2;
    json c = json::array();
    for (size_t i = 0; i < e.get_size(); ++i) c.push_back(tree_of(e.get(i)));
    j["c"] = c;
    return j;
}
static void nodes_of(const expression_t& e, std::vector<expression_t>& out)
{
    if (e.empty()) return;
    out.push_back(e);
    for (size_t i = 0; i < e.get_size(); ++i) nodes_of(e.get(i), out);
}
static bool share(const expression_t& a, const expression_t& b)
{
    std::vector<expression_t> na, nb;
    nodes_of(a, na); nodes_of(b, nb);
    for (auto& x : na) for (auto& y : nb) if (x == y) return true;
    return false;
}

static json run_behaviours(const json& job)
{
    json out{{"id", job["id"]}};
    json mism = json::array();
    size_t n = 0;
    frame_t frame = frame_t::create();
    std::map<std::string, symbol_t> syms;
    for (auto nm : {"i", "z"}) syms[nm] = frame.add_symbol(nm, type_t::create_primitive(Constants::INT), position_t());
    for (auto& cs : job["cases"]) {
        ++n;
        // build the initial heap bottom-up so that a node used twice is ONE node
        const json& h0 = cs["heap0"];
        std::vector<expression_t> built(h0.size());
        std::vector<bool> done(h0.size(), false);
        std::function<expression_t(size_t)> build = [&](size_t id) -> expression_t {
            if (done[id]) return built[id];
            const json& nd = h0[id];
            std::vector<expression_t> sub;
            for (auto& s : nd["sub"]) sub.push_back(build(s.get<size_t>() - 1));
            const std::string k = nd["k"];
            expression_t e;
            if (k == "IDENTIFIER") e = expression_t::create_identifier(syms[nd["s"].get<std::string>()]);
            else if (k == "CONSTANT") e = expression_t::create_constant(nd["v"].get<int>());
            else if (k == "PLUS") e = expression_t::create_binary(Constants::PLUS, sub[0], sub[1]);
            else if (k == "LT") e = expression_t::create_binary(Constants::LT, sub[0], sub[1]);
            else if (k == "FORALL") e = expression_t::create_binary(Constants::FORALL, sub[0], sub[1]);
            else if (k == "DOT") e = expression_t::create_dot(sub[0], nd["v"].get<int>());
            else if (k == "SYNC") e = expression_t::create_sync(sub[0], nd["v"].get<int>() == 1 ? Constants::SYNC_BANG : Constants::SYNC_QUE);
            else if (k == "LIST") e = expression_t::create_nary(Constants::LIST, sub);
            else throw std::invalid_argument("kind " + k);
            built[id] = e; done[id] = true;
            return e;
        };
        std::vector<expression_t> hs{build(0)};
        size_t step = 0;
        bool lawbroken = false;
        for (auto& op : cs["ops"]) {
            const std::string o = op["op"];
            size_t h = op["h"].get<size_t>() - 1;
            if (o == "clone") hs.push_back(hs[h].clone());
            else if (o == "clone_deeper") hs.push_back(hs[h].clone_deeper());
            else if (o == "subst") hs.push_back(hs[h].subst(syms[op["s"].get<std::string>()], hs[op["x"].get<size_t>() - 1]));
            else if (o == "set_child") hs[h][op["i"].get<uint32_t>() - 1] = hs[op["x"].get<size_t>() - 1];
            else if (o == "child") { const expression_t& ch = hs[h]; hs.push_back(ch[op["i"].get<uint32_t>() - 1]); }       // const accessor: a handle copy
            // the statement's laws in EVERY intermediate state: equal() is structural equality of the two trees, both ways;
            // a deep clone is equal to its original (both ways) and has the same tree
            ++step;
            std::vector<json> tr;
            for (auto& x : hs) tr.push_back(tree_of(x));
            std::string law;
            for (size_t a = 0; a < hs.size() && law.empty(); ++a) {
                for (size_t b = 0; b < hs.size() && law.empty(); ++b)
                    if (hs[a].equal(hs[b]) != (tr[a] == tr[b]))
                        law = "equal(handle " + std::to_string(a + 1) + ", handle " + std::to_string(b + 1) + ") = " + (hs[a].equal(hs[b]) ? "true" : "false") + " but the trees are " + (tr[a] == tr[b] ? "the same" : "different");
                if (!law.empty()) break;
                expression_t d = hs[a].clone_deeper();
                if (!d.equal(hs[a]) || !hs[a].equal(d)) law = "a deep clone of handle " + std::to_string(a + 1) + " is not equal to its original";
                else if (tree_of(d) != tr[a]) law = "a deep clone of handle " + std::to_string(a + 1) + " has a different tree";
            }
            if (!law.empty()) {
                if (mism.size() < 10) mism.push_back(json{{"ops", cs["ops"]}, {"heap0", cs["heap0"]}, {"law", law}, {"step", step}});
                lawbroken = true;
                break;
            }
        }
        if (lawbroken) continue;
        json trees = json::array(), sh = json::array();
        for (auto& x : hs) trees.push_back(tree_of(x));
        for (auto& x : hs) { json row = json::array(); for (auto& y : hs) row.push_back(share(x, y)); sh.push_back(row); }
        json eq = json::array();
        for (auto& x : hs) { json row = json::array(); for (auto& y : hs) row.push_back(x.equal(y)); eq.push_back(row); }
        if (cs.contains("eq") && eq != cs["eq"] && mism.size() < 10)
            mism.push_back(json{{"ops", cs["ops"]}, {"heap0", cs["heap0"]}, {"law", "equal() matrix differs from the spec's tree equality"}, {"expected_eq", cs["eq"]}, {"eq", eq}});
        if ((trees != cs["trees"] || sh != cs["share"]) && mism.size() < 10)
            mism.push_back(json{{"ops", cs["ops"]}, {"heap0", cs["heap0"]}, {"expected_trees", cs["trees"]}, {"trees", trees}, {"expected_share", cs["share"]}, {"share", sh}});
    }
    out["n"] = n; out["mismatches"] = mism;
    return out;
}

// ------------------------------------------------------------------------------------------------ laws on parsed expressions
struct Collector : public DocumentVisitor
{
    std::vector<std::pair<std::string, expression_t>> exprs;
    void add(const std::string& w, const expression_t& e) { if (!e.empty()) exprs.emplace_back(w, e); }
    void visitVariable(variable_t& v) override { add("init:" + v.uid.get_name(), v.init); }
    void visitLocation(location_t& l) override { add("inv", l.invariant); add("rate", l.exp_rate); }
    void visitEdge(edge_t& e) override { add("guard", e.guard); add("sync", e.sync); add("assign", e.assign); add("prob", e.prob); }
    void visitInstance(instance_t& i) override { for (auto& [s, e] : i.mapping) add("arg", e); }
    void visitFunction(function_t& f) override
    {
        if (!f.body || vh::stmt_incomplete(f.body.get())) return;
        vh::StmtExprs se;
        try { f.body->accept(&se); } catch (...) {}
        for (auto& e : se.exprs) add("stmt", e);
    }
};

static void count_ident(const expression_t& e, const symbol_t& s, int& n)
{
    if (e.empty()) return;
    if (e.get_kind() == Constants::IDENTIFIER && e.get_symbol() == s) ++n;
    for (size_t i = 0; i < e.get_size(); ++i) count_ident(e.get(i), s, n);
}
static void count_const(const expression_t& e, int v, int& n)
{
    if (e.empty()) return;
    if (e.get_kind() == Constants::CONSTANT && e.get_type().is_integral() && e.get_value() == v) ++n;
    for (size_t i = 0; i < e.get_size(); ++i) count_const(e.get(i), v, n);
}
static void symbols_of(const expression_t& e, std::set<symbol_t>& out)
{
    if (e.empty()) return;
    if (e.get_kind() == Constants::IDENTIFIER) out.insert(e.get_symbol());
    for (size_t i = 0; i < e.get_size(); ++i) symbols_of(e.get(i), out);
}
static std::string dump_full(const expression_t& e) { return vh::expr_tree(e, nullptr, true).dump(); }

// all single-node perturbations of a deep clone of e; each returns a NEW tree that differs from e in exactly one respect
static void perturbations(const expression_t& e, std::vector<std::pair<std::string, expression_t>>& out, const std::vector<symbol_t>& other_syms)
{
    std::vector<std::vector<uint32_t>> paths;
    std::function<void(const expression_t&, std::vector<uint32_t>)> walk = [&](const expression_t& x, std::vector<uint32_t> p) {
        paths.push_back(p);
        for (uint32_t i = 0; i < x.get_size(); ++i) { auto q = p; q.push_back(i); if (!x.get(i).empty()) walk(x.get(i), q); }
    };
    walk(e, {});
    auto replace_at = [&](const std::vector<uint32_t>& p, std::function<expression_t(const expression_t&)> f) -> expression_t {
        expression_t root = e.clone_deeper();
        if (p.empty()) return f(root);
        expression_t cur = root;
        for (size_t k = 0; k + 1 < p.size(); ++k) cur = cur.get(p[k]);
        cur[p.back()] = f(cur.get(p.back()));
        return root;
    };
    for (auto& p : paths) {
        expression_t at = e;
        for (auto i : p) at = at.get(i);
        auto k = at.get_kind();
        std::string where = "@";
        for (auto i : p) where += std::to_string(i) + ".";
        if (k == Constants::CONSTANT && at.get_type().is_integral())
            out.emplace_back("constant" + where, replace_at(p, [](const expression_t& x) { return expression_t::create_constant(x.get_value() + 1, x.get_position()); }));
        if (k == Constants::CONSTANT && at.get_type().is(Constants::DOUBLE))
            out.emplace_back("double" + where, replace_at(p, [](const expression_t& x) { double v = x.get_double_value(); return expression_t::create_double(v == 0 ? 1.0 : -v, x.get_position()); }));
        if (k == Constants::IDENTIFIER)
            for (auto& s : other_syms)
                if (s != at.get_symbol()) { out.emplace_back("symbol" + where, replace_at(p, [&](const expression_t& x) { return expression_t::create_identifier(s, x.get_position()); })); break; }
        if (k == Constants::DOT)
            out.emplace_back("dot-index" + where, replace_at(p, [](const expression_t& x) { return expression_t::create_dot(x.get(0), x.get_index() + 1, x.get_position(), x.get_type()); }));
        if (k == Constants::SYNC)
            out.emplace_back("sync-direction" + where, replace_at(p, [](const expression_t& x) {
                return expression_t::create_sync(x.get(0), x.get_sync() == Constants::SYNC_BANG ? Constants::SYNC_QUE : Constants::SYNC_BANG, x.get_position()); }));
        if (at.get_size() == 2 && !at.get(0).equal(at.get(1)) && k != Constants::DOT)
            out.emplace_back("operand-order" + where, replace_at(p, [](const expression_t& x) { expression_t y = x.clone(); expression_t t = y[0]; y[0] = y[1]; y[1] = t; return y; }));
        if (k == Constants::PLUS || k == Constants::MINUS || k == Constants::LT || k == Constants::LE || k == Constants::AND || k == Constants::OR || k == Constants::EQ)
            out.emplace_back("kind" + where, replace_at(p, [](const expression_t& x) {
                auto nk = x.get_kind() == Constants::PLUS ? Constants::MINUS : x.get_kind() == Constants::MINUS ? Constants::PLUS : x.get_kind() == Constants::LT ? Constants::LE
                        : x.get_kind() == Constants::LE ? Constants::LT : x.get_kind() == Constants::AND ? Constants::OR : x.get_kind() == Constants::OR ? Constants::AND : Constants::NEQ;
                return expression_t::create_binary(nk, x.get(0), x.get(1), x.get_position(), x.get_type()); }));
        if (at.get_size() >= 3 && (k == Constants::LIST || k == Constants::FUN_CALL || k == Constants::SIMULATE || k == Constants::SIMULATEREACH))
            out.emplace_back("drop-child" + where, replace_at(p, [](const expression_t& x) {
                std::vector<expression_t> sub; for (size_t i = 0; i + 1 < x.get_size(); ++i) sub.push_back(x.get(i));
                return expression_t::create_nary(x.get_kind(), sub, x.get_position(), x.get_type()); }));
    }
}

static json run_laws(const json& job)
{
    json out{{"id", job["id"]}};
    auto doc = std::make_unique<Document>();
    const std::string text = job.value("text", "");
    json viol = json::array();
    auto bad = [&](const std::string& law, const std::string& where, const std::string& what) { if (viol.size() < 40) viol.push_back(json{{"law", law}, {"expr", where}, {"what", what}}); };
    try {
        if (job.value("entry", "xml_buffer") == "xml_buffer") parse_XML_buffer(text.c_str(), doc.get(), true);
        else parse_XTA(text.c_str(), doc.get(), true);
    } catch (const std::exception& e) { out["parse_threw"] = e.what(); }
    Collector col;
    doc->accept(col);
    if (job.contains("queries")) {
        TigaPropertyBuilder pb{*doc};
        for (auto& q : job["queries"]) {
            doc->clear_errors();
            try { parseProperty(q.get<std::string>().c_str(), &pb); } catch (const std::exception&) {}
        }
        for (auto& p : pb.getProperties()) col.add("query", p.intermediate);
    }
    std::set<symbol_t> allsyms;
    for (auto& [w, e] : col.exprs) symbols_of(e, allsyms);
    std::vector<symbol_t> symv(allsyms.begin(), allsyms.end());
    std::map<std::string, int> kinds;
    size_t nexpr = 0, npert = 0, nsubst = 0, npairs = 0;
    for (auto& [w, e] : col.exprs) {
        ++nexpr;
        std::string s0, d0;
        try { s0 = e.str(); } catch (const std::exception& ex) { continue; }   // printing is C03's subject
        d0 = dump_full(e);
        std::vector<expression_t> ns; nodes_of(e, ns);
        for (auto& x : ns) {
            kinds[vh::kind_name(x.get_kind())]++;
            size_t acc = 0;
            for (size_t i = 0; i < x.get_size(); ++i) { (void)x.get(i); ++acc; }
            if (acc != x.get_size()) bad("arity", w + ": " + s0, "get_size() differs from the number of accessible children");
        }
        // deep clone: equal, no shared node, independent of later changes
        expression_t d = e.clone_deeper();
        if (!d.equal(e) || !e.equal(d)) bad("clone-equal", w + ": " + s0, "a deep clone is not equal to its original");
        if (share(d, e)) bad("clone-fresh", w + ": " + s0, "a deep clone shares a node with its original");
        if (d.str() != s0 || dump_full(d) != d0) bad("clone-equal", w + ": " + s0, "a deep clone prints or dumps differently: " + d.str());
        if (d.get_size() > 0) {
            expression_t d2 = e.clone_deeper();
            d2[0] = expression_t::create_constant(12345);
            d2.set_type(type_t::create_primitive(Constants::VOID_TYPE));
            if (dump_full(e) != d0) bad("clone-independent", w + ": " + s0, "changing a deep clone changed the original");
            if (dump_full(d) != d0) bad("clone-independent", w + ": " + s0, "changing one deep clone changed another");
            std::vector<expression_t> n2; nodes_of(d2, n2);
            if (n2.size() > 2) { expression_t inner = n2[n2.size() - 1]; (void)inner; }
        }
        // equality: reflexive, symmetric, transitive over clones, implies equal text
        if (!e.equal(e)) bad("equal-reflexive", w + ": " + s0, "e.equal(e) is false");
        expression_t c1 = e.clone(), c2 = c1.clone_deeper();
        if (!(e.equal(c1) && c1.equal(c2) && e.equal(c2) && c2.equal(e))) bad("equal-transitive", w + ": " + s0, "equality is not transitive/symmetric over clones");
        // substitution
        std::set<symbol_t> syms; symbols_of(e, syms);
        for (auto& s : syms) {
            ++nsubst;
            int occ = 0; count_ident(e, s, occ);
            expression_t self = e.subst(s, expression_t::create_identifier(s));
            if (!self.equal(e) || self.str() != s0) bad("subst-identity", w + ": " + s0, "substituting " + s.get_name() + " by itself gives " + self.str());
            int before = 0; count_const(e, 77777, before);
            expression_t r = e.subst(s, expression_t::create_constant(77777));
            int left = 0, after = 0; count_ident(r, s, left); count_const(r, 77777, after);
            if (left != 0 || after != before + occ)
                bad("subst-exact", w + ": " + s0, "substituting " + s.get_name() + ": " + std::to_string(left) + " of " + std::to_string(occ) + " occurrence(s) survive, " + std::to_string(after - before) + " replaced");
            if (dump_full(e) != d0) bad("subst-receiver", w + ": " + s0, "subst changed its receiver");
            std::vector<expression_t> nr, ne; nodes_of(r, nr); nodes_of(e, ne);
            if (nr.size() != ne.size()) bad("subst-exact", w + ": " + s0, "substitution by a leaf changed the number of nodes");
        }
        // perturbations must be told apart
        std::vector<std::pair<std::string, expression_t>> ps;
        try { perturbations(e, ps, symv); } catch (const std::exception& ex) { bad("perturbation-threw", w + ": " + s0, ex.what()); }
        for (auto& [pw, p] : ps) {
            ++npert;
            if (p.equal(e) || e.equal(p)) bad("equal-distinguishes:" + pw.substr(0, pw.find('@')), w + ": " + s0, "a tree perturbed in " + pw + " is reported equal");
        }
    }
    // equal implies equal text, over all pairs of the document's expressions
    for (size_t a = 0; a < col.exprs.size(); ++a)
        for (size_t b = a + 1; b < col.exprs.size() && b < a + 400; ++b) {
            ++npairs;
            auto& x = col.exprs[a].second; auto& y = col.exprs[b].second;
            if (x.equal(y) != y.equal(x)) bad("equal-symmetric", col.exprs[a].first, "equal is not symmetric");
            if (x.equal(y)) {
                std::string sx, sy;
                try { sx = x.str(); sy = y.str(); } catch (...) { continue; }
                if (sx != sy) bad("equal-implies-text", col.exprs[a].first + " / " + col.exprs[b].first, "equal but printed `" + sx + "` vs `" + sy + "`");
            }
        }
    out["violations"] = viol; out["expressions"] = nexpr; out["perturbations"] = npert; out["substitutions"] = nsubst; out["pairs"] = npairs; out["kinds"] = kinds;
    return out;
}

static json run_heap_job(const json& job) { return job.value("laws", false) ? run_laws(job) : run_behaviours(job); }
int main(int argc, char** argv) { return vh::jobloop_main(argc, argv, run_heap_job); }
