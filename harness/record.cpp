// Recorder (B3): parses an input with a traced DocumentBuilder and reports one event per ParserBuilder callback, taken
// after the callback returned or threw (the linearization point of a sequential library), with the callback's arguments
// and the projected builder state (stack depths, current-object flags, error count). At the end the raw structural facts
// of the Document (the relations DocInv of Builder.tla talks about) are reported, for returns and for exceptions alike.
// job: {id, entry: xml_buffer|xml_file|xta|part, text|file, newxta, part, analysis: bool, positions: bool}
#include "TraceBuilder.hpp"
#include "dump.hpp"
#include "jobloop.hpp"
#include "proj.hpp"

#include "utap/DocumentBuilder.hpp"
#include "utap/featurechecker.h"
#include "utap/typechecker.h"
#include "utap/utap.h"

using nlohmann::json;
using namespace UTAP;

struct ProbedBuilder : public vh::PB
{
    using vh::PB::PB;
    void state(json& ev)
    {
        ev["f"] = fragments.size();
        ev["t"] = typeFragments.size();
        ev["fr"] = frames.size();
        ev["p"] = params.get_size();
        ev["b"] = blocks.size();
        ev["fl"] = fields.size();
        ev["T"] = currentTemplate != nullptr;
        ev["E"] = currentEdge != nullptr;
        ev["F"] = currentFun != nullptr;
        ev["e"] = document.get_errors().size();
        ev["w"] = document.get_warnings().size();
        if (currentTemplate) { ev["nl"] = currentTemplate->locations.size(); ev["ne"] = currentTemplate->edges.size(); ev["nb"] = currentTemplate->branchpoints.size(); }
    }
};

static xta_part_t part_of(const std::string& s)
{
    static const std::map<std::string, xta_part_t> m = {
        {"S_XTA", S_XTA}, {"S_DECLARATION", S_DECLARATION}, {"S_LOCAL_DECL", S_LOCAL_DECL}, {"S_INST", S_INST},
        {"S_SYSTEM", S_SYSTEM}, {"S_PARAMETERS", S_PARAMETERS}, {"S_INVARIANT", S_INVARIANT},
        {"S_EXPONENTIAL_RATE", S_EXPONENTIAL_RATE}, {"S_SELECT", S_SELECT}, {"S_GUARD", S_GUARD}, {"S_SYNC", S_SYNC},
        {"S_ASSIGN", S_ASSIGN}, {"S_EXPRESSION", S_EXPRESSION}, {"S_EXPRESSION_LIST", S_EXPRESSION_LIST},
        {"S_PROPERTY", S_PROPERTY}, {"S_XTA_PROCESS", S_XTA_PROCESS}, {"S_PROBABILITY", S_PROBABILITY},
        {"S_MESSAGE", S_MESSAGE}, {"S_UPDATE", S_UPDATE}, {"S_CONDITION", S_CONDITION}};
    auto it = m.find(s);
    if (it == m.end()) throw std::invalid_argument("bad part " + s);
    return it->second;
}

// raw structural facts: what is in the document, not whether it is right (Builder.tla's DocInv decides that)
static json instance_facts(instance_t& i)
{
    json j{{"name", i.uid.get_name()}, {"np", i.parameters.get_size()}, {"unbound", i.unbound}, {"nmap", i.mapping.size()},
           {"self", i.uid.get_data() == &i}, {"templ", i.templ ? json(i.templ->uid.get_name()) : json("")}};
    json mapped = json::array();
    for (uint32_t k = 0; k < i.parameters.get_size(); ++k) mapped.push_back(i.mapping.find(i.parameters[k]) != i.mapping.end());
    j["mapped"] = mapped;
    type_t t = i.uid.get_type();
    j["arity"] = (!t.unknown() && (t.get_kind() == Constants::INSTANCE || t.get_kind() == Constants::LSC_INSTANCE)) ? (int)t.size() : -1;
    return j;
}

static json facts(Document& doc)
{
    json j;
    json gv = json::array();
    for (auto& v : doc.get_globals().variables) gv.push_back(json{{"name", v.uid.get_name()}, {"self", v.uid.get_data() == &v}});
    for (auto& f : doc.get_globals().functions) gv.push_back(json{{"name", f.uid.get_name()}, {"self", f.uid.get_data() == &f}});
    j["gobjs"] = gv;
    json ts = json::array();
    int ti = 0;
    std::map<const location_t*, int> loc_owner; std::map<const branchpoint_t*, int> bp_owner;
    for (auto& t : doc.get_templates()) { ++ti; for (auto& l : t.locations) loc_owner[&l] = ti; for (auto& b : t.branchpoints) bp_owner[&b] = ti; }
    ti = 0;
    for (auto& t : doc.get_templates()) {
        ++ti;
        json tj = instance_facts(t);
        tj["self"] = (t.uid.get_data() == static_cast<instance_t*>(&t));
        tj["ta"] = t.is_TA;
        json locs = json::array(), bps = json::array(), es = json::array(), objs = json::array();
        for (auto& l : t.locations) locs.push_back(json{{"name", l.uid.get_name()}, {"nr", l.nr}, {"self", l.uid.get_data() == &l}});
        for (auto& b : t.branchpoints) bps.push_back(json{{"name", b.uid.get_name()}, {"nr", b.bpNr}, {"self", b.uid.get_data() == &b}});
        for (auto& v : t.variables) objs.push_back(json{{"name", v.uid.get_name()}, {"self", v.uid.get_data() == &v}});
        for (auto& f : t.functions) objs.push_back(json{{"name", f.uid.get_name()}, {"self", f.uid.get_data() == &f}});
        for (auto& e : t.edges) {
            auto owner = [&](const location_t* l, const branchpoint_t* b) { return l ? (loc_owner.count(l) ? loc_owner[l] : -1) : b ? (bp_owner.count(b) ? bp_owner[b] : -1) : 0; };
            es.push_back(json{{"nr", e.nr}, {"nsrc", (e.src ? 1 : 0) + (e.srcb ? 1 : 0)}, {"ndst", (e.dst ? 1 : 0) + (e.dstb ? 1 : 0)},
                              {"srct", owner(e.src, e.srcb)}, {"dstt", owner(e.dst, e.dstb)},
                              {"src", e.src ? e.src->uid.get_name() : e.srcb ? e.srcb->uid.get_name() : ""},
                              {"dst", e.dst ? e.dst->uid.get_name() : e.dstb ? e.dstb->uid.get_name() : ""}, {"nsel", e.select.get_size()}});
        }
        int init = 0;  // 0: none, k>0: k-th own location, -1: something else
        if (!(t.init == symbol_t())) {
            init = -1;
            int k = 0;
            for (auto& l : t.locations) { ++k; if (static_cast<const void*>(&l) == t.init.get_data()) init = k; }
        }
        tj["locs"] = locs; tj["bps"] = bps; tj["edges"] = es; tj["objs"] = objs; tj["init"] = init;
        ts.push_back(tj);
    }
    j["templs"] = ts;
    json is = json::array();
    auto& gf = doc.get_globals().frame;
    for (uint32_t k = 0; k < gf.get_size(); ++k) {
        symbol_t s = gf[k];
        auto kind = s.get_type().unknown() ? Constants::UNKNOWN : s.get_type().get_kind();
        if (kind == Constants::INSTANCE || kind == Constants::LSC_INSTANCE) {
            auto* inst = static_cast<instance_t*>(s.get_data());
            if (inst && static_cast<instance_t*>(inst->templ) != inst) { json ij = instance_facts(*inst); ij["self"] = (inst->uid == s); is.push_back(ij); }
        }
    }
    j["insts"] = is;
    json ps = json::array();
    for (auto& p : doc.get_processes()) ps.push_back(instance_facts(p));
    j["procs"] = ps;
    j["nerr"] = doc.get_errors().size();
    return j;
}

static json run_job(const json& job)
{
    json out{{"id", job["id"]}};
    auto doc = std::make_unique<Document>();
    vh::TraceSink sink;
    vh::Traced<ProbedBuilder> b{*doc};
    b.sink = &sink;
    b.log_positions = job.value("positions", false);
    b.probe = [&b](json& ev) { b.state(ev); };
    const std::string entry = job.value("entry", "xml_buffer");
    const bool newxta = job.value("newxta", true);
    const std::string text = job.value("text", "");
    try {
        int ret = 0;
        if (entry == "xml_buffer") ret = parse_XML_buffer(text.c_str(), &b, newxta);
        else if (entry == "xml_file") ret = parse_XML_file(job["file"].get<std::string>().c_str(), &b, newxta);
        else if (entry == "xta") ret = parse_XTA(text.c_str(), &b, newxta);
        else if (entry == "part") ret = parse_XTA(text.c_str(), &b, newxta, part_of(job["part"]), "");
        else throw std::invalid_argument("bad entry");
        out["ret"] = ret;
        out["outcome"] = "return";
        if (job.value("analysis", true) && !doc->has_errors()) {
            TypeChecker tc{*doc};
            doc->accept(tc);
            FeatureChecker fc{*doc};
            doc->set_supported_methods(fc.get_supported_methods());
        }
    } catch (const std::exception& e) {
        out["outcome"] = "throw"; out["exc"] = vh::exc_name(e); out["what"] = e.what();
    }
    json st;
    b.state(st);
    out["final"] = st;
    out["events"] = sink.events;
    try { out["facts"] = facts(*doc); out["proj"] = vh::project(*doc, b); } catch (const std::exception& e) { out["facts_error"] = e.what(); }
    if (job.value("walk", true)) {
        vh::Dumper d{*doc};
        try { d.dump(true); out["c08"] = d.viol; } catch (const std::exception& e) { out["walk_error"] = e.what(); }
    }
    return out;
}

int main(int argc, char** argv) { return vh::jobloop_main(argc, argv, run_job); }
