// Projection of a real Document + DocumentBuilder onto the state of Builder.tla (Builder!Proj): shared by the replayer
// (spec behaviours -> code) and the recorder (code traces -> spec).
#pragma once
#include "utap/DocumentBuilder.hpp"
#include "utap/utap.h"
#include <nlohmann/json.hpp>

namespace vh {
using nlohmann::json;
using namespace UTAP;

struct PB : public DocumentBuilder
{
    using DocumentBuilder::DocumentBuilder;
    size_t nfrag() { return fragments.size(); }
    size_t nframes() { return frames.size(); }
    bool curT() { return currentTemplate != nullptr; }
    bool curE() { return currentEdge != nullptr; }
};

inline json inst_proj(instance_t& i)
{
    json mapped = json::array();
    for (uint32_t k = 0; k < i.parameters.get_size(); ++k) mapped.push_back(i.mapping.find(i.parameters[k]) != i.mapping.end());
    type_t t = i.uid.get_type();
    int arity = (!t.unknown() && (t.get_kind() == Constants::INSTANCE || t.get_kind() == Constants::LSC_INSTANCE)) ? (int)t.size() : -1;
    return json{{"name", i.uid.get_name()}, {"np", i.parameters.get_size()}, {"unbound", i.unbound}, {"arity", arity}, {"mapped", mapped}};
}

inline json project(Document& doc, PB& b)
{
    json ts = json::array();
    std::map<const void*, int> owner;
    int ti = 0;
    for (auto& t : doc.get_templates()) { ++ti; for (auto& l : t.locations) owner[&l] = ti; for (auto& x : t.branchpoints) owner[&x] = ti; }
    for (auto& t : doc.get_templates()) {
        json locs = json::array(), bps = json::array(), es = json::array();
        for (auto& l : t.locations) locs.push_back(json{{"name", l.uid.get_name()}, {"nr", l.nr}});
        for (auto& x : t.branchpoints) bps.push_back(json{{"name", x.uid.get_name()}, {"nr", x.bpNr}});
        for (auto& e : t.edges) {
            const void* s = e.src ? (const void*)e.src : (const void*)e.srcb;
            const void* d = e.dst ? (const void*)e.dst : (const void*)e.dstb;
            es.push_back(json{{"nr", e.nr}, {"src", e.src ? e.src->uid.get_name() : e.srcb ? e.srcb->uid.get_name() : ""},
                              {"dst", e.dst ? e.dst->uid.get_name() : e.dstb ? e.dstb->uid.get_name() : ""},
                              {"srct", owner.count(s) ? owner[s] : -1}, {"dstt", owner.count(d) ? owner[d] : -1},
                              {"srcbp", e.srcb != nullptr && e.src == nullptr}, {"dstbp", e.dstb != nullptr && e.dst == nullptr}});
        }
        int init = 0;
        if (!(t.init == symbol_t())) { init = -1; int k = 0; for (auto& l : t.locations) { ++k; if (static_cast<const void*>(&l) == t.init.get_data()) init = k; } }
        ts.push_back(json{{"name", t.uid.get_name()}, {"np", t.parameters.get_size()}, {"unbound", t.unbound}, {"locs", locs}, {"bps", bps}, {"init", init}, {"edges", es}});
    }
    json is = json::array(), ps = json::array();
    auto& gf = doc.get_globals().frame;
    for (uint32_t k = 0; k < gf.get_size(); ++k) {
        symbol_t s = gf[k];
        if (!s.get_type().unknown() && s.get_type().get_kind() == Constants::INSTANCE) {
            auto* inst = static_cast<instance_t*>(s.get_data());
            if (inst && static_cast<instance_t*>(inst->templ) != inst) is.push_back(inst_proj(*inst));
        }
    }
    for (auto& p : doc.get_processes()) { json pj = inst_proj(p); pj.erase("arity"); ps.push_back(pj); }
    return json{{"templs", ts}, {"insts", is}, {"procs", ps}, {"nerr", doc.get_errors().size()}, {"nframes", b.nframes()}, {"nfrag", b.nfrag()},
                {"curT", b.curT()}, {"curE", b.curE()}};
}


}  // namespace vh
