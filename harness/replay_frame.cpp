// C07 (symbol table). {id, cases: [{ops: [{op, f, g, n, u, o, h}]}]} - operation sequences explored by TLC on Frames.tla are executed
// on real frame_t objects (frame 1 = a root, 2 = a sub-frame of 1, 3 = a detached root); after every operation the observation
//   o = [[ [symbols of frame f], index_of("a"), index_of("b") ] for f = 1..3, resolve("a") from frame 2, resolve("b") from frame 2]
//   h = home frame of every symbol created so far
// must equal the spec's. Symbols are identified by creation order (1-based), identity = symbol_t::operator==.
#define VH_NO_MAIN
#include "model_run.cpp"

static json run_frames(const json& job)
{
    json out{{"id", job["id"]}, {"bad", json::array()}};
    size_t ncases = 0, nsteps = 0;
    for (auto& cs : job["cases"]) {
        ++ncases;
        frame_t fr[4];
        fr[1] = frame_t::create();
        fr[2] = frame_t::create(fr[1]);
        fr[3] = frame_t::create();
        std::vector<symbol_t> sy;
        auto uid = [&](const symbol_t& s) -> int {
            for (size_t i = 0; i < sy.size(); ++i) if (sy[i] == s) return (int)i + 1;
            return -1;
        };
        size_t step = 0;
        for (auto& op : cs["ops"]) {
            ++step; ++nsteps;
            std::string o = op["op"];
            int f = op["f"], g = op["g"], u = op["u"];
            if (o == "add_symbol") sy.push_back(fr[f].add_symbol(op["n"].get<std::string>(), type_t::create_primitive(Constants::INT), position_t()));
            else if (o == "add") fr[f].add(sy[u - 1]);
            else if (o == "add_frame") fr[f].add(fr[g]);
            else if (o == "move_to") fr[f].move_to(fr[g]);        // Frames.tla logs move_to as (f = source, g = target)
            else if (o == "remove") fr[f].remove(sy[u - 1]);
            else { out["bad"].push_back(json{{"case", ncases - 1}, {"what", "unknown op " + o}}); break; }
            json fo = json::array();
            for (int k = 1; k <= 3; ++k) {
                json ss = json::array();
                for (uint32_t i = 0; i < fr[k].get_size(); ++i) ss.push_back(uid(fr[k].get_symbol(i)));
                auto ia = fr[k].get_index_of(std::string("a")), ib = fr[k].get_index_of(std::string("b"));
                fo.push_back(json::array({ss, ia ? (int)*ia + 1 : 0, ib ? (int)*ib + 1 : 0}));
            }
            symbol_t ra, rb;
            bool ha = fr[2].resolve("a", ra), hb = fr[2].resolve("b", rb);
            json obs = json::array({fo, ha ? uid(ra) : 0, hb ? uid(rb) : 0});
            json homes = json::array();
            for (auto& s : sy) {
                frame_t hf = s.get_frame();
                homes.push_back(hf == fr[1] ? 1 : hf == fr[2] ? 2 : hf == fr[3] ? 3 : 0);
            }
            if (obs != op["o"] || homes != op["h"]) {
                if (out["bad"].size() < 20)
                    out["bad"].push_back(json{{"case", ncases - 1}, {"step", step}, {"ops", cs["ops"]}, {"spec", json{{"o", op["o"]}, {"h", op["h"]}}}, {"real", json{{"o", obs}, {"h", homes}}},
                                              {"what", obs != op["o"] ? "frames / index / resolution differ" : "home frames differ"}});
                break;
            }
        }
    }
    out["cases"] = ncases;
    out["steps"] = nsteps;
    return out;
}
int main(int argc, char** argv) { return vh::jobloop_main(argc, argv, run_frames); }
