// Generic job runner: one forked child per job (fresh process-global lexer/tracker state, crash isolation).
// usage: model_run jobs.ndjson out.ndjson
// job: {id, entry: xml_buffer|xml_file|xml_fd|xta|none, text, newxta, builder: document|pretty|tiga|property,
//       trees, structure, exprs:[{text,part}], queries:[text], write_xml: path, timeout}
#include "dump.hpp"
#include "jobloop.hpp"

#include "utap/DocumentBuilder.hpp"
#include "utap/ExpressionBuilder.hpp"
#include "utap/prettyprinter.h"
#include "utap/property.h"
#include "utap/typechecker.h"
#include "utap/featurechecker.h"

#include <cxxabi.h>
#include <fcntl.h>
#include <fstream>
#include <iostream>
#include <sys/resource.h>
#include <sys/wait.h>
#include <unistd.h>
#include <chrono>

using nlohmann::json;
using namespace UTAP;

static std::string demangle(const char* n)
{
    int st = 0;
    char* d = abi::__cxa_demangle(n, nullptr, nullptr, &st);
    std::string r = (st == 0 && d) ? d : n;
    free(d);
    return r;
}

static xta_part_t part_of(const std::string& s)
{
    static const std::map<std::string, xta_part_t> m = {
        {"S_XTA", S_XTA}, {"S_DECLARATION", S_DECLARATION}, {"S_LOCAL_DECL", S_LOCAL_DECL}, {"S_INST", S_INST},
        {"S_SYSTEM", S_SYSTEM}, {"S_PARAMETERS", S_PARAMETERS}, {"S_INVARIANT", S_INVARIANT},
        {"S_EXPONENTIAL_RATE", S_EXPONENTIAL_RATE}, {"S_SELECT", S_SELECT}, {"S_GUARD", S_GUARD}, {"S_SYNC", S_SYNC},
        {"S_ASSIGN", S_ASSIGN}, {"S_EXPRESSION", S_EXPRESSION}, {"S_EXPRESSION_LIST", S_EXPRESSION_LIST},
        {"S_PROPERTY", S_PROPERTY}, {"S_XTA_PROCESS", S_XTA_PROCESS}, {"S_PROBABILITY", S_PROBABILITY},
        {"S_MESSAGE", S_MESSAGE}, {"S_UPDATE", S_UPDATE}, {"S_CONDITION", S_CONDITION}, {"S_INSTANCE_LINE", S_INSTANCE_LINE}};
    auto it = m.find(s);
    if (it == m.end()) throw std::invalid_argument("bad part " + s);
    return it->second;
}

template <class F>
static json guarded(F&& f)
{
    json r;
    try {
        f(r);
        r["outcome"] = "return";
    } catch (const TypeException& e) {
        r["outcome"] = "throw"; r["exc"] = demangle(typeid(e).name()); r["what"] = e.what(); r["std"] = true;
    } catch (const std::exception& e) {
        r["outcome"] = "throw"; r["exc"] = demangle(typeid(e).name()); r["what"] = e.what(); r["std"] = true;
    } catch (...) {
        r["outcome"] = "throw"; r["exc"] = "non-std"; r["std"] = false;
    }
    return r;
}

static json run_job(const json& job)
{
    json out;
    out["id"] = job["id"];
    const std::string entry = job.value("entry", "xml_buffer");
    const std::string builder = job.value("builder", "document");
    const bool newxta = job.value("newxta", true);
    const std::string text = job.value("text", "");
    auto doc = std::make_unique<Document>();
    vh::Dumper dumper{*doc};
    dumper.trees = job.value("trees", false);
    std::ostringstream pretty_out;
    json main = guarded([&](json& r) {
        if (entry == "none") return;
        if (builder == "document" && !job.value("analysis", true)) {
            // the document builder alone: no type checker / feature checker afterwards
            DocumentBuilder db{*doc};
            if (entry == "xml_buffer") r["ret"] = parse_XML_buffer(text.c_str(), &db, newxta);
            else if (entry == "xml_file") r["ret"] = parse_XML_file(job["file"].get<std::string>().c_str(), &db, newxta);
            else if (entry == "xta") r["ret"] = (int)parse_XTA(text.c_str(), &db, newxta);
            else throw std::invalid_argument("bad entry");
        } else if (builder == "document" && entry == "part") {
            // one text block handed straight to the grammar, then static analysis as the document-level entry points do
            DocumentBuilder db{*doc};
            if (newxta && job.value("builtins", true)) parse_XTA(utap_builtin_declarations(), &db, newxta, S_DECLARATION, "");
            if (job.contains("scaffold")) parse_XTA(job["scaffold"].get<std::string>().c_str(), &db, newxta, S_DECLARATION, "");
            r["ret"] = parse_XTA(text.c_str(), &db, newxta, part_of(job["part"]), "");
            if (!doc->has_errors()) { TypeChecker tc{*doc}; doc->accept(tc); FeatureChecker fc{*doc}; doc->set_supported_methods(fc.get_supported_methods()); }
        } else if (builder == "document") {
            if (entry == "xml_buffer") r["ret"] = parse_XML_buffer(text.c_str(), doc.get(), newxta);
            else if (entry == "xml_file") r["ret"] = parse_XML_file(job["file"].get<std::string>().c_str(), doc.get(), newxta);
            else if (entry == "xml_fd") { int fd = open(job["file"].get<std::string>().c_str(), O_RDONLY); r["ret"] = parse_XML_fd(fd, doc.get(), newxta); close(fd); }
            else if (entry == "xta") r["ret"] = (int)parse_XTA(text.c_str(), doc.get(), newxta);
            else throw std::invalid_argument("bad entry");
        } else if (builder == "expression") {
            // a builder that supports expressions only: declarations make it throw NotSupportedException THROUGH utap_parse
            ExpressionBuilder eb{*doc};
            r["ret"] = parse_XTA(text.c_str(), &eb, newxta, part_of(job["part"]), "");
            r["nfrag"] = eb.getExpressions().size();
        } else if (builder == "pretty") {
            PrettyPrinter pp(pretty_out);
            if (entry == "xml_buffer") r["ret"] = parse_XML_buffer(text.c_str(), &pp, newxta);
            else if (entry == "xml_file") r["ret"] = parse_XML_file(job["file"].get<std::string>().c_str(), &pp, newxta);
            else if (entry == "xta") r["ret"] = parse_XTA(text.c_str(), &pp, newxta);
            else if (entry == "property") r["ret"] = parseProperty(text.c_str(), &pp);
            else if (entry == "part") r["ret"] = parse_XTA(text.c_str(), &pp, newxta, part_of(job["part"]), "");
            else throw std::invalid_argument("bad entry");
        } else throw std::invalid_argument("bad builder");
    });
    out["main"] = main;
    out["nerr_main"] = doc->get_errors().size();   // diagnostics of the main parse; later ones belong to exprs/queries
    if (!job.value("dump", true)) {                // without a dump: the distinct diagnostic keys at least (which error paths the input reached)
        std::set<std::string> keys;
        for (auto& e : doc->get_errors()) keys.insert(e.msg.substr(0, e.msg.find(' ')));
        for (auto& e : doc->get_warnings()) keys.insert(e.msg.substr(0, e.msg.find(' ')));
        out["msgs"] = keys;
    }
    if (builder == "pretty") out["pretty"] = pretty_out.str();
    // expression parses in the scope of the (global frame of the) document
    if (job.contains("exprs")) {
        json arr = json::array();
        for (auto& ej : job["exprs"]) {
            size_t nerr = doc->get_errors().size();
            json r = guarded([&](json& r) {
                ExpressionBuilder eb{*doc};
                r["ret"] = parse_XTA(ej["text"].get<std::string>().c_str(), &eb, newxta, part_of(ej.value("part", "S_EXPRESSION")), "");
                json trees = json::array();
                auto& frags = eb.getExpressions();
                r["nfrag"] = frags.size();
                for (size_t i = 0; i < frags.size(); ++i) {
                    expression_t e = frags[frags.size() - 1 - i];  // bottom first
                    if (ej.value("check", false) && nerr == doc->get_errors().size() && !e.empty()) {
                        TypeChecker tc{*doc};
                        tc.checkExpression(e);
                    }
                    trees.push_back(json{{"s", vh::safe_str(e)}, {"t", vh::expr_tree(e, doc.get(), ej.value("check", false))}});
                }
                r["trees"] = trees;
            });
            json errs = json::array();
            for (size_t i = nerr; i < doc->get_errors().size(); ++i) errs.push_back(vh::err_json(doc->get_errors()[i]));
            r["errors"] = errs;
            arr.push_back(r);
        }
        out["exprs"] = arr;
    }
    if (job.contains("queries")) {
        json arr = json::array();
        const std::string qb = job.value("query_builder", "property");
        // one_builder: every query of the list goes through ONE property builder (as a client that checks a whole query file does);
        // otherwise each query gets a fresh one
        const bool one_builder = job.value("one_builder", false);
        std::unique_ptr<PropertyBuilder> shared;
        auto make = [&]() -> std::unique_ptr<PropertyBuilder> {
            if (qb == "tiga") return std::make_unique<TigaPropertyBuilder>(*doc);
            return std::make_unique<PropertyBuilder>(*doc);
        };
        for (auto& qj : job["queries"]) {
            if (job.value("clear_errors", false)) doc->clear_errors();   // the client reports a query's diagnostics and goes on to the next query
            if (qj.is_object()) {                                        // {"clear": true}: PropertyBuilder::clear(), what parse(FILE*) does before it reads a query file
                if (shared) shared->clear();
                arr.push_back(json{{"outcome", "return"}, {"cleared", true}, {"errors", json::array()}});
                continue;
            }
            size_t nerr = doc->get_errors().size();
            json r = guarded([&](json& r) {
                std::unique_ptr<PropertyBuilder> own;
                PropertyBuilder* pb;
                if (one_builder) { if (!shared) shared = make(); pb = shared.get(); }
                else { own = make(); pb = own.get(); }
                const size_t before = one_builder ? pb->getProperties().size() : 0;
                r["ret"] = parseProperty(qj.get<std::string>().c_str(), pb);
                json props = json::array();
                size_t k = 0;
                for (auto& p : pb->getProperties()) {
                    if (k++ < before) continue;
                    json subj = json::array();
                    // the formula of the strategy referred to is printed by the library: a reference to a property that no longer exists is then seen by the sanitizer build
                    for (auto* s : p.subjections) subj.push_back(s ? s->declaration + " = " + vh::safe_str(s->intermediate) : std::string("<null>"));
                    props.push_back(json{{"type", (int)p.type}, {"s", vh::safe_str(p.intermediate)},
                                         {"t", vh::expr_tree(p.intermediate, doc.get(), job.value("query_types", false))},
                                         {"declaration", p.declaration}, {"subjections", subj}, {"imitation", p.imitation ? json(p.imitation->declaration + " = " + vh::safe_str(p.imitation->intermediate)) : json(nullptr)}});
                }
                r["props"] = props;
            });
            json errs = json::array();
            for (size_t i = nerr; i < doc->get_errors().size(); ++i) errs.push_back(vh::err_json(doc->get_errors()[i]));
            r["errors"] = errs;
            arr.push_back(r);
        }
        out["queries"] = arr;
    }
    // C03: print -> re-parse round trips of expressions (in the document's global scope) and of queries
    if (job.contains("roundtrip")) {
        json arr = json::array();
        std::unique_ptr<TigaPropertyBuilder> tiga;
        for (auto& rj : job["roundtrip"]) {
            json r;
            const std::string text = rj["text"];
            const bool is_query = rj.value("query", false);
            r["text"] = text;
            auto parse_one = [&](const std::string& src, expression_t& out, json& info) -> bool {
                doc->clear_errors();   // PropertyBuilder::property() drops the property when the document holds any error
                size_t nerr = 0;
                bool ok = true;
                try {
                    if (is_query) {
                        // strategy names declared by earlier items of the job stay visible through `strategies`
                        if (!tiga) tiga = std::make_unique<TigaPropertyBuilder>(*doc);
                        size_t before = tiga->getProperties().size();
                        int rc = parseProperty(src.c_str(), tiga.get());
                        info["ret"] = rc;
                        if (tiga->getProperties().size() != before + 1) { info["nprops"] = tiga->getProperties().size() - before; ok = false; }
                        else out = tiga->getProperties().back().intermediate;
                    } else {
                        ExpressionBuilder eb{*doc};
                        int rc = parse_XTA(src.c_str(), &eb, newxta, part_of(rj.value("part", "S_EXPRESSION")), "");
                        info["ret"] = rc;
                        if (eb.getExpressions().size() != 1) { info["nfrag"] = eb.getExpressions().size(); ok = false; }
                        else {
                            out = eb.getExpressions()[0];
                            if (nerr == doc->get_errors().size() && !out.empty()) { TypeChecker tc{*doc}; tc.checkExpression(out); }
                        }
                    }
                } catch (const std::exception& e) { info["threw"] = demangle(typeid(e).name()); info["what"] = e.what(); ok = false; }
                json errs = json::array();
                for (size_t i = nerr; i < doc->get_errors().size(); ++i) errs.push_back(doc->get_errors()[i].msg);
                info["errors"] = errs;
                return ok && errs.empty() && !out.empty();
            };
            expression_t e1, e2;
            json i1, i2;
            if (!parse_one(text, e1, i1)) { r["status"] = "not-accepted"; r["first"] = i1; arr.push_back(r); continue; }
            std::string s1;
            try { s1 = e1.str(); } catch (const std::exception& e) { r["status"] = "str-threw"; r["what"] = std::string(demangle(typeid(e).name())) + ": " + e.what(); r["t1"] = vh::expr_tree(e1, doc.get(), false); arr.push_back(r); continue; }
            r["s1"] = s1;
            r["t1"] = vh::expr_tree(e1, nullptr, false);
            // reparse_prefix: what a game query puts in front of the path formula (PropInfo::intermediate is the formula without it)
            if (!parse_one(rj.value("reparse_prefix", std::string()) + s1, e2, i2)) { r["status"] = "reparse-failed"; r["second"] = i2; arr.push_back(r); continue; }
            r["t2"] = vh::expr_tree(e2, nullptr, false);
            r["equal"] = e1.equal(e2);
            try { r["s2"] = e2.str(); } catch (const std::exception& e) { r["s2"] = nullptr; }
            r["status"] = "ok";
            arr.push_back(r);
        }
        out["roundtrip"] = arr;
    }
    if (job.contains("write_xml")) {
        out["write"] = guarded([&](json& r) { r["ret"] = write_XML_file(job["write_xml"].get<std::string>().c_str(), doc.get()); });
    }
    if (job.value("dump", true)) {
        json d = guarded([&](json& r) { r["doc"] = dumper.dump(job.value("structure", true)); });
        out["dump"] = d;
    }
    return out;
}

#ifndef VH_NO_MAIN
int main(int argc, char** argv) { return vh::jobloop_main(argc, argv, run_job); }
#endif
