// The real scanner on a list of texts (B2 conformance for Lex.tla): for each text the token string flex makes of it
// (through the hook utap_verif_scan, no parsing), the scanner's own diagnostics, the expectations it hands over from
// comments, the line breaks it reports, and - by scanning a probe text afterwards - the start condition it is left in.
// job: {id, syntax: "new"|"old"|"property", types: [names the builder reports as type names], texts: [text, ...]}
#include "TraceBuilder.hpp"
#include "jobloop.hpp"

#include "utap/utap.h"

using nlohmann::json;
using namespace UTAP;

int32_t utap_verif_scan(const char* str, ParserBuilder* builder, int syntax_kind,
                        void (*sink)(int token, const char* name, const char* text, uint32_t start, uint32_t end, void* ctx), void* ctx);

int32_t utap_verif_token_number();
double utap_verif_token_floating();

struct ScanBuilder : vh::NullBuilder
{
    std::vector<std::string> errors, expects;
    int lines = 0;
    void handle_error(const TypeException& e) override { errors.push_back(e.what()); }
    void handle_expect(const char* t) override { expects.push_back(t ? t : "<null>"); }
    void add_position(uint32_t, uint32_t, uint32_t line, std::shared_ptr<std::string>) override { lines = line; }   // setPath: line 1; every newline(n): line += n
};

static void take(int token, const char* name, const char* text, uint32_t a, uint32_t b, void* ctx)
{
    json tk = json::array({name, std::string(text), a, b});
    const std::string nm = name;
    if (nm == "T_NAT") tk.push_back(utap_verif_token_number());             // the value the parser is given
    if (nm == "T_FLOATING") { double d = utap_verif_token_floating(); uint64_t bits; memcpy(&bits, &d, 8); tk.push_back(std::to_string(bits)); }
    static_cast<json*>(ctx)->push_back(tk);
}

static json run_job(const json& job)
{
    json out{{"id", job["id"]}};
    const std::string syn = job.value("syntax", "new");
    const int kind = syn == "property" ? 2 : (syn == "old" ? 1 : 0);
    json results = json::array();
    for (auto& tj : job["texts"]) {
        const std::string text = tj.get<std::string>();
        ScanBuilder b;
        if (job.contains("types")) for (auto& t : job["types"]) b.type_names.insert(t.get<std::string>());
        json toks = json::array();
        json r;
        try {
            utap_verif_scan(text.c_str(), &b, kind, take, &toks);
            r["outcome"] = "return";
        } catch (const std::exception& e) { r["outcome"] = "throw"; r["what"] = e.what(); }
        r["toks"] = toks;
        r["errs"] = b.errors;
        r["expect"] = b.expects;
        r["lines"] = b.lines - 1;      // setPath adds the first line
        // the start condition the scan leaves behind: in INITIAL the probe is two identifiers
        ScanBuilder p;
        json probe = json::array();
        try { utap_verif_scan("x y", &p, 0, take, &probe); } catch (...) {}
        r["after"] = probe.size();
        results.push_back(r);
    }
    out["results"] = results;
    out["outcome"] = "return";
    return out;
}

int main(int argc, char** argv) { return vh::jobloop_main(argc, argv, run_job); }
