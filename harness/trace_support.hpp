// Support for the generated TraceBuilder.hpp: argument -> JSON conversion and the event sink.
#pragma once
#include "utap/common.h"
#include "utap/builder.h"

#include <nlohmann/json.hpp>

#include <cxxabi.h>
#include <functional>
#include <memory>
#include <set>
#include <string>
#include <vector>

namespace vh {
using nlohmann::json;

inline const char* kind_name2(int k)
{
    static const char* names[] = {
#define KIND(x) #x,
#include "kind_names.inc"
#undef KIND
    };
    constexpr int n = sizeof(names) / sizeof(names[0]);
    return (k >= 0 && k < n) ? names[k] : "?";
}

inline json tj(const char* s) { return s ? json(std::string(s)) : json(nullptr); }
inline json tj(const std::string& s) { return s; }
inline json tj(bool b) { return b; }
inline json tj(int v) { return v; }
inline json tj(unsigned v) { return v; }
inline json tj(long v) { return v; }
inline json tj(unsigned long v) { return v; }
inline json tj(char c) { return std::string(1, c); }
inline json tj(double d) { char b[40]; snprintf(b, sizeof b, "%a", d); return std::string(b); }
inline json tj(UTAP::Constants::kind_t k) { return std::string(kind_name2(k)); }
inline json tj(UTAP::Constants::synchronisation_t s) { return s == UTAP::Constants::SYNC_QUE ? "SYNC_QUE" : s == UTAP::Constants::SYNC_BANG ? "SYNC_BANG" : "SYNC_CSP"; }
inline json tj(UTAP::ParserBuilder::PREFIX p)
{
    switch (p) {
    case UTAP::ParserBuilder::PREFIX_NONE: return "PREFIX_NONE";
    case UTAP::ParserBuilder::PREFIX_CONST: return "PREFIX_CONST";
    case UTAP::ParserBuilder::PREFIX_URGENT: return "PREFIX_URGENT";
    case UTAP::ParserBuilder::PREFIX_BROADCAST: return "PREFIX_BROADCAST";
    case UTAP::ParserBuilder::PREFIX_URGENT_BROADCAST: return "PREFIX_URGENT_BROADCAST";
    case UTAP::ParserBuilder::PREFIX_SYSTEM_META: return "PREFIX_SYSTEM_META";
    case UTAP::ParserBuilder::PREFIX_HYBRID: return "PREFIX_HYBRID";
    }
    return (int)p;
}
inline json tj(UTAP::ParserBuilder::PRICETYPE p) { return p == UTAP::ParserBuilder::TIMEPRICE ? "TIMEPRICE" : p == UTAP::ParserBuilder::EXPRPRICE ? "EXPRPRICE" : "PROBAPRICE"; }
inline json tj(const UTAP::TypeException& e) { return std::string(e.what()); }
inline json tj(const std::shared_ptr<std::string>& p) { return p ? json(*p) : json(nullptr); }
inline json tj(const std::vector<std::string>& v) { return v; }

inline const char* exc_name(const std::exception& e)
{
    static thread_local std::string s;
    int st = 0;
    char* d = abi::__cxa_demangle(typeid(e).name(), nullptr, nullptr, &st);
    s = (st == 0 && d) ? d : typeid(e).name();
    free(d);
    return s.c_str();
}

struct TraceSink
{
    std::vector<json> events;
    size_t limit = 2000000;
    void emit(json ev) { if (events.size() < limit) events.push_back(std::move(ev)); }
};

}  // namespace vh
