// Executes every transition of Range.tla's exported state graph on the real UTAP::range_t<T>.
// input: NDJSON records {kind,op,pre:[lo,hi],arg:[..],post:[]|[lo,hi] | res}; output: NDJSON failures + summary.
// Abstract integers are embedded into T by order- and adjacency-preserving maps (translations for
// integral T; ulp-steps for double, including maps whose extreme point is +-infinity), so the spec's
// integer model is isomorphic to what the call sees.
#include "utap/range.h"

#include <nlohmann/json.hpp>

#include <cmath>
#include <cstdint>
#include <fstream>
#include <functional>
#include <iostream>
#include <limits>
#include <optional>
#include <string>

using nlohmann::json;
using UTAP::range_t;

static long n_exec = 0, n_fail = 0, n_skipped = 0;
static std::ostream* out;

static void fail(long idx, const std::string& variant, const json& rec, const std::string& what)
{
    ++n_fail;
    if (n_fail <= 200)
        (*out) << json{{"fail", true}, {"idx", idx}, {"variant", variant}, {"rec", rec}, {"what", what}}.dump() << "\n";
}

static double ulp_step(double base, long k)
{
    double v = base;
    if (k >= 0)
        for (long i = 0; i < k; ++i) v = std::nextafter(v, std::numeric_limits<double>::infinity());
    else
        for (long i = 0; i < -k; ++i) v = std::nextafter(v, -std::numeric_limits<double>::infinity());
    return v;
}

template <typename T>
struct Emb
{
    std::string name;
    std::function<std::optional<T>(long)> f;  // nullopt: not representable -> skip variant
};

template <typename T>
static std::optional<T> shift_int(long v, long k)
{
    long w = v + k;
    if (w < (long)std::numeric_limits<T>::min() || w > (long)std::numeric_limits<T>::max())
        return std::nullopt;
    return (T)w;
}

template <typename T>
static std::string show(const range_t<T>& r)
{
    std::ostringstream os;
    os << "[" << +r.first() << "," << +r.last() << "]";
    return os.str();
}

// run one record with receiver embedding er, argument embedding ea, result embedding eo
template <typename T>
static void run_one(long idx, const json& rec, const std::string& variant, const Emb<T>& er, const Emb<T>& ea,
                    const Emb<T>& eo, bool check_size)
{
    const std::string op = rec["op"];
    const auto& pre = rec["pre"];
    const auto& arg = rec["arg"];
    auto plo = er.f(pre[0].get<long>()), phi = er.f(pre[1].get<long>());
    if (!plo || !phi) { ++n_skipped; return; }
    range_t<T> r(*plo, *phi);
    std::optional<T> a0, a1;
    if (arg.size() >= 1) { a0 = ea.f(arg[0].get<long>()); if (!a0) { ++n_skipped; return; } }
    if (arg.size() >= 2) { a1 = ea.f(arg[1].get<long>()); if (!a1) { ++n_skipped; return; } }
    const bool elem = arg.size() == 1;
    if (rec["kind"] == "mut") {
        const auto& post = rec["post"];
        std::optional<T> qlo, qhi;
        if (post.size() == 2) {
            qlo = eo.f(post[0].get<long>()); qhi = eo.f(post[1].get<long>());
            if (!qlo || !qhi) { ++n_skipped; return; }  // result overflows the type: outside the property
        }
        range_t<T> res = r, res2 = r;  // res: mutating form; res2: value-returning form where one exists
        bool have2 = false;
        if (op == "gt") res.gt(*a0);
        else if (op == "geq") res.geq(*a0);
        else if (op == "lt") res.lt(*a0);
        else if (op == "leq") res.leq(*a0);
        else if (op == "meet") { if (elem) { res &= *a0; res2 = r.intersection(*a0); } else { res &= range_t<T>(*a0, *a1); res2 = r & range_t<T>(*a0, *a1); } have2 = true; }
        else if (op == "join") { if (elem) { res |= *a0; res2 = r.unite(*a0); } else { res |= range_t<T>(*a0, *a1); res2 = r | range_t<T>(*a0, *a1); } have2 = true; }
        else if (op == "plus") { if (elem) { res += *a0; res2 = r + *a0; } else { res += range_t<T>(*a0, *a1); res2 = r + range_t<T>(*a0, *a1); } have2 = true; }
        else if (op == "minus") { if (elem) { res -= *a0; res2 = r - *a0; } else { res -= range_t<T>(*a0, *a1); res2 = r - range_t<T>(*a0, *a1); } have2 = true; }
        else if (op == "times") { if (elem) { res *= *a0; res2 = r * *a0; } else { res *= range_t<T>(*a0, *a1); res2 = r * range_t<T>(*a0, *a1); } have2 = true; }
        else { fail(idx, variant, rec, "unknown op"); return; }
        ++n_exec;
        for (int form = 0; form < (have2 ? 2 : 1); ++form) {
            const range_t<T>& x = form ? res2 : res;
            if (post.empty()) {
                if (!x.empty()) fail(idx, variant, rec, "expected empty, got " + show(x));
            } else {
                if (x.empty() || !(x.first() == *qlo) || !(x.last() == *qhi))
                    fail(idx, variant, rec, "expected [" + std::to_string((double)*qlo) + "," + std::to_string((double)*qhi) + "], got " + show(x));
                // membership of every embedded point of the window
                long lo = std::min(pre[0].get<long>(), post[0].get<long>()) - 2, hi = std::max(pre[1].get<long>(), post[1].get<long>()) + 2;
                for (long v = lo; v <= hi; ++v) {
                    auto p = eo.f(v);
                    if (!p) continue;
                    bool want = post[0].get<long>() <= v && v <= post[1].get<long>();
                    if (x.contains(*p) != want) { fail(idx, variant, rec, "membership of point " + std::to_string(v)); break; }
                }
            }
        }
    } else {
        const auto& want = rec["res"];
        ++n_exec;
        if (op == "contains") { if (r.contains(*a0) != want.get<bool>() || (r && *a0) != want.get<bool>()) fail(idx, variant, rec, "contains"); }
        else if (op == "empty") { if (r.empty() != want.get<bool>()) fail(idx, variant, rec, "empty"); }
        else if (op == "size") { if (check_size && (long)r.size() != want.get<long>()) fail(idx, variant, rec, "size got " + std::to_string(r.size())); }
        else {
            range_t<T> o(*a0, *a1);
            bool got;
            if (op == "intersects") got = r.intersects(o);
            else if (op == "eq") got = (r == o);
            else if (op == "less") got = (r < o);
            else if (op == "greater") got = (r > o);
            else { fail(idx, variant, rec, "unknown query"); return; }
            if (got != want.get<bool>()) fail(idx, variant, rec, op + " got " + (got ? "true" : "false"));
            if (op == "eq" && o.first() == o.last() && (r == o.first()) != want.get<bool>()) fail(idx, variant, rec, "eq(elem)");
            if (op == "intersects" && (r && o) != want.get<bool>()) fail(idx, variant, rec, "operator&&");
            if (op == "less" && (r >= o) == want.get<bool>()) fail(idx, variant, rec, "operator>=");
            if (op == "greater" && (r <= o) == want.get<bool>()) fail(idx, variant, rec, "operator<=");
        }
    }
}

static void extent(const json& rec, long& vmin, long& vmax, bool include_arg)
{
    vmin = std::numeric_limits<long>::max(); vmax = std::numeric_limits<long>::min();
    auto upd = [&](const json& a) { for (auto& v : a) { long x = v.get<long>(); vmin = std::min(vmin, x); vmax = std::max(vmax, x); } };
    upd(rec["pre"]);
    if (rec.contains("post")) upd(rec["post"]);
    if (include_arg) upd(rec["arg"]);
}

template <typename T>
static void run_integral(long idx, const json& rec, const std::string& tname)
{
    const std::string op = rec["op"];
    const bool arith = (op == "plus" || op == "minus" || op == "times");
    auto id = Emb<T>{"id", [](long v) { return shift_int<T>(v, 0); }};
    run_one<T>(idx, rec, tname + "/id", id, id, id, true);
    if (op == "times") return;
    long vmin, vmax;
    extent(rec, vmin, vmax, !arith);
    for (int side = 0; side < 2; ++side) {
        long k = side ? (long)std::numeric_limits<T>::max() - vmax : (long)std::numeric_limits<T>::min() - vmin;
        auto sh = Emb<T>{"shift", [k](long v) { return shift_int<T>(v, k); }};
        if (arith)  // receiver and result translated, operand not
            run_one<T>(idx, rec, tname + (side ? "/top" : "/bottom"), sh, id, sh, true);
        else
            run_one<T>(idx, rec, tname + (side ? "/top" : "/bottom"), sh, sh, sh, true);
    }
}

static void run_double(long idx, const json& rec)
{
    using T = double;
    const std::string op = rec["op"];
    const bool arith = (op == "plus" || op == "minus" || op == "times");
    auto id = Emb<T>{"id", [](long v) { return std::optional<T>((double)v); }};
    // integers are not adjacent doubles: gt/lt (next_value/prev_value) are exact only under the ulp embeddings below
    if (op != "gt" && op != "lt") run_one<T>(idx, rec, "double/id", id, id, id, false);
    if (arith) {
        auto half = Emb<T>{"half", [](long v) { return std::optional<T>((double)v * 0.5); }};  // scaling commutes with +,-
        if (op != "times") run_one<T>(idx, rec, "double/half", half, half, half, false);
        return;
    }
    long vmin, vmax;
    extent(rec, vmin, vmax, true);
    const double inf = std::numeric_limits<double>::infinity();
    auto u1 = Emb<T>{"ulp1", [](long v) { return std::optional<T>(ulp_step(1.0, v)); }};
    auto u0 = Emb<T>{"ulp0", [](long v) { return std::optional<T>(ulp_step(0.0, v)); }};
    auto top = Emb<T>{"top", [=](long v) { return std::optional<T>(ulp_step(inf, v - vmax)); }};
    auto bot = Emb<T>{"bot", [=](long v) { return std::optional<T>(ulp_step(-inf, v - vmin)); }};
    // beyond the record's extent the window points of `top` stay at +inf (not injective): restrict by skipping size
    run_one<T>(idx, rec, "double/ulp1", u1, u1, u1, false);
    run_one<T>(idx, rec, "double/ulp0", u0, u0, u0, false);
    auto topc = Emb<T>{"top", [=](long v) { return v > vmax ? std::nullopt : std::optional<T>(ulp_step(inf, v - vmax)); }};
    auto botc = Emb<T>{"bot", [=](long v) { return v < vmin ? std::nullopt : std::optional<T>(ulp_step(-inf, v - vmin)); }};
    run_one<T>(idx, rec, "double/top", topc, topc, topc, false);
    run_one<T>(idx, rec, "double/bottom", botc, botc, botc, false);
}

int main(int argc, char** argv)
{
    if (argc < 3) { std::cerr << "usage: replay_range cases.ndjson out.ndjson\n"; return 2; }
    std::ifstream in(argv[1]);
    std::ofstream o(argv[2]);
    out = &o;
    std::string line;
    long idx = 0;
    while (std::getline(in, line)) {
        if (line.empty()) continue;
        json rec = json::parse(line);
        run_integral<int8_t>(idx, rec, "int8");
        run_integral<int32_t>(idx, rec, "int32");
        run_integral<int16_t>(idx, rec, "int16");
        run_double(idx, rec);
        ++idx;
    }
    o << json{{"summary", true}, {"records", idx}, {"executions", n_exec}, {"failures", n_fail}, {"skipped", n_skipped}}.dump() << "\n";
    return 0;
}
